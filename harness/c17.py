"""C17 - Hypergraph-MT / HySC: correspondence of lean/Hgxv/Model/C17.lean with
hypergraphx.communities.hypergraph_mt.model.HypergraphMT and hypergraphx.communities.hy_sc.model.HySC,
and independent property oracles on the implementation (validity of the output, ascent, agreement of the
incremental log-likelihood with its definition, bookkeeping, reproducibility)."""
import io
import itertools
import random
import math
import time
import contextlib
import signal
import struct
import warnings
from fractions import Fraction

import sys

import hgxv

import os

for _v in ("OMP_NUM_THREADS", "OPENBLAS_NUM_THREADS", "MKL_NUM_THREADS"):
    os.environ.setdefault(_v, "1")   # tiny matrices: threads only cost time

if hasattr(sys, "set_int_max_str_digits"):
    sys.set_int_max_str_digits(0)

RULE = ("first the committed witnesses of every repaired defect (D30, D36, D37, D52) and of the known findings (D34, D35); then "
        "(a) random small hypergraphs (3-8 nodes with arbitrary int/str labels, 1-9 hyperedges of size 2..5, weighted or "
        "not, 0-2 isolated nodes, at least K non-isolated nodes; some built through a detour: temporary hyperedges / a "
        "temporary node inserted midway and removed again), K in {2,3}, seed, n_realizations in {1,3}, max_iter "
        "in 1..30, min_value_par in {0, 1e-5}, normalizeU and baseline_r0 both; each configuration is run through "
        "HypergraphMT.fit twice and once more step by step (the harness drives _update_em and reads u, w, psiOmega, "
        "psiBarOmega, rho after every sweep); HySC.fit twice; a third of them once more after a fit with another seed and "
        "after an in-place change of the hypergraph (against a freshly built equal hypergraph); "
        "(b) degenerate hypergraphs: one dominant hyperedge of size 2..8 plus 0-2 sub-hyperedges and 0-3 isolated nodes, K from "
        "2 up to the number of covered nodes (beyond it with a random start), default threshold mostly, several seeds per "
        "hypergraph, run through fit and step by step with the validity oracles on the state after EVERY sweep; "
        "(c) exact dyadic states with zero entries / columns with a single non-zero entry on the object's attributes; "
        "(d) sessions: ONE HySC object (seed incl. 0, n_realizations 1/3/10) or ONE HypergraphMT object fitted 3-6 times on two "
        "hypergraphs A and B (A from class (a) with its detour; B another random / degenerate hypergraph, a different object "
        "with the same nodes and number of hyperedges, or A.copy()), with K, weighted_L resp. K, seed (also None and 0), "
        "normalizeU, baseline_r0 drawn per call, 40 % of the calls repeating an earlier call of the session; between calls "
        "the harness may overwrite every array returned so far, change A or B in place (add / replace / reweight / remove and "
        "re-insert a hyperedge, possibly taking in an isolated node), re-seed numpy's global generator, set a public "
        "attribute of the model (seed, n_realizations, max_iter, min_value_par); every call is compared with the same call "
        "on a fresh model object and a freshly rebuilt hypergraph; "
        "(e) large hypergraphs, 300-1100 nodes (quick: one of 301-400 and one of 500-800 nodes; sizes also next to 256, 300, 512, "
        "1000), disconnected with 2-9 components of unequal size, identical copies of one component, hundreds of components of 2-4 "
        "nodes, a circulant ring (all with a degenerate Laplacian spectrum), planted groups on a connected hypergraph, a few "
        "hyperedges of 9-22 nodes, int / large int / str labels in random order, 0-5 isolated nodes, weighted or not: HySC.fit 2-4 "
        "times with the same seed in one process (fresh objects, the same object again, numpy's global generator re-seeded in "
        "between; also weighted_L) - valid 0/1 matrix each time, all equal; HypergraphMT.fit twice + step by step with every oracle "
        "of (a) and, in place of the Lean model, rho and psiOmega of every sweep against their definitions; "
        "(f) termination / initialisation class: hypergraphs of class (a) with check_convergence_every in {1,2,3,4,7}, tolerance in "
        "{0.01,0.1,0.5,2}, threshold_for_convergence in {0,1,2,3,15}, max_iter in 1..40, n_realizations 1-3, 40 % with an input array "
        "for initialize_u0 and 40 % for initialize_w0, 25 % with fix_w and 25 % with fix_communities: every sweep against the model's "
        "_update_em with those flags, fit against its step-by-step replica, the training table against the model's "
        "loop (runReal / bestOf), the first (u, w) of every realisation against the model's initialisation from the RAW random draws. "
        "In (a), (b) and (f) every initialisation is recomputed by the model from the raw outputs of random_sample, and the Laplacian "
        "of every HySC object (binary and weighted_L) is compared with the model's. "
        "A case is distinct by (hyperedges, weights, isolated nodes, K, seed, configuration); non-trivial when at least two "
        "EM sweeps ran, the log-likelihood strictly increased at least once and the returned u has two different non-zero rows; "
        "a session is non-trivial when it has a repeated call and two calls with different results")
ASSUMPTIONS = [
    "hyperedges have size >= 2 (size 1 has no affinity row), weights > 0, at least K non-isolated nodes (KMeans needs n_samples >= n_clusters)",
    "gammaU, gammaW, out_inference at their defaults; fix_w, fix_communities, initialize_u0/w0 (arrays only), check_convergence_every != 1, tolerance, threshold_for_convergence only in class (f), where the ascent / agreement oracles are not evaluated (between two checks the recorded value is stale by design)",
    "ascent is demanded for normalizeU=False; agreement incremental = definition for min_value_par=0 (the property's quantifier)",
    "a decrease of the recorded log-likelihood is tolerated only in a sweep with a clamp/repair event (D34) or in an ill-conditioned state (min positive u < 1e-20 or max w > 1e10, D35); both classes are replayed from committed witnesses",
    "the state after sweep t of a realisation is what fit returns for max_iter = t+1, n_realizations = 1 and that realisation's seed: an invalid intermediate state is reported only after fit itself was run on that configuration and returned / raised the same",
    "a hypergraph object that was fitted before (other seed) or changed in place gives the same result as a freshly built hypergraph with the same insertion history",
    "run twice = two fresh model objects, the same object twice in a row, the same object with other calls (other hypergraph, K, seed, options) in between, in one process: every call of fit must return exactly what a fresh object returns for the same arguments and the current content of the hypergraph (HySC: K-means is seeded anew from self.seed in every call; HypergraphMT: _check_fit_params rebuilds all state and, since the D52 repair, fit resets maxL); arrays returned earlier stay as they were; fit leaves the hypergraph (listings, weights incl. number types, every attribute) untouched",
    "large cases: the Lean model is not run (its index-style lists are linear-time); the per-call limit of 30 s counts CPU seconds of the process there; parts of a large case that do not fit into the stage's time cap (quick 10 s, thorough 130 s) are left out and counted",
    "a session call whose reference call on a fresh object raises (K-means, ill-conditioned state) ends the session without a verdict: failures of a single call are the business of classes (a)-(c)",
]
TRUSTED = [
    "k-means (sklearn), np.linalg.eig, scipy.optimize.root (Lagrange multiplier), RandomState draws: parameters of the model, their values are read from the running implementation (the raw outputs of random_sample; u0, w0 are computed from them by the model)",
    "np.sqrt in HySC._extract_laplacian: the model's Laplacian takes the square root as a parameter (Float.sqrt in the driver); entries compared at 1e-12 relative to the largest entry (the code's matrix products associate differently)",
    "binary64 vs exact arithmetic: model sweeps are compared at 1e-9 relative (per array scale); the generic Lean definitions are run at Float for whole trajectories and at Rat on small dyadic states",
    "log/exp of numpy; the model returns the Poisson means and the penalty, the harness applies math.log",
    "normalizeU=True: the root finder is outside the proof (contract LamOk of C17_normalized_row); row sums are checked on the code after every sweep, up to 1e-6 + K*min_value_par + 16 * (change of the constraint over one binary64 step of the multiplier at its root, found by bisection on the bit patterns); a numerator below 1e-290 counts as unrepresentable",
    "the u-clamps (min_value_par, max_value_par) are modelled; the negative-psi repairs are not (exact arithmetic never triggers them); ascent is proved for sweeps in which no clamp fires",
]
BUDGET_S = {"quick": 50, "thorough": 840}

EPS = 1e-20
INF = 1e10
CALL_TIMEOUT = 30


class Timeout(Exception):
    pass


def _alarm(signum, frame):
    raise Timeout()


CPU_TIMER = [False]    # large cases: the limit counts CPU seconds of this process (a busy machine must not look like a hang)


@contextlib.contextmanager
def limit(seconds):
    if CPU_TIMER[0]:
        old = signal.signal(signal.SIGPROF, _alarm)
        signal.setitimer(signal.ITIMER_PROF, float(seconds))
        try:
            yield
        finally:
            signal.setitimer(signal.ITIMER_PROF, 0.0)
            signal.signal(signal.SIGPROF, old)
        return
    old = signal.signal(signal.SIGALRM, _alarm)
    signal.alarm(int(seconds))
    try:
        yield
    finally:
        signal.alarm(0)
        signal.signal(signal.SIGALRM, old)


@contextlib.contextmanager
def quiet():
    with warnings.catch_warnings():
        warnings.simplefilter("ignore")
        with contextlib.redirect_stdout(io.StringIO()):
            import numpy as np
            with np.errstate(all="ignore"):
                yield


# ------------------------------------------------------------------------------------------
# generation

WEIGHTS = [1, 2, 3, 5, 0.5, 1.5, 2.25, 7]
WEIGHTS_WIDE = [1, 1, 2, 3, 0.5, 1.5, 2.25, 0.125, 0.75, 7, 40, 2.5, 1000.0, 0.001, 0.1, 2.7]   # non-integers (also non-dyadic), < 1, large, tiny


def skey(e):
    return tuple(sorted(e, key=repr))


def gen_history(rng, case, labels, core):
    """optional parts of a case that make the hypergraph an object with a past: a detour in its construction and an
    in-place change after the first fits (both replayable from the case)"""
    edges = case["edges"]
    have = set(skey(e) for e in edges)
    weighted = case["weights"] is not None
    if rng.random() < 0.35:
        isstr = isinstance(labels[0], str)      # labels of one hypergraph are mutually comparable
        tmp_node = rng.choice(["tmp", "A0"] if isstr else [-7, 99]) if rng.random() < 0.6 else None
        pool = list(core) + ([tmp_node] if tmp_node is not None else [])
        tmp = []
        for _ in range(rng.randint(1, 2)):
            if len(pool) < 2:
                break
            e = tuple(rng.sample(pool, rng.randint(2, min(4, len(pool)))))
            if tmp_node is not None and not tmp:
                e = tuple(dict.fromkeys((tmp_node,) + e))[: max(2, len(e))]
            if skey(e) not in have and skey(e) not in set(skey(x) for x in tmp):
                tmp.append(e)
        if tmp or tmp_node is not None:
            case["detour"] = {"at": rng.randint(0, len(edges)), "edges": tmp, "node": tmp_node,
                              "weights": [rng.choice(WEIGHTS_WIDE) for _ in tmp] if weighted else None}
    if rng.random() < 0.45:
        # an in-place change after the first fits.  "add" changes the counts; "reweight" and "replace" keep the number of
        # nodes and of hyperedges (cheap signatures of the object stay equal)
        kind = rng.choice(["add", "replace", "reweight" if weighted else "replace"])
        new_e = None
        for _ in range(6):
            e = tuple(rng.sample(list(core), rng.randint(2, min(4, len(core)))))
            if skey(e) not in have:
                new_e = e
                break
        if kind == "reweight":
            j = rng.randrange(len(edges))
            w_new = rng.choice([x for x in WEIGHTS_WIDE if x != case["weights"][j]])
            case["mutate"] = {"kind": "reweight", "edge": edges[j], "weight": w_new}
        elif kind == "replace" and new_e is not None and len(edges) >= 2:
            j = rng.randrange(len(edges))
            rest = set(x for i, e in enumerate(edges) if i != j for x in e) | set(new_e)
            if len(rest) >= case["K"]:
                case["mutate"] = {"kind": "replace", "edge": edges[j], "add": new_e,
                                  "weight": rng.choice(WEIGHTS_WIDE) if weighted else None}
        if "mutate" not in case:
            if new_e is None:
                new_e = (core[0], "zz_new" if isinstance(labels[0], str) else 77)
            case["mutate"] = {"kind": "add", "add": new_e, "weight": rng.choice(WEIGHTS_WIDE) if weighted else None}
    return case


def gen(rng):
    K = rng.choice([2, 2, 3])
    n = rng.randint(max(3, K), 8)
    if rng.random() < 0.3:
        pool = [chr(97 + i) * rng.randint(1, 2) for i in range(20)] + ["N0", "E1"]
        labels = rng.sample(sorted(set(pool)), n)
    else:
        labels = rng.sample(range(0, 60), n)
    n_iso = rng.choice([0, 0, 1, 1, 2])
    n_iso = min(n_iso, n - K)
    core = labels[: n - n_iso]
    iso = labels[n - n_iso:]
    dmax = min(len(core), rng.choice([2, 3, 3, 4, 4, 5]))
    edges = {}
    for _ in range(rng.randint(1, 9)):
        sz = rng.randint(2, dmax)
        e = tuple(sorted(rng.sample(core, sz), key=lambda x: labels.index(x)))
        edges[tuple(sorted(e, key=repr))] = e
    edges = list(edges.values())
    # make sure at least K nodes are covered
    covered = set(x for e in edges for x in e)
    missing = [x for x in core if x not in covered]
    while len(covered) < K and missing:
        x = missing.pop()
        y = rng.choice(sorted(covered, key=repr))
        edges.append((y, x))
        covered.add(x)
    weighted = rng.random() < 0.5
    if weighted:
        wpool = WEIGHTS if rng.random() < 0.7 else WEIGHTS_WIDE
        weights = [rng.choice(wpool) for _ in edges]
    else:
        weights = None
    cfgd = {
        "K": K, "seed": rng.randint(0, 10 ** 6), "n_realizations": rng.choice([1, 3]),
        "max_iter": rng.choice([1, 2, 5, 10, 20, 30, 30]), "min_value_par": rng.choice([0.0, 1e-5, 1e-5]),
        "normalizeU": rng.random() < 0.35, "baseline_r0": rng.random() < 0.5,
    }
    order = list(labels)
    rng.shuffle(order)   # order in which nodes are added (isolated ones explicitly)
    case = {"edges": edges, "weights": weights, "isolated": iso, "node_order": [x for x in order if x in iso], **cfgd}
    return gen_history(rng, case, labels, [x for x in core if x in covered] or core)


def gen_small(rng):
    """the degenerate corner: ONE dominant hyperedge (every covered node is in it) of size 2..8, at most two further
    hyperedges inside it, isolated nodes, K up to the number of covered nodes (above it when the start is random), the
    default threshold mostly.  After a few sweeps whole columns of u keep a single / a few non-zero entries: psi terms,
    denominators of the u and w updates and responsibilities vanish, rows of u have one dominant entry and the Lagrange
    root sits next to a pole.  Returns the hypergraph part; `small_variants` adds seeds and configurations"""
    s = rng.choice([2, 3, 4, 4, 5, 5, 6, 6, 6, 7, 7, 8])
    labels = rng.sample(range(0, 60), s + 3) if rng.random() < 0.8 else \
        rng.sample(["a", "b", "c", "dd", "e", "ff", "g", "h", "ii", "j", "k", "N0"], s + 3)
    core, spare = labels[:s], labels[s:]
    big = tuple(core)
    edges = {skey(big): big}
    for _ in range(rng.choice([0, 0, 0, 1, 1, 2])):
        if s < 3:
            break
        e = tuple(rng.sample(core, rng.randint(2, s - 1)))
        edges.setdefault(skey(e), e)
    edges = list(edges.values())
    rng.shuffle(edges)
    iso = spare[: rng.choice([0, 1, 1, 2, 3])]
    weights = [rng.choice(WEIGHTS_WIDE) for _ in edges] if rng.random() < 0.35 else None
    return {"edges": edges, "weights": weights, "isolated": iso, "node_order": list(iso)}


def small_variants(rng, hg, n):
    """n configurations (different seeds) on one degenerate hypergraph"""
    s = max(len(e) for e in hg["edges"])
    out = []
    for _ in range(n):
        base = rng.random() < 0.7
        if base:
            K = rng.randint(2, max(2, min(s, 7)))          # KMeans needs K <= number of covered nodes
            if rng.random() < 0.5:
                K = max(K, rng.randint(2, max(2, min(s, 7))))
        else:
            K = rng.randint(2, s + 2)                      # more communities than the data supports
        case = {**hg, "K": K, "seed": rng.randint(0, 10 ** 6), "n_realizations": rng.choice([1, 1, 1, 2]),
                "max_iter": rng.choice([3, 10, 20, 20, 30, 30, 40]), "min_value_par": rng.choice([1e-5, 1e-5, 1e-5, 0.0]),
                "normalizeU": rng.random() < 0.5, "baseline_r0": base and K <= s, "small": True}
        out.append(case)
    return out


def build(case, mutated=False):
    """the hypergraph of a case through its insertion history; `mutated`: with the in-place change of case['mutate']"""
    from hypergraphx import Hypergraph
    weights = case.get("weights")
    h = Hypergraph(weighted=weights is not None)
    edges = [tuple(e) for e in case["edges"]]
    iso = list(case.get("isolated", []))
    det = case.get("detour")
    # isolated nodes are added partly before, partly after the hyperedges
    for x in iso[: len(iso) // 2]:
        h.add_node(x)

    def detour_in():
        if det.get("node") is not None:
            h.add_node(det["node"])
        for j, e in enumerate(det["edges"]):
            if weights is not None:
                h.add_edge(tuple(e), weight=det["weights"][j])
            else:
                h.add_edge(tuple(e))

    for j, e in enumerate(edges):
        if det and det["at"] == j:
            detour_in()
        if weights is not None:
            h.add_edge(e, weight=weights[j])
        else:
            h.add_edge(e)
    if det and det["at"] >= len(edges):
        detour_in()
    if det:
        # the temporary items go away again: the content is exactly `edges` + `isolated`
        for e in det["edges"]:
            h.remove_edge(tuple(e))
        if det.get("node") is not None:
            h.remove_node(det["node"])
    for x in iso[len(iso) // 2:]:
        h.add_node(x)
    if mutated:
        mutate(case, h)
    return h


def apply_mu(mu, h):
    """one in-place change of a hypergraph"""
    kind = mu.get("kind", "add")
    if kind == "reweight":
        h.set_weight(tuple(mu["edge"]), mu["weight"])
        return
    if kind == "readd":
        # the same hyperedge removed and inserted again: same content, new internal id, last in every listing
        h.remove_edge(tuple(mu["edge"]))
        if mu.get("weight") is not None:
            h.add_edge(tuple(mu["edge"]), weight=mu["weight"])
        else:
            h.add_edge(tuple(mu["edge"]))
        return
    if kind == "replace":
        h.remove_edge(tuple(mu["edge"]))
    if mu.get("weight") is not None:
        h.add_edge(tuple(mu["add"]), weight=mu["weight"])
    else:
        h.add_edge(tuple(mu["add"]))


def content_after(edges, ws, mu):
    """(edges, weights) after the in-place change `mu`"""
    kind = mu.get("kind", "add")
    edges = [tuple(e) for e in edges]
    ws = list(ws) if ws is not None else None
    if kind == "reweight":
        j = [skey(e) for e in edges].index(skey(mu["edge"]))
        ws[j] = mu["weight"]
        return edges, ws
    if kind == "readd":
        j = [skey(e) for e in edges].index(skey(mu["edge"]))
        e = edges.pop(j)
        edges.append(e)
        if ws is not None:
            ws.append(ws.pop(j))
        return edges, ws
    if kind == "replace":
        j = [skey(e) for e in edges].index(skey(mu["edge"]))
        edges.pop(j)
        if ws is not None:
            ws.pop(j)
    edges.append(tuple(mu["add"]))
    if ws is not None:
        ws.append(mu["weight"])
    return edges, ws


def mutate(case, h):
    apply_mu(case["mutate"], h)


def mutated_content(case):
    """(edges, weights) after the in-place change"""
    return content_after(case["edges"], case.get("weights"), case["mutate"])


def new_model(case):
    from hypergraphx.communities.hypergraph_mt.model import HypergraphMT
    kw = {k: case[k] for k in ("tolerance", "threshold_for_convergence") if k in case}
    return HypergraphMT(n_realizations=case["n_realizations"], max_iter=case["max_iter"],
                        min_value_par=case["min_value_par"], verbose=False,
                        check_convergence_every=case.get("check_convergence_every", 1), **kw)


def fit_args(case):
    kw = dict(K=case["K"], seed=case["seed"], normalizeU=case["normalizeU"], baseline_r0=case["baseline_r0"])
    # extension round: the inputs of initialize_u0 / initialize_w0 (arrays), used by the termination/initialisation stage only
    if case.get("initialize_u0") is not None or case.get("initialize_w0") is not None:
        import numpy as np
        for k in ("initialize_u0", "initialize_w0"):
            if case.get(k) is not None:
                kw[k] = np.array(case[k], dtype=float)
    for k in ("fix_w", "fix_communities"):
        if k in case:
            kw[k] = case[k]
    return kw


# ------------------------------------------------------------------------------------------
# number formats

def f2bits(x):
    return str(struct.unpack("<Q", struct.pack("<d", float(x)))[0])


def bits2f(s):
    return struct.unpack("<d", struct.pack("<Q", int(s)))[0]


def enc_mat(M, enc):
    rows = [list(r) for r in M]
    if not rows:
        return "-"
    return ";".join((",".join(enc(x) for x in r) if r else "_") for r in rows)


def enc_vec(v, enc):
    v = list(v)
    return ",".join(enc(x) for x in v) if v else "-"


def dec_mat(s, dec):
    if s == "-":
        return []
    return [[] if r == "_" else [dec(t) for t in r.split(",")] for r in s.split(";")]


def dec_vec(s, dec):
    return [] if s == "-" else [dec(t) for t in s.split(",")]


def q(x):
    return hgxv.enc_num(Fraction(float(x)))


def qdec(s):
    return float(hgxv.dec_num(s))


def cfg_tokens(st, enc, minv, maxv=(100.0, 100.0), eps=EPS, normU=False):
    """st: dict with N K D edges(list of index lists) A"""
    mv = "none" if maxv is None else enc(maxv[0]) + ":" + enc(maxv[1])
    return [str(st["N"]), str(st["K"]), str(st["D"]), hgxv.enc_lists(st["edges"]), enc_vec(st["A"], enc),
            enc(minv), mv, enc(eps), enc(1e-3), "1" if normU else "0"]


# ------------------------------------------------------------------------------------------
# independent definitions (oracles)

def esymm_def(xs, d):
    if d > 1 and math.comb(len(xs), d) > 200000:
        return esymm_all(xs, d)[d]
    return math.fsum(math.prod(c) for c in itertools.combinations(xs, d))


def esymm_all(xs, dmax):
    """e_0..e_dmax of xs by the product formula prod_i (1 + x_i t) (truncated); for large N, where the sum over subsets
    is out of reach.  Non-negative xs: additions of non-negative terms only, relative error <= about N * dmax ulps"""
    e = [1.0] + [0.0] * dmax
    for x in xs:
        if x == 0.0:
            continue
        for j in range(dmax, 0, -1):
            e[j] += x * e[j - 1]
    return e


def loglik_def(static, u, w):
    """sum_e A_e log(sum_k w[|e|-2,k] prod_{i in e} u[i,k]) - sum_{d,k} w[d,k] e_{d+2}(u[:,k]) (with the code's EPS guards)"""
    K, D = static["K"], static["D"]
    tot = []
    for e, a in zip(static["edges"], static["A"]):
        lam = math.fsum(w[len(e) - 2][k] * math.prod(u[i][k] + EPS for i in e) for k in range(K))
        tot.append(a * math.log(lam + 1e-300))
    for k in range(K):
        col = [u[i][k] for i in range(static["N"])]
        if sum(math.comb(len(col), d) for d in range(2, D + 1)) > 200000:
            ea = esymm_all(col, D)
            for d in range(D - 1):
                tot.append(-w[d][k] * ea[d + 2])
        else:
            for d in range(D - 1):
                tot.append(-w[d][k] * esymm_def(col, d + 2))
    return math.fsum(tot)


def agree_tol(static, S, L):
    """'up to rounding' for incremental = definition: 1e-8 relative plus the forward error of a table that is maintained
    by additions and subtractions (N node updates per sweep, D multiply-subtract steps each, errors relative to the largest
    value the entry ever held): 16 D N (it + 2) eps sum_{d,k} w[d,k] max_history |psi[d+1,k]|"""
    w, pm = S["after"]["w"], S["psimax"]
    # the error of row d' enters row d > d' through d - d' multiplications by entries of u (psiBar[d] = psi[d] - u_i psiBar[d-1],
    # psi[d] += (u_i - u_i_old) psiBar[d-1]): the scale of row d is the largest of max|psi[d']| * (max u)^(d-d') over d' <= d
    um = S.get("umax") or [1.0] * len(pm[0])
    eff = [list(r) for r in pm]
    for d in range(1, len(eff)):
        for k in range(len(eff[d])):
            eff[d][k] = max(eff[d][k], eff[d - 1][k] * min(um[k], 1e2))
    cond = math.fsum(abs(w[d][k]) * eff[d + 1][k] for d in range(len(w)) for k in range(len(w[d]))
                     if math.isfinite(w[d][k]))
    return 1e-8 * max(1.0, abs(L)) + 16 * static["D"] * static["N"] * (S["it"] + 2) * 2.3e-16 * cond


def close(a, b, scale, rtol=1e-9):
    if a == b:
        return True
    if not (math.isfinite(a) and math.isfinite(b)):
        return False
    return abs(a - b) <= rtol * max(abs(a), abs(b)) + rtol * scale


def mat_diff(A, B, rtol=1e-9, per_row=False, row_scale=None):
    """first differing entry of two equally shaped float matrices, else None"""
    if len(A) != len(B) or any(len(r) != len(s) for r, s in zip(A, B)):
        return ("shape", [len(A)] + [len(r) for r in A], [len(B)] + [len(r) for r in B])
    allv = [abs(x) for r in A for x in r if math.isfinite(x)]
    gscale = max(allv) if allv else 0.0
    for i, (r, s) in enumerate(zip(A, B)):
        scale = max([abs(x) for x in r if math.isfinite(x)] or [0.0]) if per_row else gscale
        if row_scale is not None:
            scale = max(scale, row_scale[i])
        for k, (x, y) in enumerate(zip(r, s)):
            if not close(x, y, scale, rtol):
                return (i, k, x, y)
    return None


# ------------------------------------------------------------------------------------------
# step-by-step run of the implementation (the body of HypergraphMT.fit, driven from here)

class Trace:
    pass


def snapshot(m):
    return {"u": m.u.tolist(), "w": m.w.tolist(), "psi": m.psiOmega.tolist(), "bar": m.psiBarOmega.tolist(),
            "rho": m.rho.tolist()}


def ill_conditioned(snap):
    pos = [x for r in snap["u"] for x in r if x > 0]
    ws = [x for r in snap["w"] for x in r]
    bad = any(not math.isfinite(x) for r in snap["u"] for x in r) or any(not math.isfinite(x) for x in ws)
    return bad or (bool(pos) and min(pos) < 1e-20) or (bool(ws) and max(ws) > 1e10)


def instrument(m, ev):
    """record permutation draws, Lagrange multipliers and negative-psi repair events of the running object"""
    import numpy as np
    real_bar, real_psi, real_lag = m._update_psiBarOmega, m._update_psiOmega, m.enforce_constraint_u

    def bar_wrapper(i, ks=None):
        ev["node"] = int(i)
        if ev.get("trace") is not None and ks is not None:
            ev["trace"].append({"node": int(i), "u": m.u.tolist(), "psi": m.psiOmega.tolist(),
                                "bar": m.psiBarOmega.tolist(), "rho": m.rho.tolist(), "w": m.w.tolist(),
                                "lam": None, "cond": 0.0, "repair0": ev["repair"]})
        psi = m.psiOmega.copy()
        ui = m.u[i].copy()
        r = real_bar(i, ks=ks)
        try:
            if ks is not None and r:
                den = np.sum(m.w[:, ks] * m.psiBarOmega[:-1, ks], axis=0)
                if (den <= 0).any():
                    ev["den0"] = ev.get("den0", 0) + 1
        except Exception:
            pass
        try:
            cols = np.arange(m.K) if ks is None else np.asarray(ks)
            pre = np.zeros_like(psi)
            pre[0] = psi[0] - ui
            for d in range(1, m.D):
                pre[d] = psi[d] - ui * pre[d - 1]
            if (pre[:, cols] < 0).any() or not r:
                ev["repair"] += 1
            if not r:
                ev["bar_fail"] = ev.get("bar_fail", 0) + 1
        except Exception:
            ev["repair"] += 1
        return r

    def psi_wrapper(i, r=None, ks=None):
        psi = m.psiOmega.copy()
        delta = m.u[i] - m.u_old[i]
        bar = m.psiBarOmega.copy()
        out = real_psi(i=i, r=r, ks=ks)
        try:
            cols = np.arange(m.K) if ks is None else np.asarray(ks)
            pre = psi.copy()
            pre[0, cols] = psi[0, cols] + delta[cols]
            for d in range(1, m.D):
                pre[d, cols] = psi[d, cols] + delta[cols] * bar[d - 1, cols]
            if (pre < 0).any():
                ev["repair"] += 1
        except Exception:
            ev["repair"] += 1
        return out

    def lag_wrapper(num, den):
        num0, den0 = np.array(num, dtype=float), np.array(np.broadcast_to(den, np.shape(num)), dtype=float)
        lam = real_lag(num, den)
        lv = float(np.asarray(lam).ravel()[0])
        ev["lams"].append(lv)
        ev.setdefault("lag", {})[ev.get("node")] = (num0, den0)
        try:
            # how much one unit in the last place of lambda / den moves the constraint sum(num / (lambda + den)):
            # when this is not small the multiplier that enforces the constraint is not representable in binary64
            d = np.broadcast_to(np.asarray(den, dtype=float), np.shape(num))
            gap = lv + d
            with np.errstate(all="ignore"):
                sens = np.abs(num / gap) * (np.spacing(abs(lv)) + np.spacing(np.abs(d))) / np.abs(gap)
            sens = float(np.nansum(sens[np.asarray(num) > 0])) if (np.asarray(num) > 0).any() else 0.0
            npos = np.asarray(num)[np.asarray(num) > 0]
            if npos.size and npos.min() < 1e-290:
                sens = float("inf")   # responsibilities underflowed to denormals: nothing to solve for
            ev["cond"][ev.get("node")] = sens if math.isfinite(sens) else float("inf")
        except Exception:
            ev["cond"][ev.get("node")] = float("inf")
        if ev.get("trace"):
            ev["trace"][-1]["lam"] = lv
            ev["trace"][-1]["cond"] = ev["cond"][ev.get("node")]
        return lam

    m._update_psiBarOmega = bar_wrapper
    m._update_psiOmega = psi_wrapper
    m.enforce_constraint_u = lag_wrapper


def wrap_prng(m, ev):
    m.prng = hgxv.RngProxy(m.prng, ev["draws"], "prng")


def columns_of(B, E):
    """sorted row indices of the stored non-zero entries of every column"""
    C = B.tocsc(copy=True)
    C.eliminate_zeros()
    return [sorted(int(i) for i in C.indices[C.indptr[j]:C.indptr[j + 1]]) for j in range(E)]


def drive(case, h):
    """mirror of HypergraphMT.fit; returns a Trace with everything observed (never raises)"""
    import numpy as np
    t = Trace()
    t.error = None
    t.reals = []
    t.static = None
    m = new_model(case)
    t.m = m
    ev = {"repair": 0, "lams": [], "draws": [], "cond": {}}
    try:
        with quiet(), limit(CALL_TIMEOUT):
            m._check_fit_params(hypergraph=h, **fit_args(case))
            instrument(m, ev)
            wrap_prng(m, ev)
            t.static = {"N": int(m.N), "K": int(m.K), "D": int(m.D), "E": int(m.E),
                        "edges": columns_of(m.binary_incidence, int(m.E)),
                        "A": [float(x) for x in m.hye_weights],
                        "sizes": [int(x) for x in m.HyeId2D],
                        "isolates": [int(i) for i in m.isolates], "non_isolates": [int(i) for i in m.non_isolates],
                        "inc": np.asarray(m.incidence.toarray(), dtype=float).tolist(),
                        "inc_dtype": str(m.incidence.dtype), "w_dtype": str(np.asarray(m.hye_weights).dtype)}
            maxL = -INF
            best = None
            for r in range(m.n_realizations):
                R = {"r": r, "seed": m.seed, "sweeps": [], "rows": [], "ill": False}
                t.reals.append(R)
                ev["draws"].clear()
                ev["cond"] = {}
                ev["lag"] = {}
                m._initialize_psiOmega()
                psimax = np.abs(m.psiOmega.copy())
                # extension round: the matrix of the spectral baseline is tapped (u0_current_real_t0 is overwritten in place)
                import hypergraphx.communities.hypergraph_mt.model as _mtmod
                _real_hysc = _mtmod.calculate_u_HySC
                ev["hysc"] = None

                def _tapped_hysc(*a, **k):
                    X = _real_hysc(*a, **k)
                    ev["hysc"] = np.array(X, dtype=float).tolist()
                    return X
                _mtmod.calculate_u_HySC = _tapped_hysc
                try:
                    m._initialize_u_w(hyperEdges=m.hyperEdges, baseline_HySC=(m.baseline_r0 if r == 0 else False))
                finally:
                    _mtmod.calculate_u_HySC = _real_hysc
                R["uk"] = [float(x) for x in ev["draws"][0][4]] if ev["draws"] else None
                # the RAW outputs of prng.random_sample, in the order the code draws them: K, (N, K), (D-1, K)
                R["raw"] = None
                dr = ev["draws"]
                if len(dr) == 3 and all(x[1] == "random_sample" for x in dr):
                    du, dw = np.asarray(dr[1][4], dtype=float), np.asarray(dr[2][4], dtype=float)
                    if du.shape == (m.N, m.K) and dw.shape == (m.D - 1, m.K):
                        base = bool(m.baseline_r0 if r == 0 else False)
                        around = ev["hysc"] if base else (None if m.u0 is None else np.asarray(m.u0, dtype=float).tolist())
                        R["raw"] = {"du": du.tolist(), "dw": dw.tolist(), "hysc": around, "noise": float(m.noise_input_par),
                                    "baseline": base, "ok": (ev["hysc"] is not None) == base,
                                    "winit": None if m.w0 is None else np.asarray(m.w0, dtype=float).tolist()}
                R["u0"] = np.array(m.u0_current_real_t0).tolist()
                R["w0"] = m.w.tolist()
                R["dummy"] = m.u0_dummy.tolist()
                ev["repair"] = 0
                m._initial_update_u_psi(r=r)
                m._update_rho()
                R["init_repair"] = ev["repair"]
                R["psimax0"] = psimax.tolist()
                psimax = np.maximum(psimax, np.abs(np.nan_to_num(m.psiOmega, nan=0.0, posinf=1e300, neginf=1e300)))
                R["init"] = snapshot(m)
                umax = np.maximum(np.abs(np.asarray(R["dummy"])).max(axis=0), np.abs(np.nan_to_num(m.u, nan=0.0, posinf=1e300)).max(axis=0))
                R["init_ll"] = float(m._LogLikelihood())
                loglik, ntol, conv, it = -INF, 0, False, 0
                while not conv and it < m.max_iter:
                    before = snapshot(m)
                    ev["repair"] = 0
                    ev["lams"] = []
                    ev["draws"].clear()
                    cond_before = dict(ev["cond"])
                    ev["cond"] = {}
                    ev["trace"] = [] if m.normalizeU else None
                    m._update_em()
                    trace, ev["trace"] = ev["trace"], None
                    sweep_cond = max(ev["cond"].values(), default=0.0)
                    ev["cond"] = {**cond_before, **ev["cond"]}
                    after = snapshot(m)
                    psimax = np.maximum(psimax, np.abs(np.nan_to_num(m.psiOmega, nan=0.0, posinf=1e300, neginf=1e300)))
                    umax = np.maximum(umax, np.abs(np.nan_to_num(m.u, nan=0.0, posinf=1e300, neginf=1e300)).max(axis=0))
                    perm = [int(x) for x in ev["draws"][0][4]] if ev["draws"] else None
                    loglik, ntol, conv = m._check_for_convergence(it, loglik, ntol, conv)
                    S = {"it": it, "before": before, "after": after, "perm": perm, "lams": list(ev["lams"]),
                         "repair": ev["repair"], "loglik": float(loglik), "conv": bool(conv),
                         "u_old_ok": bool(np.array_equal(m.u_old, m.u)), "psimax": psimax.tolist(), "cond": sweep_cond, "trace": trace,
                         "condmap": dict(ev["cond"]), "lagmap": dict(ev.get("lag", {})), "den0": ev.get("den0", 0),
                         "bar_fail": ev.get("bar_fail", 0),
                         "umax": umax.tolist()}
                    ev["den0"] = 0
                    ev["bar_fail"] = 0
                    if ill_conditioned(before) or ill_conditioned(after):
                        R["ill"] = True
                    S["ill"] = R["ill"]
                    R["sweeps"].append(S)
                    if not it % m.check_convergence_every:
                        R["rows"].append((it, float(loglik), bool(conv)))
                    it += 1
                R["final"] = (float(loglik), it, bool(conv))
                R["u"] = m.u.copy()
                R["w"] = m.w.copy()
                R["cond"] = dict(ev["cond"])
                R["lag"] = dict(ev.get("lag", {}))
                if maxL < loglik:
                    maxL = loglik
                    best = r
                m._set_seed(m.seed + m.prng.randint(1, 1e6))
                wrap_prng(m, ev)
            t.maxL = float(maxL)
            t.best = best
    except Timeout:
        t.error = "timeout"
    except Exception as ex:  # noqa: BLE001
        t.error = f"{type(ex).__name__}: {ex}"
    return t


def clamp_event(S, minv):
    """(a) of the oracle: an entry above min_value_par became exactly 0 ('low'), an entry hit max_value_par ('high'),
    or a negative-psi repair fired ('repair'); the strongest one is named"""
    for rb, ra in zip(S["before"]["u"], S["after"]["u"]):
        for x, y in zip(rb, ra):
            if x > minv and y == 0.0:
                return "low"
            if y >= 100.0:
                return "high"
    if S["repair"]:
        return "repair"
    return None


def run_fit(case, h):
    """the real entry point; returns (u, w, maxL, train_info rows, model) or ('exc', text)"""
    m = new_model(case)
    try:
        with quiet(), limit(CALL_TIMEOUT):
            u, w, L = m.fit(h, **fit_args(case))
            ti = m.train_info
            rows = [(int(a), int(b), int(c), float(d), bool(e)) for a, b, c, d, e in
                    zip(ti["realization"], ti["seed"], ti["iter"], ti["loglik"], ti["reached_convergence"])]
        return ("ok", u, w, float(L), rows, m)
    except Timeout:
        return ("exc", "timeout")
    except Exception as ex:  # noqa: BLE001
        return ("exc", f"{type(ex).__name__}: {ex}")


class LabelTap:
    """records the labels k-means returns inside HySC.apply_kmeans"""

    def __init__(self):
        import hypergraphx.communities.hy_sc.model as mod
        self.mod = mod
        self.real = mod.KMeans
        self.labels = []
        tap = self

        class KM(self.real):
            def fit_predict(self, X, *a, **k):
                y = super().fit_predict(X, *a, **k)
                tap.labels.append([int(v) for v in y])
                return y
        self.cls = KM

    def __enter__(self):
        self.mod.KMeans = self.cls
        return self

    def __exit__(self, *a):
        self.mod.KMeans = self.real


def run_hysc(case, h, tap=False):
    from hypergraphx.communities.hy_sc.model import HySC
    try:
        with quiet(), limit(CALL_TIMEOUT):
            m = HySC(seed=case["seed"])
            if tap:
                with LabelTap() as t:
                    X = m.fit(h, K=case["K"])
                return ("ok", X, m, t.labels)
            X = m.fit(h, K=case["K"])
        return ("ok", X, m, None)
    except Timeout:
        return ("exc", "timeout")
    except Exception as ex:  # noqa: BLE001
        return ("exc", f"{type(ex).__name__}: {ex}")


# ------------------------------------------------------------------------------------------
# the checks of one case

def model_sweep_lines(static, case, R):
    """one `F sweep` line per driven sweep and an `F init` line per realisation"""
    lines, meta = [], []
    cfgt = cfg_tokens(static, f2bits, case["min_value_par"], normU=case["normalizeU"])
    if R.get("uk") is not None:
        lines.append(" ".join(["F", "init"] + cfgt + ["1" if R["r"] == 0 else "0", enc_vec(R["uk"], f2bits), enc_mat(R["u0"], f2bits),
                                                      enc_mat(R["w0"], f2bits)]))
        meta.append(("init", None))
        raw = R.get("raw")
        if raw is not None and raw["ok"]:
            lines.append(" ".join(["F", "rawinit"] + cfgt + ["1" if R["r"] == 0 else "0",
                                                             "none" if raw["hysc"] is None else enc_mat(raw["hysc"], f2bits),
                                                             "none" if raw["winit"] is None else enc_mat(raw["winit"], f2bits),
                                                             f2bits(raw["noise"]), enc_vec(R["uk"], f2bits),
                                                             enc_mat(raw["du"], f2bits), enc_mat(raw["dw"], f2bits)]))
            meta.append(("rawinit", None))
    for S in R["sweeps"]:
        if S["perm"] is None:
            continue
        b = S["before"]
        lines.append(" ".join(["F", "sweep"] + cfgt + [enc_mat(b["u"], f2bits), enc_mat(b["w"], f2bits),
                                                       enc_mat(b["psi"], f2bits), enc_mat(b["bar"], f2bits),
                                                       enc_mat(b["rho"], f2bits), enc_vec(S["lams"], f2bits),
                                                       hgxv.enc_list(S["perm"])]))
        meta.append(("sweep", S))
    return lines, meta


def split_rawinit(a):
    """answer of `F rawinit`: the 8 state fields, then u0 and w0"""
    f = a.split(" ")
    if len(f) != 10:
        return a, None
    return " ".join(f[:8]), (dec_mat(f[8], bits2f), dec_mat(f[9], bits2f))


def rawinit_diff(ctx, case, R, ms, extra):
    """extension round: u0, w0 and the initial state computed by the model from the RAW draws vs the implementation;
    returns (difference text or None, excused)"""
    excused = bool(R["init_repair"] or R["ill"])
    d = None
    if extra is None:
        return "initialisation from raw draws: the model gives no u0, w0", False
    if R["raw"]["winit"] is None:
        # a selection of draws: exact
        if extra[1] != R["w0"]:
            return f"w0 from raw draws: implementation {R['w0']!r}, model {extra[1]!r}", False
    else:
        dd = mat_diff(R["w0"], extra[1], rtol=1e-12)
        if dd is not None:
            return f"w0 around initialize_w0 differs at {dd[:2]}: implementation {dd[2]!r}, model {dd[3]!r}", False
    # u0_current_real_t0 is an internal intermediate (normalised once more by _initial_update_u_psi): what is compared is the
    # first real u, a function of the draws alone - never excused by a psi repair
    dd = mat_diff(R["init"]["u"], ms["u"], rtol=1e-9)
    if dd is not None and not R["ill"]:
        return f"first u from raw draws differs at {dd[:2]}: implementation {dd[2]!r}, model {dd[3]!r}", False
    d = compare_state(ctx, case, "initialisation from raw draws", ms, R["init"], skip_bar=True, psimax=R["psimax0"])
    ctx.count("initialisations_from_raw_draws_compared")
    return d, excused


def parse_state(ans, dec):
    f = ans.split(" ")
    if len(f) != 8:
        return None
    return {"u": dec_mat(f[0], dec), "w": dec_mat(f[1], dec), "psi": dec_mat(f[2], dec), "bar": dec_mat(f[3], dec),
            "rho": dec_mat(f[4], dec), "lam": dec_vec(f[5], dec), "penI": dec(f[6]), "penD": dec(f[7])}


def ll_from_model(static, st):
    return math.fsum([a * math.log(l + 1e-300) if l + 1e-300 > 0 else float("nan")
                      for a, l in zip(static["A"], st["lam"])] + [-st["penI"]])


def compare_state(ctx, case, what, model, impl, skip_bar=False, psimax=None, rtol=1e-9):
    """model vs implementation arrays after a step; returns the first difference text or None.
    psi/psiBar rows are maintained by subtraction: their error is relative to the largest value the row of psi ever had"""
    rs = None if psimax is None else [max(r) if r else 0.0 for r in psimax]
    for name, per_row in (("u", False), ("w", False), ("psi", True), ("rho", False)) + (() if skip_bar else (("bar", True),)):
        d = mat_diff(impl[name], model[name], rtol=rtol, per_row=per_row, row_scale=rs if per_row else None)
        if d is not None:
            return f"{what}: {name} differs at {d[:2]}: implementation {d[2]!r}, model {d[3]!r}"
    return None


def _ford(x):
    b = struct.unpack("<q", struct.pack("<d", x))[0]
    return b if b >= 0 else -(b & 0x7FFFFFFFFFFFFFFF)


def _funord(n):
    return struct.unpack("<d", struct.pack("<q", n if n >= 0 else (-n) | -0x8000000000000000))[0]


def lagrange_step(num, den):
    """how much the constraint sum(num / (lam + den)) = 1 moves over ONE binary64 step of lam at its root on the branch
    lam + den > 0 (found exactly, by bisection on the binary64 grid): the part of |row sum - 1| that no multiplier can
    remove.  inf when the grid point next to the pole is already beyond the root"""
    import numpy as np
    num, den = np.asarray(num, dtype=float), np.broadcast_to(np.asarray(den, dtype=float), np.shape(num))
    pos = num > 0
    if not pos.any():
        return 0.0
    n, d = num[pos], den[pos]
    if not (np.isfinite(n).all() and np.isfinite(d).all()):
        return float("inf")

    def f(x):
        with np.errstate(all="ignore"):
            g = x + d
            if (g <= 0).any():
                return float("inf")
            v = float(np.sum(n / g)) - 1.0
        return v if v == v else float("inf")
    lo = float(-d.min())
    hi = lo + 2.0 * float(n.sum()) + abs(lo) * 1e-3 + 1e-300
    if not (f(hi) < 0):
        return float("inf")
    a, b = _ford(lo), _ford(hi)
    while b - a > 1:
        c = (a + b) // 2
        if f(_funord(c)) > 0:
            a = c
        else:
            b = c
    fa, fb = f(_funord(a)), f(_funord(b))
    return fa - fb if math.isfinite(fa) else float("inf")


def validity(ctx, U, W, L, iso, normU, K, minv, cond, lag=None):
    """the property's words on one (u, w, log-likelihood) triple; returns a text or None"""
    import numpy as np
    N = U.shape[0]
    if not np.isfinite(U).all() or not np.isfinite(W).all() or not math.isfinite(L):
        return "non-finite entries in (u, w, maxL)"
    if (U < 0).any() or (W < 0).any():
        return "negative entries in u or w"
    if any(U[i].any() for i in iso):
        return "non-zero row for an isolated node"
    if normU:
        sums = U.sum(axis=1)
        nz = [i for i in range(N) if U[i].any()]
        # entries below min_value_par are zeroed after the normalisation: K * min_value_par slack; a multiplier that
        # binary64 cannot represent (sensitivity of the constraint to one ulp) is the ill-conditioned class
        def sens(i):
            # first-order estimate taken at the returned multiplier, and the exact step of the constraint at its root
            c = cond.get(i, 0.0)
            if lag and i in lag and abs(sums[i] - 1) > 1e-6 + K * minv + 16 * c:
                c = max(c, lagrange_step(*lag[i]))
            return c
        off = [i for i in nz if abs(sums[i] - 1) > 1e-6 + K * minv and abs(sums[i] - 1) > 1e-6 + K * minv + 16 * sens(i)]
        if any(abs(sums[i] - 1) > 1e-6 + K * minv for i in nz) and not off and ctx is not None:
            ctx.count("rowsum_off_with_unrepresentable_multiplier")
        if off:
            return f"normalizeU=True but non-zero rows {off} sum to {[float(sums[i]) for i in off]}"
    return None


def inputs_def(case, h, st):
    """the hyperedge weights per incidence column and the weighted incidence matrix, from the case (definition side);
    returns (A, problem)"""
    try:
        mapping = h.get_mapping()
        nodes = sorted(set(x for e in case["edges"] for x in e) | set(case.get("isolated", [])), key=repr)
        idx = {x: int(mapping.transform([x])[0]) for x in nodes}
    except Exception as ex:  # noqa: BLE001
        return None, f"get_mapping fails: {type(ex).__name__}: {ex}"
    ws = case.get("weights") or [1] * len(case["edges"])
    want = {tuple(sorted(idx[x] for x in e)): float(w_) for e, w_ in zip(case["edges"], ws)}
    if sorted(want) != sorted(tuple(c) for c in st["edges"]):
        return None, f"columns of the incidence matrix {sorted(st['edges'])} are not the hyperedges {sorted(want)}"
    A = [want[tuple(c)] for c in st["edges"]]
    if [float(x) for x in st["A"]] != A:
        return A, f"hye_weights {st['A']} (dtype {st['w_dtype']}) are not the weights of the hyperedges {A}"
    if st["N"] * len(st["edges"]) > 20000:
        import numpy as np
        wantM = np.zeros((st["N"], len(st["edges"])))
        for j, c in enumerate(st["edges"]):
            wantM[c, j] = A[j]
        if np.array_equal(wantM, np.asarray(st["inc"], dtype=float)):
            return A, None
    for j, c in enumerate(st["edges"]):
        for i in range(st["N"]):
            w_ = A[j] if i in c else 0.0
            if st["inc"][i][j] != w_:
                return A, (f"weighted incidence matrix (dtype {st['inc_dtype']}) has {st['inc'][i][j]!r} at node {i}, "
                           f"hyperedge {j}; the hypergraph says {w_!r}")
    return A, None


def same_fit(a, b):
    import numpy as np
    if a[0] != b[0]:
        return False
    if a[0] == "exc":
        return True
    return bool(np.array_equal(np.asarray(a[1]), np.asarray(b[1])) and np.array_equal(np.asarray(a[2]), np.asarray(b[2]))
                and a[3] == b[3] and a[4] == b[4])


def check_history(ctx, case, h, r1, hysc=True):
    """the same object after other fits and after an in-place change: results depend on the current content and the seed only"""
    import numpy as np
    other = {**case, "seed": case["seed"] + 1, "n_realizations": 1, "max_iter": min(case["max_iter"], 3)}
    ro = run_fit(other, h)
    try:
        with quiet():
            h0 = build(case)
    except Exception:  # noqa: BLE001
        return
    ro0 = run_fit(other, h0)       # the other seed on an object that was never fitted
    if hysc:
        run_hysc(other, h)
    r3 = run_fit(case, h)
    ctx.count("history_refits")
    if not same_fit(ro, ro0):
        ctx.violation(other, "HypergraphMT.fit on a hypergraph that was fitted before with another seed differs from the same "
                             "call on a freshly built equal hypergraph")
    if not same_fit(r1, r3):
        ctx.violation(case, "HypergraphMT.fit with the same seed on the same hypergraph differs after a fit with another seed in between")
    mu = case.get("mutate")
    if not mu:
        return
    desc = f"{mu.get('kind', 'add')} {mu.get('edge', '')} {mu.get('add', '')} {mu.get('weight', '')}"
    try:
        with quiet():
            mutate(case, h)
            h2 = build(case, mutated=True)
    except Exception as ex:  # noqa: BLE001
        ctx.violation(case, f"cannot change the hypergraph in place ({desc}): {type(ex).__name__}: {ex}")
        return
    short = {**case, "n_realizations": 1, "max_iter": min(case["max_iter"], 5)}    # a stale cache shows in the first sweeps
    ra, rb = run_fit(short, h), run_fit(short, h2)
    ctx.count("history_mutations")
    ctx.count("history_mutations_" + mu.get("kind", "add"))
    if not same_fit(ra, rb):
        what = "raises / returns" if ra[0] != rb[0] else "returns different (u, w, maxL, train_info)"
        ctx.violation(case, f"after the in-place change ({desc}) of a hypergraph that was fitted before, "
                            f"HypergraphMT.fit {what} compared with a freshly built equal hypergraph")
    edges2, _ = mutated_content(case)
    if hysc and len(set(x for e in edges2 for x in e)) >= case["K"]:
        ha, hb = run_hysc(case, h), run_hysc(case, h2)
        if ha[0] != hb[0] or (ha[0] == "ok" and not np.array_equal(np.asarray(ha[1]), np.asarray(hb[1]))):
            ctx.violation(case, f"after the in-place change ({desc}) HySC.fit differs from a freshly built equal hypergraph")


def large_state_oracles(static, S):
    """large cases (the Lean model is not run on them): the two internal tables the theorems speak about, from their definitions,
    on the implementation's state after a sweep.  rho (C17_free_energy: the posterior at the (u, w) the sweep ends with, rows
    normalised when their sum is positive) and psiOmega (C17_psi: psiOmega[d][k] = e_{d+1}(u[:, k]))."""
    import numpy as np
    ua = np.asarray(S["after"]["u"], dtype=float)
    wa = np.asarray(S["after"]["w"], dtype=float)
    rho = np.asarray(S["after"]["rho"], dtype=float)
    psi = S["after"]["psi"]
    N, K, D = static["N"], static["K"], static["D"]
    if rho.shape != (len(static["edges"]), K):
        return f"rho has shape {rho.shape}, expected {(len(static['edges']), K)}"
    with np.errstate(all="ignore"):
        logu = np.log(ua + EPS)
        for j, e in enumerate(static["edges"]):
            r = wa[len(e) - 2] * np.exp(logu[e].sum(axis=0))
            tot = float(r.sum())
            if not math.isfinite(tot) or 0 < tot < 1e-290:
                continue            # the normalisation itself is out of binary64's range
            if tot > 0:
                r = r / tot
            if not np.all(np.abs(r - rho[j]) <= 1e-9):
                k = int(np.argmax(np.abs(r - rho[j])))
                return (f"rho of hyperedge {j} (nodes {e[:6]}{'...' if len(e) > 6 else ''}) after sweep {S['it']}: entry {k} is "
                        f"{float(rho[j][k])!r}, the posterior w[|e|-2,k] prod u / sum_k at the state it was computed from gives {float(r[k])!r}")
    pm = [list(r) for r in S["psimax"]]
    um = S.get("umax") or [1.0] * K
    for d in range(1, len(pm)):
        for k in range(K):
            pm[d][k] = max(pm[d][k], pm[d - 1][k] * min(um[k], 1e2))
    for k in range(K):
        ea = esymm_all([float(x) for x in ua[:, k]], D)
        for d in range(D):
            tol = 1e-9 * abs(ea[d + 1]) + 16 * D * N * (S["it"] + 2) * 2.3e-16 * pm[d][k]
            if not (abs(psi[d][k] - ea[d + 1]) <= tol):
                return (f"psiOmega[{d}][{k}] after sweep {S['it']} is {psi[d][k]!r}, the elementary symmetric polynomial of degree {d + 1} "
                        f"of column {k} of u is {ea[d + 1]!r} (tolerance {tol:.3g})")
    return None


def trimmed(case, R, it):
    """the configuration whose fit returns the state after sweep `it` of realisation R"""
    c = {k: v for k, v in case.items() if k not in ("mutate",)}
    c.update({"seed": int(R["seed"]), "n_realizations": 1, "max_iter": it + 1,
              "baseline_r0": bool(case["baseline_r0"]) if R["r"] == 0 else False})
    return c


def confirm_state(ctx, case, h, R, S, iso, K, minv, bad):
    """an invalid state after a sweep: run fit itself on the configuration that returns this state"""
    import numpy as np
    c = trimmed(case, R, S["it"])
    r = run_fit(c, h)
    if r[0] == "exc":
        ctx.violation(c, f"HypergraphMT.fit does not return: {r[1]} (state after sweep {S['it']} of realisation {R['r']}: {bad})")
        return True
    U, W = np.asarray(r[1], dtype=float), np.asarray(r[2], dtype=float)
    b2 = validity(None, U, W, r[3], iso, case["normalizeU"], K, minv, S["condmap"], S["lagmap"]) if U.ndim == 2 and W.ndim == 2 else "shape"
    if b2:
        ctx.violation(c, b2)
        return True
    ctx.count("invalid_intermediate_state_not_confirmed_by_fit")
    return False


def check_case(ctx, drv, case, full=True, light=False, once=False):
    """all oracles and the correspondence for one configuration; returns a dict of facts (for witnesses)"""
    import numpy as np
    facts = {"decrease_clamp": None, "decrease_ill": None, "mismatch_ill": None, "decrease_repair": None}
    # HySC (k-means) needs at least K covered nodes; HypergraphMT with a random start does not
    full = full and case["K"] <= len(set(x for e in case["edges"] for x in e))
    try:
        with quiet():
            h = build(case)
    except Exception as ex:  # noqa: BLE001
        ctx.violation(case, f"cannot build the hypergraph: {type(ex).__name__}: {ex}")
        return facts
    minv = case["min_value_par"]
    t = drive(case, h)
    st = t.static
    any_ill = any(R["ill"] for R in t.reals)
    key = repr((sorted(map(repr, case["edges"])), case.get("weights"), sorted(map(repr, case.get("isolated", []))),
                {k: case[k] for k in ("K", "seed", "n_realizations", "max_iter", "min_value_par", "normalizeU", "baseline_r0")},
                case.get("detour"), case.get("mutate")))

    # ---- the real entry point, twice ------------------------------------------------------
    if light:
        # cheap mode of the degenerate class: only the step-by-step replica of fit (same calls in the same order); the
        # entry point itself runs in every `full_every`-th configuration and whenever a state has to be confirmed
        if t.error or t.best is None:
            r1 = ("exc", "step-by-step run: " + (t.error or "no realisation above -1e10"))
        else:
            r1 = ("ok", t.reals[t.best]["u"], t.reals[t.best]["w"], t.maxL,
                  [(R["r"], int(R["seed"]), it, ll, cv) for R in t.reals for (it, ll, cv) in R["rows"]], t.m)
            if len(t.reals) != case["n_realizations"]:
                r1 = ("exc", "step-by-step run stopped")
        r2 = r1
    else:
        r1 = run_fit(case, h)
        # once (large cases of the quick tier): the step-by-step replica below is the second run with the same seed
        r2 = r1 if once else run_fit(case, h)
    nontrivial = False
    if r1[0] == "exc" or t.error:
        # the call must succeed; the only tolerated failure is the ill-conditioned class D35
        if any_ill and minv == 0:
            facts["decrease_ill"] = f"fit raised in an ill-conditioned state: {r1[1] if r1[0] == 'exc' else t.error}"
            ctx.count("ill_conditioned_failures")
        else:
            ctx.violation(case, f"HypergraphMT.fit does not return: {r1[1] if r1[0] == 'exc' else 'step-by-step run: ' + t.error}")
        ctx.case(key, False, sample=case)
        return facts
    _, u, w, maxL, rows, m = r1
    N, K, D = st["N"], st["K"], st["D"]
    iso = set(st["isolates"])
    # isolated nodes from the definition
    nodes_in_edges = set(x for e in case["edges"] for x in e)
    if len(iso) != len([x for x in case.get("isolated", []) if x not in nodes_in_edges]) or \
            sorted(iso | set(st["non_isolates"])) != list(range(N)):
        ctx.violation(case, f"isolates {sorted(iso)} do not match the nodes without hyperedge")
    try:
        mapping = h.get_mapping()
        iso_def = set(int(mapping.transform([x])[0]) for x in case.get("isolated", []) if x not in nodes_in_edges)
        if iso_def != iso:
            ctx.violation(case, f"isolates {sorted(iso)} != indices of the nodes without hyperedge {sorted(iso_def)}")
    except Exception:
        pass
    U, W = np.asarray(u, dtype=float), np.asarray(w, dtype=float)
    ok_shape = U.shape == (N, K) and W.shape == (D - 1, K)
    Ddef = max(len(e) for e in case["edges"])
    Ndef = len(nodes_in_edges | set(case.get("isolated", [])))
    if (N, D) != (Ndef, Ddef):
        ctx.violation(case, f"N, D = {(N, D)} but the hypergraph has {Ndef} nodes and maximum size {Ddef}")
    tolerated = any_ill and minv == 0
    if not ok_shape:
        ctx.violation(case, f"shapes u {U.shape}, w {W.shape}; expected {(N, K)}, {(D - 1, K)}")
    else:
        cond = t.reals[t.best]["cond"] if t.best is not None else {}
        bad = validity(ctx, U, W, maxL, iso, case["normalizeU"], K, minv, cond, t.reals[t.best].get("lag") if t.best is not None else None)
        if bad:
            if tolerated:
                facts["decrease_ill"] = bad
            else:
                ctx.violation(case, bad)
    # the arrays the EM works on are the hypergraph's (weights not truncated / permuted, also after a detour)
    A_def, problem = inputs_def(case, h, st)
    if problem:
        ctx.disagree(case, "inputs of the EM: " + problem)
    if A_def is not None:
        st = {**st, "A": A_def}
    # maxL = max over realisations of the last recorded value
    last = {}
    for (r, sd, it, ll, cv) in rows:
        last[r] = ll
    if sorted(last) != list(range(case["n_realizations"])):
        ctx.violation(case, f"train_info lists realisations {sorted(last)}, expected 0..{case['n_realizations'] - 1}")
    elif maxL != max(last.values()):
        ctx.violation(case, f"returned maxL {maxL!r} != max of the last recorded log-likelihoods {last}")
    # twice-run equality
    if r2[0] == "exc":
        ctx.violation(case, f"second run with the same seed fails: {r2[1]}")
    else:
        if not (np.array_equal(U, np.asarray(r2[1])) and np.array_equal(W, np.asarray(r2[2])) and maxL == r2[3] and rows == r2[4]):
            ctx.violation(case, "two runs of HypergraphMT.fit with the same seed differ")
    # the step-by-step run is the same computation
    drows = [(R["r"], int(R["seed"]), it, ll, cv) for R in t.reals for (it, ll, cv) in R["rows"]]
    if drows != rows or t.maxL != maxL:
        ctx.disagree(case, "fit and its step-by-step replica (same calls, driven from the harness) record different "
                           f"train_info: {rows[:3]}... vs {drows[:3]}...")
    elif t.best is not None and ok_shape:
        B = t.reals[t.best]
        if not (np.array_equal(B["u"], U) and np.array_equal(B["w"], W)):
            ctx.violation(case, f"returned (u, w) are not the parameters of the realisation {t.best} that attains maxL")

    # ---- ascent and agreement oracles on every sweep ----------------------------------------
    n_sweeps = 0
    increased = False
    confirmed = False
    repaired, large_state_reported = {}, False
    for R in t.reals:
        prev = None
        for S in R["sweeps"]:
            n_sweeps += 1
            L = S["loglik"]
            evn = clamp_event(S, minv)
            if evn:
                ctx.count("sweeps_with_" + evn)
            if S["ill"]:
                ctx.count("sweeps_ill_conditioned")
            if not S["u_old_ok"]:
                ctx.violation({**case, "realization": R["r"], "iter": S["it"]}, "u_old != u after a sweep")
            if S.get("den0"):
                ctx.count("sweeps_with_vanishing_u_denominator")
            if S.get("bar_fail"):
                ctx.count("sweeps_with_psiBar_failure_flag")
            # the state after this sweep is what fit returns for max_iter = it + 1 (one realisation, this seed):
            # valid output is demanded of every such state, not only of the last one of the best realisation
            if ok_shape and not confirmed and not (S is R["sweeps"][-1] and R["r"] == t.best):
                Us, Ws = np.asarray(S["after"]["u"], dtype=float), np.asarray(S["after"]["w"], dtype=float)
                b = validity(None, Us, Ws, L, iso, case["normalizeU"], K, minv, S["condmap"], S["lagmap"]) if Us.shape == (N, K) else None
                ctx.count("intermediate_states_checked")
                if b:
                    if S["ill"] and minv == 0:
                        ctx.count("invalid_intermediate_state_ill_conditioned")
                    else:
                        confirmed = confirm_state(ctx, case, h, R, S, iso, K, minv, b)
            if prev is not None and L > prev:
                increased = True
            if not case["normalizeU"] and prev is not None and L < prev - 1e-9 * max(1.0, abs(prev)):
                info = {"realization": R["r"], "iter": S["it"], "from": prev, "to": L}
                if evn in ("low", "high"):
                    facts["decrease_clamp"] = {**info, "event": evn}
                    ctx.count("decrease_with_clamp_event")
                elif S["ill"]:
                    facts["decrease_ill"] = info
                    ctx.count("decrease_ill_conditioned")
                elif evn == "repair":
                    facts["decrease_repair"] = {**info, "event": evn}
                    ctx.count("decrease_with_repair_event")
                else:
                    ctx.violation({**case, **info},
                                  f"log-likelihood decreases {prev!r} -> {L!r} (realisation {R['r']}, iteration {S['it']}) "
                                  "with unconstrained memberships, no clamp/repair event, state not ill-conditioned")
            prev = L
            if case.get("large") and st is not None and ok_shape:
                repaired[R["r"]] = repaired.get(R["r"], False) or bool(S["repair"]) or bool(R.get("init_repair"))
                if S["ill"] or repaired[R["r"]] or not all(math.isfinite(x) for r in S["after"]["u"] + S["after"]["w"] for x in r):
                    ctx.count("large_state_oracles_skipped_ill_conditioned_or_repair")
                else:
                    bad_state = large_state_oracles(st, S)
                    ctx.count("large_states_checked_rho_psi")
                    if bad_state and not large_state_reported:
                        large_state_reported = True
                        ctx.disagree({**case, "realization": R["r"], "iter": S["it"]}, bad_state)
            if minv == 0 and st is not None:
                Ld = loglik_def(st, S["after"]["u"], S["after"]["w"])
                tol = agree_tol(st, S, L)
                last_tol = tol
                if not (abs(Ld - L) <= tol):
                    if S["ill"]:
                        facts["mismatch_ill"] = {"realization": R["r"], "iter": S["it"], "incremental": L, "definition": Ld}
                        ctx.count("mismatch_ill_conditioned")
                    else:
                        ctx.violation({**case, "realization": R["r"], "iter": S["it"]},
                                      f"threshold 0: recorded log-likelihood {L!r} but the definition gives {Ld!r} at the same (u, w) "
                                      f"(tolerance {tol:.3g})")
    if minv == 0 and ok_shape and not tolerated and t.best is not None and t.reals[t.best]["sweeps"]:
        Ld = loglik_def(st, U.tolist(), W.tolist())
        if not (abs(Ld - maxL) <= agree_tol(st, t.reals[t.best]["sweeps"][-1], maxL)):
            ctx.violation(case, f"threshold 0: returned maxL {maxL!r}, definition at the returned (u, w) gives {Ld!r}")
    if ok_shape:
        nzrows = [tuple(U[i]) for i in range(N) if U[i].any()]
        nontrivial = n_sweeps >= 2 and increased and len(set(nzrows)) >= 2
    ctx.count("sweeps", n_sweeps)
    ctx.count("cfg_normU" if case["normalizeU"] else "cfg_free")
    ctx.count("cfg_thr0" if minv == 0 else "cfg_thr1e-5")
    ctx.case(key, nontrivial, sample=None if case.get("large") else case)

    # ---- HySC --------------------------------------------------------------------------------
    if full:
        check_hysc(ctx, drv, case, h, st)
    if case.get("small"):
        ctx.count("degenerate_cases")

    # ---- model correspondence ----------------------------------------------------------------
    if drv is not None and st is not None:
        for R in t.reals:
            lines, meta = model_sweep_lines(st, case, R)
            ans = drv.batch(lines)
            for ln, a, (kind, S) in zip(lines, ans, meta):
                extra = None
                if kind == "rawinit":
                    a, extra = split_rawinit(a)
                ms = parse_state(a, bits2f)
                where = {**case, "realization": R["r"], "iter": None if S is None else S["it"]}
                if ms is None:
                    ctx.disagree({**where, "line": ln[:200]}, f"model answers {a[:80]!r}")
                    continue
                if kind == "rawinit":
                    d, excused = rawinit_diff(ctx, case, R, ms, extra)
                elif kind == "init":
                    excused = bool(R["init_repair"] or R["ill"])
                    d = compare_state(ctx, case, "initialisation", ms, R["init"], skip_bar=True, psimax=R["psimax0"])
                    if d is None and not close(ll_from_model(st, ms), R["init_ll"], 1.0):
                        d = f"initial log-likelihood: implementation {R['init_ll']!r}, model {ll_from_model(st, ms)!r}"
                else:
                    excused = bool(S["repair"] or S["ill"])
                    # normalizeU: u = num / (lambda + den) amplifies rounding differences of den by the measured
                    # sensitivity of the constraint; beyond 1e-4 the step is not comparable at all
                    if S["trace"] is not None:
                        # normalizeU=True: the multiplier is an input of the model, and u = num / (lambda + den)
                        # amplifies rounding differences from node to node; compare _update_w here and then every
                        # node update on its own, from the implementation's state before it
                        d = mat_diff(S["after"]["w"], ms["w"])
                        d = None if d is None else f"sweep {S['it']}: w differs at {d[:2]}: implementation {d[2]!r}, model {d[3]!r}"
                        if d is None:
                            d = compare_nodes(ctx, drv, st, case, S)
                        ctx.count("model_steps_compared")
                        if d is not None and excused:
                            ctx.count("model_steps_differing_with_repair_or_ill_conditioned")
                            d = None
                        if d is not None:
                            ctx.disagree(where, d)
                            break
                        continue
                    rtol = 1e-9
                    d = compare_state(ctx, case, f"sweep {S['it']}", ms, S["after"], psimax=S["psimax"], rtol=rtol)
                    if d is not None and not excused:
                        # is the step itself ill-conditioned?  re-run the model with psi moved by 4 ulps of the largest
                        # value each entry ever held and widen the tolerance by 64 times the observed change
                        sens = model_sensitivity(drv, ln, S, ms)
                        if sens is not None and sens > 0:
                            rtol = 1e-9 + 64 * sens
                            if rtol < 1e-4:
                                d = compare_state(ctx, case, f"sweep {S['it']}", ms, S["after"], psimax=S["psimax"], rtol=rtol)
                                ctx.count("model_steps_tolerance_widened_by_measured_conditioning")
                            else:
                                ctx.count("model_steps_skipped_ill_conditioned_step")
                                d = None
                                continue
                    if d is None and not (abs(ll_from_model(st, ms) - S["loglik"]) <= agree_tol(st, S, S["loglik"]) + rtol * max(1.0, abs(S["loglik"]))):
                        d = f"log-likelihood after sweep {S['it']}: implementation {S['loglik']!r}, model {ll_from_model(st, ms)!r}"
                    if d is not None and near_threshold(S, ms, minv):
                        ctx.count("model_steps_skipped_near_threshold")
                        d = None
                ctx.count("model_steps_compared")
                if d is not None and excused:
                    # the negative-psi repairs are not part of the model; binary64 cannot follow an ill-conditioned state
                    ctx.count("model_steps_differing_with_repair_or_ill_conditioned")
                    if __import__("os").environ.get("C17_DEBUG"):
                        print("EXCUSED", d)
                    d = None
                if d is not None:
                    ctx.disagree(where, d)
                    break
            # bookkeeping of the realisation: convergence logic on the recorded values
            Ls = [S["loglik"] for S in R["sweeps"]]
            if Ls and all(math.isfinite(x) for x in Ls):
                a = drv.ask(" ".join(["R", "conv", q(m.tolerance), str(m.threshold_for_convergence),
                                      str(m.check_convergence_every), str(case["max_iter"]), q(-INF), enc_vec(Ls, q)]))
                want_rows = ";".join(f"{it}:{q(ll)}:{int(cv)}" for (it, ll, cv) in R["rows"]) or "-"
                want = f"{q(R['final'][0])} {R['final'][1]} {int(R['final'][2])} {want_rows}"
                if a != want:
                    ctx.disagree({**case, "realization": R["r"]}, f"convergence bookkeeping: model {a[:120]!r}, implementation {want[:120]!r}")
        finals = [R["final"][0] for R in t.reals]
        if finals and all(math.isfinite(x) for x in finals) and len(finals) == case["n_realizations"]:
            a = drv.ask(" ".join(["R", "best", q(-INF), enc_vec(finals, q)]))
            want = f"{q(t.maxL)} {-1 if t.best is None else t.best}"
            if a != want:
                ctx.disagree(case, f"best-realisation bookkeeping: model {a!r}, implementation {want!r}")
    if case.get("mutate") and not light:
        check_history(ctx, case, h, r1, hysc=full)
    return facts


def model_sensitivity(drv, line, S, ms, psi_idx=14):
    """largest relative change of the model's (u, w) when the psi it starts from is moved by 2^-50 of the largest value
    each entry ever held (the error level of a table maintained by subtraction)"""
    f = line.split(" ")
    # layout: F sweep <10 cfg tokens> u w psi bar rho lams perm
    psi = dec_mat(f[psi_idx], bits2f)
    pm = S["psimax"]
    pert = [[x + 2.0 ** -50 * pm[d][k] for k, x in enumerate(r)] for d, r in enumerate(psi)]
    f[psi_idx] = enc_mat(pert, f2bits)
    ms2 = parse_state(drv.ask(" ".join(f)), bits2f)
    if ms2 is None:
        return None
    worst = 0.0
    for name in ("u", "w"):
        scale = max([abs(x) for r in ms[name] for x in r if math.isfinite(x)] or [0.0])
        for r1, r2 in zip(ms[name], ms2[name]):
            for x, y in zip(r1, r2):
                if math.isfinite(x) and math.isfinite(y) and x != y:
                    worst = max(worst, abs(x - y) / max(abs(x), abs(y), scale * 1e-3, 1e-300))
    return worst


def compare_nodes(ctx, drv, st, case, S):
    """normalizeU=True: one `F node` line per node update of the sweep, each started from the implementation's state"""
    tr = S["trace"]
    if not tr:
        return None
    cfgt = cfg_tokens(st, f2bits, case["min_value_par"], normU=True)
    lines = []
    for T in tr:
        lines.append(" ".join(["F", "node"] + cfgt + [enc_mat(T["u"], f2bits), enc_mat(T["w"], f2bits), enc_mat(T["psi"], f2bits),
                                                      enc_mat(T["bar"], f2bits), enc_mat(T["rho"], f2bits),
                                                      enc_vec([] if T["lam"] is None else [T["lam"]], f2bits), str(T["node"])]))
    last = tr[-1]
    lines.append(" ".join(["F", "rho"] + cfgt + [enc_mat(S["after"]["u"], f2bits), enc_mat(S["after"]["w"], f2bits)]))
    ans = drv.batch(lines)
    for j, T in enumerate(tr):
        ms = parse_state(ans[j], bits2f)
        nxt = tr[j + 1] if j + 1 < len(tr) else S["after"]
        if ms is None:
            return f"sweep {S['it']} node {T['node']}: model answers {ans[j][:60]!r}"
        rtol = 1e-9 + 64 * T["cond"]
        ctx.count("model_node_steps_compared")
        if not (rtol < 1e-4):
            ctx.count("model_node_steps_skipped_multiplier_ill_conditioned")
            continue
        rs = [max(r) if r else 0.0 for r in S["psimax"]]
        for name, per_row in (("u", False), ("psi", True), ("bar", True)):
            d = mat_diff(nxt[name], ms[name], rtol=rtol, per_row=per_row, row_scale=rs if per_row else None)
            if d is not None:
                if near_threshold({"after": {"u": nxt["u"]}}, ms, case["min_value_par"]):
                    ctx.count("model_steps_skipped_near_threshold")
                    break
                return (f"sweep {S['it']}, update of node {T['node']}: {name} differs at {d[:2]}: "
                        f"implementation {d[2]!r}, model {d[3]!r}")
    rho_m = dec_mat(ans[-1], bits2f)
    d = mat_diff(S["after"]["rho"], rho_m)
    if d is not None:
        return f"sweep {S['it']}: rho differs at {d[:2]}: implementation {d[2]!r}, model {d[3]!r}"
    return None


def near_threshold(S, ms, minv):
    """a model/implementation difference that is explained by an entry within 1e-6 relative of a clamp threshold"""
    for ra, rm in zip(S["after"]["u"], ms["u"]):
        for x, y in zip(ra, rm):
            for thr in (minv, 100.0):
                if thr > 0 and (x == 0.0) != (y == 0.0) and abs(max(x, y) - thr) <= 1e-6 * thr:
                    return True
                if thr == 100.0 and (x == 100.0) != (y == 100.0) and abs(min(x, y) - thr) <= 1e-6 * thr:
                    return True
    return False


def hysc_shape(X, N, K, non_iso):
    """the property's words on the matrix HySC.fit returns; a text or None"""
    import numpy as np
    if X.shape != (N, K):
        return f"HySC.fit returns shape {X.shape}, expected {(N, K)}"
    if not np.isin(X, [0, 1]).all():
        return "HySC.fit returns entries other than 0/1"
    bad = None
    if non_iso is not None:
        for i in range(N):
            s = int(X[i].sum())
            if i in non_iso and s != 1:
                bad = f"HySC.fit: non-isolated node index {i} has {s} ones"
            if i not in non_iso and s != 0:
                bad = f"HySC.fit: isolated node index {i} has {s} ones"
    return bad


def check_hysc(ctx, drv, case, h, st):
    import numpy as np
    a = run_hysc(case, h, tap=True)
    b = run_hysc(case, h)
    if a[0] == "exc":
        ctx.violation(case, f"HySC.fit does not return: {a[1]}")
        return
    X = np.asarray(a[1])
    mh = a[2]
    N, K = int(mh.N), case["K"]
    nodes_in_edges = set(x for e in case["edges"] for x in e)
    try:
        mapping = h.get_mapping()
        non_iso = sorted(int(mapping.transform([x])[0]) for x in nodes_in_edges)
    except Exception:
        non_iso = None
    bad = hysc_shape(X, N, K, non_iso)
    if bad:
        ctx.violation(case, bad)
    if b[0] == "exc" or not np.array_equal(X, np.asarray(b[1])):
        ctx.violation(case, "two runs of HySC.fit with the same seed differ")
    if drv is not None and not bad and a[3]:
        labels = a[3][-1]
        edges = st["edges"] if st is not None else []
        ans = drv.batch([" ".join(["R", "noniso", str(N), hgxv.enc_lists(edges)]),
                         " ".join(["R", "asm", str(N), str(K), hgxv.enc_list([int(i) for i in mh.non_isolates]),
                                   hgxv.enc_list(labels)])])
        if ans[0] != hgxv.enc_list([int(i) for i in mh.non_isolates]):
            ctx.disagree(case, f"non_isolates: model {ans[0]}, implementation {list(mh.non_isolates)}")
        want = ";".join(",".join(str(int(v)) for v in row) for row in X)
        if ans[1] != want:
            ctx.disagree(case, f"HySC assembly: model {ans[1]}, implementation {want}")
        ctx.count("hysc_assemblies_compared")
    # extension round: the Laplacian of `_extract_laplacian` (binary, and weighted_L on the same object) against the model
    # (binary64 with the same square root; the code's matrix products associate differently: 1e-12 relative to the largest entry)
    if drv is not None and st is not None and int(st["N"]) == N:
        try:
            with quiet(), limit(CALL_TIMEOUT):
                L0 = np.asarray(mh.L, dtype=float).tolist()
                mh._extract_laplacian(weighted_L=True)
                L1 = np.asarray(mh.L, dtype=float).tolist()
        except Exception as ex:  # noqa: BLE001
            ctx.violation(case, f"HySC._extract_laplacian(weighted_L=True) fails: {type(ex).__name__}: {ex}")
            return
        cfgt = cfg_tokens(st, f2bits, 0.0)
        ans = drv.batch([" ".join(["F", "lap"] + cfgt + [wl]) for wl in ("0", "1")])
        for wl, Lc, a in zip((False, True), (L0, L1), ans):
            try:
                Lm = dec_mat(a, bits2f)
            except Exception:  # noqa: BLE001
                ctx.disagree(case, f"Laplacian (weighted_L={wl}): model answers {a[:80]!r}")
                continue
            d = mat_diff(Lc, Lm, rtol=1e-12)
            if d is not None:
                ctx.disagree(case, f"HySC Laplacian (weighted_L={wl}) differs at {d[:2]}: implementation {d[2]!r}, model {d[3]!r}")
            # the algebraic facts proved in Lean, on the implementation's matrix: symmetric (exactly: the code computes
            # entry (i, j) and (j, i) with the same products in another order - compared at 1e-12), unit rows for isolated nodes
            iso = set(range(N)) - set(int(i) for i in mh.non_isolates)
            for i in iso:
                if any(Lc[i][j] != (1.0 if i == j else 0.0) or Lc[j][i] != (1.0 if i == j else 0.0) for j in range(N)):
                    ctx.disagree(case, f"HySC Laplacian (weighted_L={wl}): row/column {i} of an isolated node is not a unit vector")
                    break
        ctx.count("hysc_laplacians_compared", 2)


# ------------------------------------------------------------------------------------------
# sessions: ONE long-lived model object fitted several times ("run twice with the same seed" in every sense)
#
# a session case = {"session": "hysc" | "mt", "ctor": {...}, "graphs": {"A": g, "B": g}, "steps": [...]}; g has the
# hypergraph part of a case (edges, weights, isolated, detour).  Steps:
#   {"op": "fit", "g": name, ...arguments of fit}   a call of fit on the session's object
#   {"op": "mutate", "g": name, "mu": {...}}        in-place change of that hypergraph (the ONLY way a session changes one)
#   {"op": "scribble"}                              the harness overwrites every array a fit of this session returned
#   {"op": "reseed_global", "value": n}             numpy's global generator is re-seeded (results must not depend on it)
# Demand for every fit: it returns exactly what the same call returns on a FRESH model object and a freshly built equal
# hypergraph (same insertion history) - whatever the object was fitted on before; fresh objects agree among themselves;
# the hypergraphs of the session are left untouched by fit; results returned earlier are not overwritten by later fits.

SCRIBBLE = 7.25
G_KEYS = ("edges", "weights", "isolated", "node_order", "detour")


def hdigest(h):
    """what a user can see of a hypergraph (listings in their order, number types included) and the value of every
    attribute it has"""
    out = {}
    probes = (("get_nodes", lambda: h.get_nodes()), ("get_edges", lambda: h.get_edges()), ("get_weights", lambda: h.get_weights()),
              ("is_weighted", lambda: h.is_weighted()),
              ("incident edges", lambda: [(n, h.get_incident_edges(n)) for n in h.get_nodes()]),
              ("metadata", lambda: (h.get_all_nodes_metadata(), h.get_all_edges_metadata(), h.get_hypergraph_metadata())))
    for name, f in probes:
        try:
            out[name] = repr(f())
        except Exception as ex:  # noqa: BLE001
            out[name] = "raises " + type(ex).__name__
    try:
        for k, v in vars(h).items():
            out["attribute " + k] = repr(v)
    except Exception:  # noqa: BLE001
        pass
    return out


def hdiff(before, after):
    """what of the digest taken before is different now (attributes that did not exist before are not looked at)"""
    for k, v in before.items():
        if after.get(k) != v:
            return f"{k}: {v[:120]} -> {str(after.get(k))[:120]}"
    return None


def g_of(case):
    return {k: case[k] for k in G_KEYS if k in case}


def g_spec(graphs, name):
    """the insertion history behind a hypergraph of a session (a copy has the history of its source)"""
    g = graphs[name]
    return graphs[g["copy_of"]] if "copy_of" in g else g


def build_g(graphs, name):
    g = graphs[name]
    return build(graphs[g["copy_of"]]).copy() if "copy_of" in g else build(g)


def covered(edges):
    return set(x for e in edges for x in e)


def gen_mu(rng, edges, weights, serial, iso=()):
    """an in-place change that does not shrink the set of covered nodes: add / replace (counts stay) / reweight (counts
    stay) / readd (content stays, internal id and position change); a new hyperedge may take in a node that was isolated
    so far (the number of nodes stays, the set of isolated nodes changes)"""
    nodes = sorted(covered(edges), key=repr)
    have = set(skey(e) for e in edges)
    weighted = weights is not None
    kind = rng.choice(["add", "replace", "replace", "readd"] + (["reweight", "reweight"] if weighted else []))
    still_iso = [x for x in iso if x not in set(nodes)]
    new_e = None
    for _ in range(8):
        e = tuple(rng.sample(nodes, rng.randint(2, min(4, len(nodes)))))
        if still_iso and rng.random() < 0.3:
            e = (e + (rng.choice(still_iso),))[-min(4, len(e) + 1):]
        if skey(e) not in have:
            new_e = e
            break
    j = rng.randrange(len(edges))
    if kind == "reweight":
        return {"kind": "reweight", "edge": edges[j], "weight": rng.choice([x for x in WEIGHTS_WIDE if x != weights[j]])}
    if kind == "readd":
        return {"kind": "readd", "edge": edges[j], "weight": weights[j] if weighted else None}
    if kind == "replace" and new_e is not None and len(edges) >= 2:
        rest = covered([e for i, e in enumerate(edges) if i != j]) | set(new_e)
        if len(rest) >= len(nodes):
            return {"kind": "replace", "edge": edges[j], "add": new_e, "weight": rng.choice(WEIGHTS_WIDE) if weighted else None}
    if new_e is None:
        new_e = (nodes[0], f"zz_new{serial}" if isinstance(nodes[0], str) else 77 + serial)
    return {"kind": "add", "add": new_e, "weight": rng.choice(WEIGHTS_WIDE) if weighted else None}


def gen_session(rng, kind):
    a = gen(rng)
    gA = g_of(a)
    r = rng.random()
    if r < 0.35:
        gB = g_of(gen(rng))
    elif r < 0.55:
        gB = gen_small(rng)
    else:
        # ANOTHER object with the same nodes and the same number of hyperedges (cheap signatures of the two agree)
        mu = None
        for _ in range(6):
            mu = gen_mu(rng, gA["edges"], gA["weights"], 0, gA["isolated"])
            if mu["kind"] in ("replace", "reweight"):
                break
        e2, w2 = content_after(gA["edges"], gA["weights"], mu)
        if rng.random() < 0.5:
            z = list(zip(e2, w2 if w2 is not None else [None] * len(e2)))
            rng.shuffle(z)
            e2, w2 = [x for x, _ in z], ([y for _, y in z] if w2 is not None else None)
        gB = {"edges": e2, "weights": w2, "isolated": list(gA["isolated"]), "node_order": list(gA.get("node_order", []))}
    if rng.random() < 0.15:
        gB = {"copy_of": "A"}        # B = A.copy() taken before anything else happens; A may be changed afterwards
    graphs = {"A": gA, "B": gB}
    content = {n: (list(g_spec(graphs, n)["edges"]), g_spec(graphs, n)["weights"]) for n in graphs}
    seeds = [rng.randint(1, 10 ** 6), rng.randint(1, 10 ** 6)]
    if kind == "hysc":
        ctor = {"seed": rng.choice([0, 10] + seeds + seeds), "n_realizations": rng.choice([1, 3, 10, 10])}
    else:
        ctor = {"n_realizations": rng.choice([1, 2, 2, 3]), "max_iter": rng.choice([1, 2, 5, 8]),
                "min_value_par": rng.choice([1e-5, 1e-5, 0.0])}
    steps, fits, serial = [], [], 0
    n_fits = rng.randint(3, 6)
    while len(fits) < n_fits:
        if fits and rng.random() < 0.4:
            st = dict(rng.choice(fits))          # the same call again (the hypergraph may have been changed meanwhile)
        else:
            g = rng.choice("AAB")
            cov = len(covered(content[g][0]))
            if kind == "hysc":
                st = {"op": "fit", "g": g, "K": rng.randint(2, min(cov, 4)), "weighted_L": rng.random() < 0.3}
            else:
                base = rng.random() < 0.5
                st = {"op": "fit", "g": g, "K": rng.randint(2, min(cov, 3)) if base else rng.randint(2, min(cov + 1, 4)),
                      "seed": rng.choice([None, 0] + seeds + seeds), "normalizeU": rng.random() < 0.4, "baseline_r0": base}
        steps.append(st)
        fits.append(st)
        if rng.random() < 0.3:
            steps.append({"op": "scribble"})
        if rng.random() < 0.25:
            g = rng.choice("AAB")
            serial += 1
            mu = gen_mu(rng, content[g][0], content[g][1], serial, g_spec(graphs, g)["isolated"])
            content[g] = content_after(content[g][0], content[g][1], mu)
            steps.append({"op": "mutate", "g": g, "mu": mu})
        if rng.random() < 0.15:
            steps.append({"op": "reseed_global", "value": rng.randint(0, 2 ** 31 - 1)})
        if rng.random() < 0.15:
            # a public attribute of the model is set between two calls (the next calls run with it)
            if kind == "hysc":
                attr = rng.choice(["seed", "seed", "n_realizations"])
                val = rng.choice([0] + seeds) if attr == "seed" else rng.choice([1, 3, 10])
            else:
                attr = rng.choice(["max_iter", "n_realizations", "min_value_par"])
                val = {"max_iter": rng.choice([1, 2, 5, 8]), "n_realizations": rng.choice([1, 2, 3]),
                       "min_value_par": rng.choice([1e-5, 0.0, 1e-3])}[attr]
            steps.append({"op": "set", "attr": attr, "value": val})
    return {"session": kind, "ctor": ctor, "graphs": graphs, "steps": steps}


def sess_model(kind, ctor):
    if kind == "hysc":
        from hypergraphx.communities.hy_sc.model import HySC
        return HySC(seed=ctor["seed"], n_realizations=ctor["n_realizations"])
    return new_model(ctor)


def sess_fit(kind, m, h, st):
    """one call of fit on the object m: ('ok', arrays..., ) as run_fit / run_hysc give it, or ('exc', text)"""
    try:
        with quiet(), limit(CALL_TIMEOUT):
            if kind == "hysc":
                X = m.fit(h, K=st["K"], weighted_L=st["weighted_L"])
                return ("ok", X)
            u, w, L = m.fit(h, K=st["K"], seed=st["seed"], normalizeU=st["normalizeU"], baseline_r0=st["baseline_r0"])
            ti = m.train_info
            rows = [(int(a), int(b), int(c), float(d), bool(e)) for a, b, c, d, e in
                    zip(ti["realization"], ti["seed"], ti["iter"], ti["loglik"], ti["reached_convergence"])]
            return ("ok", u, w, float(L), rows, float(m.maxL))
    except Timeout:
        return ("exc", "timeout")
    except Exception as ex:  # noqa: BLE001
        return ("exc", f"{type(ex).__name__}: {ex}")


def sess_same(kind, a, b):
    import numpy as np
    if a[0] != b[0]:
        return False
    if a[0] == "exc":
        return a[1].split(":")[0] == b[1].split(":")[0]
    if kind == "hysc":
        return bool(np.array_equal(np.asarray(a[1]), np.asarray(b[1])))
    return same_fit(a, b) and a[5] == b[5]


def sess_diff(kind, a, b):
    """first difference between what the session's object returned (a) and the fresh reference (b), as text"""
    import numpy as np
    if a[0] == "exc" or b[0] == "exc":
        return f"{'raises ' + a[1] if a[0] == 'exc' else 'returns'} / fresh object {'raises ' + b[1] if b[0] == 'exc' else 'returns'}"
    names = ["matrix"] if kind == "hysc" else ["u", "w"]
    for nm, x, y in zip(names, a[1:], b[1:]):
        x, y = np.asarray(x), np.asarray(y)
        if x.shape != y.shape:
            return f"{nm} has shape {x.shape}, fresh object {y.shape}"
        if not np.array_equal(x, y):
            i = tuple(int(v) for v in np.argwhere(~((x == y) | ((x != x) & (y != y))))[0])
            return f"{nm}{list(i)} = {x[i].item()!r}, fresh object {y[i].item()!r} ({int((x != y).sum())} entries differ)"
    if kind == "mt":
        if a[3] != b[3]:
            return f"maxL {a[3]!r}, fresh object {b[3]!r}"
        if a[4] != b[4]:
            return f"train_info has {len(a[4])} rows {a[4][:2]}..., fresh object {len(b[4])} rows {b[4][:2]}..."
        if a[5] != b[5]:
            return f"attribute maxL {a[5]!r}, fresh object {b[5]!r}"
    return "?"


def arrays_of(kind, res):
    import numpy as np
    return [x for x in (res[1:2] if kind == "hysc" else res[1:3]) if isinstance(x, np.ndarray)]


def run_session(ctx, drv, case):
    """executes a session; every violation carries the prefix of the session that shows it (replayable)"""
    import numpy as np
    kind, ctor, steps = case["session"], case["ctor"], case["steps"]
    graphs, muts = {}, {}
    try:
        with quiet(), limit(CALL_TIMEOUT):
            for name, g in case["graphs"].items():
                # a copy is taken from the session's own object A (not from a rebuilt one), before any call
                graphs[name] = graphs[g["copy_of"]].copy() if "copy_of" in g else build(g)
                muts[name] = []
            m = sess_model(kind, ctor)
            ctor = dict(ctor)
    except Exception as ex:  # noqa: BLE001
        ctx.violation(case, f"cannot build the hypergraphs / the model of a session: {type(ex).__name__}: {ex}")
        return
    held = []        # [arrays as returned, copies taken at return, scribbled?, number of the fit]
    firstref = {}    # (graph, number of changes so far, arguments) -> reference result of the first fresh object
    seen = {}        # the same key -> number of calls made on the session's object
    results, calls_L = [], []
    n_fit, prev_key, ok, last_fit = 0, None, True, None
    key = repr(hgxv.jsonable(case))
    for j, st in enumerate(steps):
        prefix = {**case, "steps": steps[: j + 1]}
        op = st["op"]
        if op == "mutate":
            try:
                with quiet():
                    apply_mu(st["mu"], graphs[st["g"]])
                muts[st["g"]].append(st["mu"])
                ctx.count("session_inplace_changes")
            except Exception as ex:  # noqa: BLE001
                ctx.violation(prefix, f"session: cannot change hypergraph {st['g']} in place ({st['mu']}): {type(ex).__name__}: {ex}")
                ok = False
                break
            continue
        if op == "scribble":
            for hd in held:
                if not hd[2]:
                    for x in hd[0]:
                        try:
                            x[...] = SCRIBBLE if x.dtype.kind == "f" else 7
                        except Exception:  # noqa: BLE001
                            pass
                    hd[2] = True
            ctx.count("session_scribbles")
            if kind == "mt" and last_fit is not None:
                # the object's own record of the call (its training table, maxL) is not made of the arrays handed out
                try:
                    ti = m.train_info
                    rows = [(int(a), int(b), int(c), float(d), bool(e)) for a, b, c, d, e in
                            zip(ti["realization"], ti["seed"], ti["iter"], ti["loglik"], ti["reached_convergence"])]
                    now = (rows, float(m.maxL))
                except Exception as ex:  # noqa: BLE001
                    now = f"{type(ex).__name__}: {ex}"
                if now != last_fit:
                    ctx.violation(prefix, "overwriting the arrays (u, w) that HypergraphMT.fit returned changes the object's train_info / maxL: "
                                          f"{str(last_fit)[:150]} -> {str(now)[:150]}")
                    ok = False
                    break
            continue
        if op == "reseed_global":
            np.random.seed(st["value"] % (2 ** 32))
            continue
        if op == "set":
            try:
                setattr(m, st["attr"], st["value"])
                ctor[st["attr"]] = st["value"]
                ctx.count("session_attributes_set")
            except Exception:  # noqa: BLE001
                break
            continue
        # ---- a call of fit on the session's object ------------------------------------------------
        g = st["g"]
        h = graphs[g]
        n_fit += 1
        args = {k: v for k, v in st.items() if k not in ("op",)}
        k_ = (g, len(muts[g]), repr(sorted(args.items())), repr(sorted(ctor.items())))
        before = {name: hdigest(x) for name, x in graphs.items()}
        res = sess_fit(kind, m, h, st)
        after = {name: hdigest(x) for name, x in graphs.items()}
        for name in graphs:
            d = hdiff(before[name], after[name])
            if d:
                ctx.violation(prefix, f"{'HySC' if kind == 'hysc' else 'HypergraphMT'}.fit (call {n_fit} of the session, on hypergraph {g}) "
                                      f"changes {'the hypergraph it is given' if name == g else 'another hypergraph (' + name + ')'}: {d}")
                ok = False
        # reference: the same call on a fresh model object and a freshly built equal hypergraph (same history)
        try:
            with quiet(), limit(CALL_TIMEOUT):
                h0 = build_g(case["graphs"], g)
                for mu in muts[g]:
                    apply_mu(mu, h0)
                m0 = sess_model(kind, ctor)
        except Exception:  # noqa: BLE001
            break
        ref = sess_fit(kind, m0, h0, st)
        if k_ in firstref and not sess_same(kind, firstref[k_], ref):
            ctx.violation(prefix, f"two FRESH {'HySC' if kind == 'hysc' else 'HypergraphMT'} objects, same hypergraph, same arguments {args}: "
                                  f"{sess_diff(kind, ref, firstref[k_])}")
            ok = False
        firstref.setdefault(k_, ref)
        if ref[0] == "exc":
            # the call itself fails (K-means / an ill-conditioned state): the business of the other stages, not of the session
            ctx.count("session_reference_call_fails")
            break
        rep = seen.get(k_, 0) > 0
        between = rep and prev_key != k_
        what = ("the SAME call was made on this object before" if rep else
                "first call with these arguments on this hypergraph content") + \
               (", other calls in between" if between else "") + \
               (", arrays returned earlier were overwritten by the caller" if any(hd[2] for hd in held) else "") + \
               (f", hypergraph {g} was changed in place {len(muts[g])}x before" if muts[g] else "")
        name = "HySC" if kind == "hysc" else "HypergraphMT"
        if not sess_same(kind, res, ref):
            ctx.violation(prefix, f"{name}.fit, call {n_fit} on ONE {name} object ({args}; {what}), differs from the same call on a "
                                  f"fresh object: {sess_diff(kind, res, ref)}")
            ok = False
        elif kind == "hysc":
            X = np.asarray(res[1])
            try:
                mp = h.get_mapping()
                edges_now = g_spec(case["graphs"], g)["edges"]
                wts = g_spec(case["graphs"], g)["weights"]
                for mu in muts[g]:
                    edges_now, wts = content_after(edges_now, wts, mu)
                non_iso = sorted(int(mp.transform([x])[0]) for x in covered(edges_now))
                bad = hysc_shape(X, int(h.num_nodes()), st["K"], non_iso)
            except Exception:  # noqa: BLE001
                bad = None
            if bad:
                ctx.violation(prefix, bad + f" (weighted_L={st['weighted_L']}, call {n_fit} of a session)")
                ok = False
        # results handed out earlier are still what they were (unless the harness itself overwrote them)
        for hd in held:
            if not hd[2] and not all(np.array_equal(x, c) for x, c in zip(hd[0], hd[1])):
                ctx.violation(prefix, f"{name}.fit, call {n_fit} of the session, overwrites the arrays that call {hd[3]} on the same object returned")
                ok = False
                hd[2] = True
        if res[0] == "ok":
            arrs = arrays_of(kind, res)
            held.append([arrs, [x.copy() for x in arrs], False, n_fit])
            results.append(repr([np.asarray(x).tolist() for x in arrs]))
            if kind == "mt":
                last_fit = (res[4], res[5])
                last = {}
                for (r, sd, it, ll, cv) in res[4]:
                    last[r] = ll
                calls_L.append(([last[r] for r in sorted(last)], res[3]))
        ctx.count(f"session_fits_{kind}")
        if rep:
            ctx.count("session_repeated_calls" + ("_after_other_calls" if between else "_back_to_back"))
        if prev_key is not None and prev_key[0] != g:
            ctx.count("session_fits_after_a_fit_on_another_hypergraph")
        if kind == "mt":
            ctx.count(f"session_mt_fits_normU{int(st['normalizeU'])}_baseline{int(st['baseline_r0'])}")
        else:
            ctx.count(f"session_hysc_fits_weightedL{int(st['weighted_L'])}")
        seen[k_] = seen.get(k_, 0) + 1
        prev_key = k_
        if not ok:
            break
    # the object-level bookkeeping of the session against the model (C17_session_fresh): what every call returns as maxL
    if ok and kind == "mt" and drv is not None and calls_L and all(math.isfinite(x) for ls, L in calls_L for x in ls + [L]):
        a = drv.ask(" ".join(["R", "session", "fixed", q(-INF), ";".join(enc_vec(ls, q) for ls, _ in calls_L)]))
        got = [t.split(":")[0] for t in a.split(";")]
        want = [q(L) for _, L in calls_L]
        if got != want:
            ctx.disagree(case, f"session of {len(calls_L)} calls on one HypergraphMT object: model returns maxL {got}, implementation {want}")
        ctx.count("session_bookkeeping_compared")
    ctx.case("session:" + key, ok and n_fit >= 2 and len(set(results)) >= 2 and any(v >= 2 for v in seen.values()), sample=case)


def norm_session(case):
    """a session case after a JSON round trip: hyperedges are tuples again"""
    case = dict(case)

    def tg(g):
        g = dict(g)
        if "copy_of" in g:
            return g
        g["edges"] = [tuple(e) for e in g["edges"]]
        if g.get("detour"):
            g["detour"] = {**g["detour"], "edges": [tuple(e) for e in g["detour"]["edges"]]}
        return g
    case["graphs"] = {n: tg(g) for n, g in case["graphs"].items()}
    steps = []
    for st in case["steps"]:
        st = dict(st)
        if st.get("op") == "mutate":
            st["mu"] = {k: (tuple(v) if k in ("edge", "add") and v is not None else v) for k, v in st["mu"].items()}
        steps.append(st)
    case["steps"] = steps
    return case


# the committed witness of the repaired defect D52 (HypergraphMT.maxL was never reset): a fit on a hypergraph with a small
# likelihood after a fit on one with a large likelihood returned the earlier call's (u, w, maxL)
D52_SESSION = {
    "session": "mt", "ctor": {"n_realizations": 2, "max_iter": 5, "min_value_par": 1e-5},
    "graphs": {"A": {"edges": [(0, 1, 2), (1, 2), (2, 3), (0, 3, 4), (4, 5), (1, 5, 6), (0, 6)], "weights": None, "isolated": [7]},
               "B": {"edges": [("a", "b"), ("b", "c", "d")], "weights": [1.5, 2], "isolated": []}},
    "steps": [{"op": "fit", "g": "B", "K": 2, "seed": 5, "normalizeU": False, "baseline_r0": True},
              {"op": "fit", "g": "A", "K": 2, "seed": 5, "normalizeU": False, "baseline_r0": True},
              {"op": "fit", "g": "A", "K": 3, "seed": 6, "normalizeU": True, "baseline_r0": False},
              {"op": "scribble"},
              {"op": "fit", "g": "A", "K": 3, "seed": 6, "normalizeU": True, "baseline_r0": False}],
}


def replay_d52(ctx, drv):
    sub = hgxv.Ctx(ctx.prop, ctx.tier, ctx.seed)
    run_session(sub, drv, D52_SESSION)
    for c, wh in sub.violations + sub.disagreements:
        # how the defect showed on this witness: the second call returns the first call's u (of another hypergraph: another shape)
        if "fresh object: u has shape" in wh or "fresh object: maxL" in wh:
            ctx.violation(c, "REGRESSION of the repaired defect D52 (HypergraphMT.fit did not reset maxL: a model fitted before "
                             f"returned the earlier call's parameters) on its committed witness: {wh}")
        else:   # something else breaks on this input: an ordinary violation
            ctx.violation(c, f"{wh} [input: committed witness of the repaired defect D52]")
    ctx.count("regression_witnesses_replayed")
    ctx.count("regression_witnesses_D52")


def run_sessions(ctx, drv, n_hysc, n_mt):
    for j in range(n_hysc + n_mt):
        # interleaved, so that a time cap cuts both kinds alike
        kind = "mt" if (j * n_mt) // (n_hysc + n_mt) != ((j + 1) * n_mt) // (n_hysc + n_mt) else "hysc"
        run_session(ctx, drv, gen_session(ctx.rng, kind))
        ctx.count(f"sessions_{kind}")
        if ctx.too_many():
            return
        if ctx.time_left() is not None and ctx.time_left() < (22 if ctx.tier == "quick" else 300):
            ctx.count("stopped_early_sessions_done", j + 1)
            return


# ------------------------------------------------------------------------------------------
# exact (Rat) correspondence on small dyadic states set on the implementation's public attributes

def exact_state_case(ctx, drv, rng, sparse=False):
    """build a HypergraphMT object on a tiny hypergraph, overwrite u, w with dyadic values, psi with the exact
    elementary symmetric polynomials, run the real _update_rho + _update_em and the Rat model on the same state"""
    import numpy as np
    K = rng.choice([2, 2, 3, 4] if sparse else [2, 2, 3])
    n = rng.randint(3, 4) if sparse else rng.randint(3, 5)     # exact rationals grow with every node update and degree
    dmax = rng.choice([2, 3, 3, 4] if sparse else [2, 3, 3])
    edges = set()
    for _ in range(rng.randint(1, 3) if sparse else rng.randint(2, 4)):
        edges.add(tuple(sorted(rng.sample(range(n), rng.randint(2, min(dmax, n))))))
    if sparse and rng.random() < 0.5:
        edges.add(tuple(range(min(n, 4))))     # one hyperedge over (almost) everything
    edges = sorted(edges)
    weights = [rng.choice([1, 2, 3]) for _ in edges]
    case = {"edges": edges, "weights": weights, "isolated": [n] if rng.random() < 0.4 and not (sparse and dmax > 3) else [],
            "K": K, "seed": rng.randint(0, 999),
            "n_realizations": 1, "max_iter": 1, "min_value_par": rng.choice([0.0, 0.125]), "normalizeU": False,
            "baseline_r0": False, "exact": True}
    try:
        with quiet(), limit(CALL_TIMEOUT):
            h = build(case)
            m = new_model(case)
            m._check_fit_params(hypergraph=h, **fit_args(case))
            ev = {"repair": 0, "lams": [], "draws": [], "cond": {}}
            wrap_prng(m, ev)
            m._initialize_psiOmega()
            m._initialize_u_w(hyperEdges=m.hyperEdges, baseline_HySC=False)
            m._initial_update_u_psi(r=0)
            N, D = int(m.N), int(m.D)
            iso = set(int(i) for i in m.isolates)
            # dense states, and sparse ones: zero entries, columns with a single / no non-zero entry (the elementary symmetric
            # polynomials of such a column vanish from some degree on: denominators of the u and w updates become exactly 0)
            sparse_cols = [rng.random() < (0.6 if sparse else 0.0) for _ in range(K)]
            keep = [rng.sample(range(N), rng.choice([0, 1, 1, 2])) if sc else None for sc in sparse_cols]
            U = [[Fraction(0) if i in iso or (keep[k] is not None and i not in keep[k]) or (sparse and rng.random() < 0.15)
                  else Fraction(rng.choice([1, 1, 2, 3, 4, 5, 6, 8]), 8) for k in range(K)] for i in range(N)]
            sizes = set(len(e) for e in edges)
            Wm = [[Fraction(rng.randint(1, 8), 4) if (d + 2) in sizes else Fraction(0) for _ in range(K)] for d in range(D - 1)]
            from itertools import combinations
            P = [[sum((math.prod(c) for c in combinations([U[i][k] for i in range(N)], d + 1)), Fraction(0)) for k in range(K)]
                 for d in range(D)]
            m.u = np.array([[float(x) for x in r] for r in U])
            m.u_old = m.u.copy()
            m.w = np.array([[float(x) for x in r] for r in Wm]).reshape(D - 1, K)
            m.psiOmega = np.array([[float(x) for x in r] for r in P])
            m.psiBarOmega = np.zeros((D, K))
            m._update_rho()
            rho0 = m.rho.tolist()
            ev["draws"].clear()
            m._update_em()
            perm = [int(x) for x in ev["draws"][0][4]]
            after = snapshot(m)
            ll = float(m._LogLikelihood())
            static = {"N": N, "K": K, "D": D, "edges": [sorted(int(i) for i in m.binary_incidence[:, [j]].nonzero()[0]) for j in range(m.E)],
                      "A": [float(x) for x in m.hye_weights]}
    except Exception as ex:  # noqa: BLE001
        ctx.disagree(case, f"step-by-step calls on a tiny hypergraph with a synthetic exact state fail: {type(ex).__name__}: {ex}")
        return
    cfgt = cfg_tokens(static, q, case["min_value_par"], eps=0.0)
    cfgt[7] = "1/100000000000000000000"   # EPS exactly
    # the model computes rho itself from (u, w): first line checks _update_rho, second the sweep
    l1 = " ".join(["R", "rho"] + cfgt + [enc_mat(U, hgxv.enc_num), enc_mat(Wm, hgxv.enc_num)])
    a1 = drv.ask(l1)
    rho_m = dec_mat(a1, lambda s: hgxv.dec_num(s))
    d = mat_diff(rho0, [[float(x) for x in r] for r in rho_m])
    full = {**case, "u": [[str(x) for x in r] for r in U], "w": [[str(x) for x in r] for r in Wm], "perm": perm}
    if d is not None:
        ctx.disagree(full, f"_update_rho on an exact state: entry {d[:2]} implementation {d[2]!r}, model {d[3]!r}")
        return
    l2 = " ".join(["R", "sweep"] + cfgt + [enc_mat(U, hgxv.enc_num), enc_mat(Wm, hgxv.enc_num), enc_mat(P, hgxv.enc_num),
                                           enc_mat([[0] * K for _ in range(D)], hgxv.enc_num), a1, "-", hgxv.enc_list(perm)])
    ms = parse_state(drv.ask(l2), qdec)
    ctx.count("exact_states_compared")
    if ms is None:
        ctx.disagree(full, "model gives no answer on an exact state")
        return
    # exact invariants of the model's own answer (C17_psi, C17_loglik_agrees) - cheap sanity of the driver
    if ms["penI"] != ms["penD"]:
        ctx.disagree(full, f"Rat model: incremental penalty {ms['penI']} != definition {ms['penD']}")
    hi_i = [(i, k) for i, r in enumerate(after["u"]) for k, x in enumerate(r) if not (x < 100.0)]
    hi_m = [(i, k) for i, r in enumerate(ms["u"]) for k, x in enumerate(r) if not (x < 100.0)]
    if any(0 < x < 1e-12 for r in after["u"] + ms["u"] for x in r):
        # an entry of order EPS = 1e-20 (only with threshold 0): binary64 absorbs it next to an entry of order 1, the
        # next denominator is exactly 0 in the implementation and 1e-20 in exact arithmetic
        ctx.count("exact_states_skipped_entry_of_order_EPS")
        return
    if hi_i != hi_m and not ill_conditioned(after):
        # an entry at the upper clamp / not finite on one side only: a quotient with a vanishing denominator
        ctx.disagree(full, f"exact-state sweep: entries of u at the upper clamp or not finite: implementation {hi_i} "
                           f"({[after['u'][i][k] for i, k in hi_i][:4]}), model {hi_m}")
        return
    if ill_conditioned(after) or hi_i or hi_m:
        ctx.count("exact_states_skipped_ill_conditioned")
        return
    if sparse:
        ctx.count("exact_sparse_states_compared")
    # psi / psiBar rows are maintained by additions and subtractions of products of the rows below: rounding error of a
    # row is relative to the largest entry of the whole table (a row that is exactly 0 comes out as 1e-17)
    gmax = float(max([x for r in P for x in r] + [Fraction(1, 8)]))
    dd = compare_state(ctx, case, "exact-state sweep", ms, after, psimax=[[gmax] * K for _ in range(D)])
    if dd is None and not close(ll_from_model(static, ms), ll, 1.0):
        dd = f"log-likelihood: implementation {ll!r}, model {ll_from_model(static, ms)!r}"
    if dd is not None and sparse and case["min_value_par"] == 0.0 and any(x == 0 for r in P for x in r):
        # threshold 0 and an elementary symmetric polynomial that is EXACTLY 0 in the state: the implementation maintains psi /
        # psiBar by additions and subtractions of products, an exact 0 comes out as a residue of order 1e-17 and the next
        # update divides by it (u of order 1e-5 where exact arithmetic keeps the entry) - binary64 noise in the
        # ill-conditioned regime of known finding D35, not a difference of model and code (false alarm of thorough seed 21)
        ctx.count("exact_sparse_states_zero_polynomial_rounding_sensitive")
        return
    if dd is not None:
        ctx.disagree(full, dd)
    ctx.case("exact:" + repr((edges, weights, full["u"], full["w"], perm, case["min_value_par"])), True)


def esymm_lines(ctx, drv, rng, n):
    lines, want = [], []
    for _ in range(n):
        xs = [Fraction(rng.randint(0, 9), rng.choice([1, 2, 3, 4, 8])) for _ in range(rng.randint(0, 7))]
        d = rng.randint(0, 5)
        lines.append(f"R esymm {d} {hgxv.enc_list(xs)}")
        want.append(hgxv.enc_num(sum((math.prod(c) for c in itertools.combinations(xs, d)), Fraction(0)) if d else Fraction(1)))
    for ln, a, w_ in zip(lines, drv.batch(lines), want):
        if a != w_:
            ctx.disagree({"line": ln}, f"esymm: model {a}, sum over subsets {w_}")
    ctx.count("esymm_compared", n)


# ------------------------------------------------------------------------------------------
# committed witnesses of the two known-finding classes

D35_WITNESS = {"edges": [(0, 1, 2), (0, 1, 2, 3), (0, 2), (0, 3), (2, 3)], "weights": None, "isolated": [4],
               "K": 3, "seed": 68, "n_realizations": 1, "max_iter": 30, "min_value_par": 0.0,
               "normalizeU": False, "baseline_r0": True}
D34_WITNESS = {"edges": [("qq", "ss", "bb"), ("qq", "ss"), ("qq", "d", "ss", "bb")], "weights": None, "isolated": [],
               "K": 2, "seed": 488183, "n_realizations": 1, "max_iter": 30, "min_value_par": 1e-05,
               "normalizeU": False, "baseline_r0": True}


def replay_witnesses(ctx, drv):
    for wid, wcase, field in (("D34", D34_WITNESS, "decrease_clamp"), ("D35", D35_WITNESS, "decrease_ill")):
        if wcase is None:
            continue
        sub = hgxv.Ctx(ctx.prop, ctx.tier, ctx.seed)
        facts = check_case(sub, None, dict(wcase), full=False)
        # anything the witness shows outside its class is a real violation
        for c, wh in sub.violations:
            ctx.violation(c, wh)
        hit = facts.get(field) or (wid == "D35" and facts.get("mismatch_ill"))
        if hit:
            if wid == "D34":
                ctx.known("D34", "recorded log-likelihood decreases in a sweep where the min_value_par/max_value_par clamp or a "
                                 f"negative-psi repair fired (witness: {hit})")
            else:
                ctx.known("D35", "min_value_par=0: memberships underflow / affinities blow up, recorded log-likelihood decreases and "
                                 f"drifts from its definition in the ill-conditioned state (witness: {hit})")
        ctx.count(f"witness_{wid}_reproduced", 1 if hit else 0)


# ------------------------------------------------------------------------------------------
# committed regression corpus: the witnesses of every defect that was repaired in /repo (known_findings.json `fixed:`
# lines).  Replayed first on every run with all oracles and the model; a repaired defect that comes back is a VIOLATION.

def _w(edges, iso, K, seed, max_iter, minv, normU, base, weights=None, nreal=1):
    return {"edges": [tuple(e) for e in edges], "weights": weights, "isolated": list(iso), "K": K, "seed": seed,
            "n_realizations": nreal, "max_iter": max_iter, "min_value_par": minv, "normalizeU": normU, "baseline_r0": base}


REGRESSIONS = [
    # D30 (40051b0 / bb5c8fa): csr_array.getnnz - any hypergraph, HypergraphMT.fit and HySC.fit raised at start
    ("D30", "40051b0+bb5c8fa", "fit raised AttributeError at start (csr_array.getnnz)",
     _w([(0, 1, 2), (1, 2), (2, 3)], [4], 2, 10, 5, 1e-5, False, True)),
    ("D30", "40051b0+bb5c8fa", "fit raised AttributeError at start (csr_array.getnnz)",
     _w([("a", "b"), ("b", "c", "d")], [], 2, 3, 3, 0.0, False, False, weights=[1.5, 2])),
    # D37 (37ee6cd): _update_u divided by a vanishing denominator
    ("D37", "37ee6cd", "u update divides by a vanishing denominator: NaN memberships, fit raised AssertionError",
     _w([(17, 18, 0, 6)], [29], 3, 606512, 20, 1e-5, False, True)),
    # D36 (11ddcfc): multiplier on a wrong branch / away from a root
    ("D36", "11ddcfc", "normalizeU=True: multiplier on a branch with negative memberships, row sums 1.07",
     _w([(39, 50, 23, 22), (15, 50, 23, 22), (39, 50), (15, 22), (39, 15, 23, 22), (50, 22), (39, 15)], [9, 46], 2, 130235, 1, 0.0,
        True, False)),
    ("D36", "11ddcfc", "normalizeU=True: multiplier away from the root of the branch with non-negative memberships, row sums 0.025 / 1.03",
     _w([(36, 43, 13)], [27, 37], 2, 943381, 5, 1e-5, True, True)),
    ("D36", "11ddcfc", "normalizeU=True: multiplier away from the root, row sums 0.13 / 0.01",
     _w([(59, 3, 20), (3, 20)], [], 3, 545594, 5, 1e-5, True, True)),
    ("D36", "11ddcfc", "normalizeU=True: multiplier away from the root, row sums 3e-4",
     _w([(2, 28, 24)], [], 2, 314046, 20, 1e-5, True, True)),
    ("D36", "11ddcfc", "normalizeU=True, more communities than covered nodes, random start: row sums 1.05 / 1.29",
     _w([(27, 43, 19, 47), (43, 19, 27)], [20, 16], 5, 262881, 30, 1e-5, True, False)),
    ("D36", "11ddcfc", "normalizeU=True, one heavy hyperedge: row sums 5.6e-4",
     _w([(29, 4, 57, 10, 17)], [33, 52], 5, 305248, 10, 1e-5, True, True, weights=[40])),
    ("D36", "11ddcfc", "normalizeU=True, fractional weights: row sums 1.6e-4 / 1.0007",
     _w([(11, 3, 53, 32, 14), (14, 11)], [39, 10], 4, 34429, 5, 1e-5, True, True, weights=[2.25, 1.5], nreal=2)),
    # D37, further witnesses (one dominant hyperedge, K close to its size, default threshold)
    ("D37", "37ee6cd", "u update divides by a vanishing denominator (two realisations, three isolated nodes)",
     _w([(1, 6, 42, 40, 36)], [57, 39, 27], 4, 518349, 60, 1e-5, False, True, nreal=2)),
    ("D37", "37ee6cd", "u update divides by a vanishing denominator (weighted, a sub-hyperedge)",
     _w([(2, 41, 44, 27), (2, 41)], [37], 4, 7907, 20, 1e-5, False, True, weights=[7, 2])),
    ("D37", "37ee6cd", "u update divides by a vanishing denominator (K = 3 on five nodes)",
     _w([(36, 11, 33, 52, 5)], [56], 3, 507768, 30, 1e-5, False, True)),
]


REGRESSION_SIGNATURE = {     # how the defect showed: anything else on the same input is reported as an ordinary violation
    "D30": ("AttributeError",),
    "D37": ("does not return", "non-finite"),
    "D36": ("normalizeU=True but non-zero rows", "negative entries"),
}
STAGES = [x for x in (os.environ.get("C17_STAGES") or "corpus,known,large,esymm,sparse,every,sessions,general,small").split(",") if x]   # debugging aid


def replay_regressions(ctx, drv):
    for did, fix, what, wcase in REGRESSIONS:
        sub = hgxv.Ctx(ctx.prop, ctx.tier, ctx.seed)
        sub.deadline = ctx.deadline
        check_case(sub, drv, dict(wcase), full=True)
        for c, wh in sub.violations + sub.disagreements:
            c = dict(c) if isinstance(c, dict) else {"case": c}
            if any(sg in wh for sg in REGRESSION_SIGNATURE[did]):
                ctx.violation(c, f"REGRESSION of the repaired defect {did} (fix {fix}: {what}) on its committed witness: {wh}")
            else:   # something else breaks on this input: an ordinary violation
                ctx.violation(c, f"{wh} [input: committed witness of the repaired defect {did}]")
        for k, v in sub.extra.items():
            if k.startswith(("sweeps_with_vanishing", "rowsum_off", "invalid_intermediate")):
                ctx.count("regression_corpus_" + k, v)
        ctx.count("regression_witnesses_replayed")
        ctx.count(f"regression_witnesses_{did}")


def run_small(ctx, drv, n_graphs, per_graph, full_every):
    """the degenerate class: many cheap configurations, each through fit + the step-by-step run with the validity
    oracles after every sweep; every `full_every`-th also twice, through HySC and the model"""
    j = 0
    for g in range(n_graphs):
        hg = gen_small(ctx.rng)
        for case in small_variants(ctx.rng, hg, per_graph):
            j += 1
            covered = len(set(x for e in case["edges"] for x in e))
            fullc = full_every and j % full_every == 0
            if fullc:
                check_case(ctx, drv, case, full=case["K"] <= covered)
            else:
                check_case(ctx, None, case, full=False, light=True)
            if ctx.too_many() or (ctx.time_left() is not None and ctx.time_left() < 8):
                ctx.count("stopped_early_degenerate_cases_done", j)
                return False
    return True


# ------------------------------------------------------------------------------------------
# (e) LARGE hypergraphs: a few hundred to a thousand nodes, disconnected / symmetric (degenerate Laplacian spectrum) or
# connected, every clause of the property again at that size, every fit several times in this process.
#
# a large case carries its hypergraph as a compact spec (`case["large"]`); `expand_large` rebuilds edges / weights / isolated
# nodes from it with a private PRNG, so violations and replays stay small.

LARGE_KINDS = ("blocks", "blocks", "copies", "tiny", "ring", "planted", "blocks_big")


LARGE_DISCONNECTED = ("blocks", "copies", "tiny", "blocks_big")


def gen_large_spec(rng, n_lo, n_hi, kinds=LARGE_KINDS, densities=(0.3, 1.0, 1.0, 2.0), n_isos=(0, 1, 2, 2, 5)):
    kind = rng.choice(kinds)
    # sizes on both sides of round numbers (300, 256, 512, 1000): a size-dependent code path switches somewhere there
    n = rng.choice([rng.randint(n_lo, n_hi), rng.randint(n_lo, n_hi),
                    min(n_hi, max(n_lo, rng.choice([256, 300, 400, 500, 512, 768, 1000, 1024]) + rng.choice([-1, 0, 1, 2, 30])))])
    return {"kind": kind, "n": n, "nb": rng.randint(2, 9), "gseed": rng.randint(0, 10 ** 9),
            "labels": rng.choice(["int", "int", "intbig", "str"]), "weighted": rng.random() < 0.4,
            "n_iso": rng.choice(n_isos), "density": rng.choice(densities)}


def _connected_block(g, nodes, density, dmax=4):
    """a path through `nodes` (keeps the block connected) plus density * len(nodes) random hyperedges of size 2..dmax"""
    out = [(nodes[i], nodes[i + 1]) for i in range(len(nodes) - 1)]
    if len(nodes) >= 3:
        for _ in range(int(density * len(nodes))):
            out.append(tuple(g.sample(nodes, g.randint(2, min(dmax, len(nodes))))))
    return out


def expand_large(spec):
    """(edges, weights, isolated) of a large spec - a pure function of the spec"""
    g = random.Random(spec["gseed"])
    n, nb, kind = spec["n"], spec["nb"], spec["kind"]
    idx = list(range(n))
    raw = []
    if kind in ("blocks", "blocks_big"):
        # nb components of unequal sizes: eigenvalue 0 of the Laplacian has multiplicity nb
        cuts = sorted(g.sample(range(3, n - 3), nb - 1))
        parts = [idx[a:b] for a, b in zip([0] + cuts, cuts + [n])]
        for part in parts:
            raw += _connected_block(g, part, spec["density"]) if len(part) >= 2 else []
        if kind == "blocks_big":
            # hyperedges far larger than the rest (expected rate of the hyperedge far below 1e-20 at this N)
            for _ in range(g.randint(1, 3)):
                part = g.choice([p for p in parts if len(p) >= 2])
                raw.append(tuple(g.sample(part, min(len(part), g.randint(9, 22)))))
    elif kind == "copies":
        # nb IDENTICAL components: every eigenvalue has multiplicity >= nb
        size = max(2, n // nb)
        proto = _connected_block(g, list(range(size)), spec["density"])
        for b in range(nb):
            raw += [tuple(b * size + x for x in e) for e in proto]
        n = size * nb
    elif kind == "tiny":
        # components of 2-4 nodes, one hyperedge each (plus a sub-hyperedge now and then): multiplicity of 0 = n / size
        size = g.choice([2, 3, 3, 4])
        for a in range(0, n - size + 1, size):
            raw.append(tuple(range(a, a + size)))
            if size > 2 and g.random() < 0.2:
                raw.append((a, a + 1))
        n = (n // size) * size
    elif kind == "ring":
        # circulant, connected: every non-trivial eigenvalue is double
        step = g.choice([1, 1, 2])
        for i in range(n):
            raw.append((i, (i + 1) % n))
            if step == 2:
                raw.append((i, (i + 1) % n, (i + 2) % n))
    else:
        # planted groups, connected through a path over all nodes
        groups = [idx[b::nb] for b in range(nb)]
        raw += [(idx[i], idx[i + 1]) for i in range(n - 1)]
        for grp in groups:
            for _ in range(int(spec["density"] * len(grp))):
                raw.append(tuple(g.sample(grp, g.randint(2, min(4, len(grp))))))
    n_iso = spec["n_iso"]
    # labels: a random bijection (blocks are interleaved in index order); comparable within one hypergraph
    perm = list(range(n + n_iso))
    g.shuffle(perm)
    if spec["labels"] == "str":
        lab = [f"v{p:05d}" if p % 3 else f"V{p}" for p in perm]
    elif spec["labels"] == "intbig":
        lab = [1000 + 7 * p for p in perm]
    else:
        lab = perm
    seen, edges = set(), []
    for e in raw:
        e = tuple(dict.fromkeys(e))
        kx = tuple(sorted(e))
        if len(e) >= 2 and kx not in seen:
            seen.add(kx)
            edges.append(tuple(lab[x] for x in e))
    g.shuffle(edges)
    weights = [g.choice(WEIGHTS) for _ in edges] if spec["weighted"] else None
    iso = [lab[n + j] for j in range(n_iso)]
    return edges, weights, iso


def large_case(spec, cfg):
    edges, weights, iso = expand_large(spec)
    return {"edges": edges, "weights": weights, "isolated": iso, "node_order": list(iso), **cfg, "large": dict(spec)}


def compact(case):
    """a large case without the parts that `expand_large` rebuilds"""
    if isinstance(case, dict) and case.get("large"):
        return {k: v for k, v in case.items() if k not in ("edges", "weights", "isolated", "node_order")}
    return case


class CompactCtx:
    """the framework's context; violations / disagreements of large cases carry the spec instead of thousands of hyperedges"""

    def __init__(self, ctx):
        self._c = ctx

    def __getattr__(self, name):
        return getattr(self._c, name)

    def violation(self, case, what):
        self._c.violation(compact(case), what)

    def disagree(self, case, what):
        self._c.disagree(compact(case), what)


def gen_large(rng, n_lo, n_hi, cheap=False, **kw):
    spec = gen_large_spec(rng, n_lo, n_hi, **kw)
    cfg = {"K": rng.choice([2, 3, 3, 4, 5, 6]), "seed": rng.randint(0, 10 ** 6), "n_realizations": 1 if cheap else rng.choice([1, 1, 2]),
           "max_iter": rng.choice([2, 3] if cheap else [2, 3, 4]), "min_value_par": rng.choice([0.0, 1e-5]),
           "normalizeU": rng.random() < 0.3, "baseline_r0": rng.random() < 0.65}
    return large_case(spec, cfg)


def hysc_call(m, h, K, weighted_L):
    try:
        with quiet(), limit(CALL_TIMEOUT):
            return ("ok", m.fit(h, K=K, weighted_L=weighted_L) if weighted_L else m.fit(h, K=K))
    except Timeout:
        return ("exc", "timeout")
    except Exception as ex:  # noqa: BLE001
        return ("exc", f"{type(ex).__name__}: {ex}")


def check_large_hysc(ctx, drv, case, h, n_fits, weighted_L=False):
    """HySC.fit `n_fits` times with the same seed in this process - fresh objects, the same object again, numpy's global
    generator re-seeded in between: 0/1 matrix with one 1 per non-isolated node every time, all results identical"""
    import numpy as np
    from hypergraphx.communities.hy_sc.model import HySC
    K = case["K"]
    nodes_in_edges = set(x for e in case["edges"] for x in e)
    try:
        mapping = h.get_mapping()
        lab = sorted(nodes_in_edges, key=repr)
        non_iso = set(int(v) for v in mapping.transform(lab))
        Ndef = len(nodes_in_edges | set(case.get("isolated", [])))
    except Exception:  # noqa: BLE001
        non_iso, Ndef = None, None
    wl = ", weighted_L=True" if weighted_L else ""
    first, m_first, results = None, None, []
    for j in range(n_fits):
        if j == 2 and m_first is not None:
            m = m_first                      # the third fit re-uses the first object
        else:
            m = HySC(seed=case["seed"])
        if j:
            np.random.seed(1000 + 17 * j)    # results must not depend on numpy's global generator
        r = hysc_call(m, h, K, weighted_L)
        ctx.count("large_hysc_fits")
        if r[0] == "exc":
            ctx.violation(case, f"HySC.fit{wl} does not return (fit number {j + 1} of {n_fits}): {r[1]}")
            return
        X = np.asarray(r[1])
        if Ndef is not None:
            bad = hysc_shape(X, Ndef, K, non_iso)
            if bad:
                ctx.violation(case, bad + (f" (fit number {j + 1}{wl})"))
                return
        if first is None:
            first, m_first = X.copy(), m
        elif not np.array_equal(first, X):
            n_diff = int((first != X).any(axis=1).sum()) if first.shape == X.shape else -1
            ctx.violation(case, f"runs 1 and {j + 1} of HySC.fit{wl} with the same seed "
                                f"{'(run ' + str(j + 1) + ' on the object of run 1) ' if m is m_first else ''}"
                                f"differ in the rows of {n_diff} nodes of {X.shape[0]}")
            return
        results.append(X)
    ctx.count("large_hysc_cases")
    two = first is not None and len(set(map(tuple, first[first.any(axis=1)]))) >= 2
    if two:
        ctx.count("large_hysc_cases_with_two_communities_used")
    ctx.case("large-hysc:" + repr((case["large"], K, case["seed"], weighted_L)), bool(two))


def check_large(ctx, drv, case, hysc_fits=3, mt=True, until=None, replaying=False):
    """one large case: HySC several times, then HypergraphMT through every oracle of check_case (fit twice + step by step);
    `until`: wall-clock time after which the remaining parts are left out"""
    cctx = CompactCtx(ctx)
    try:
        with quiet():
            h = build(case)
    except Exception as ex:  # noqa: BLE001
        cctx.violation(case, f"cannot build the hypergraph: {type(ex).__name__}: {ex}")
        return
    spec = case["large"]
    ctx.count("large_cases")
    ctx.count("large_kind_" + spec["kind"])
    nn = len(set(x for e in case["edges"] for x in e))
    ctx.count("large_cases_above_300_nodes" if nn > 300 else "large_cases_up_to_300_nodes")

    def late():
        if until is not None and time.time() > until:
            ctx.count("large_parts_left_out_time")
            return True
        return False

    t0 = time.time()
    CPU_TIMER[0] = True
    try:
        check_large_hysc(cctx, drv, case, h, hysc_fits)
        if case["weights"] is not None and hysc_fits >= 3 and not late():
            check_large_hysc(cctx, drv, case, h, 2, weighted_L=True)
        t1 = time.time()
        if mt and not ctx.too_many() and not late():
            # full=False: HySC was exercised above; drv=None: the Lean model is run on the small classes (its lists are linear-time)
            check_case(cctx, None, case, full=False, once=(ctx.tier == "quick" and not replaying))
    finally:
        CPU_TIMER[0] = False
    ctx.count("large_seconds_hysc_x10", int(10 * (t1 - t0)))
    ctx.count("large_seconds_mt_x10", int(10 * (time.time() - t1)))


def run_large(ctx, drv):
    """(n_lo, n_hi, number of HySC fits, HypergraphMT too, generator options); the library builds its incidence matrices with one
    LabelEncoder call per hyperedge (0.3 ms each, three matrices per fit), so quick keeps the number of hyperedges down"""
    if ctx.tier == "quick":
        plan = [(301, 400, 3, True, {"kinds": LARGE_DISCONNECTED, "densities": (0.2, 0.4), "n_isos": (1, 2, 3, 5)}),
                (500, 800, 2, False, {"densities": (0.2, 0.3), "n_isos": (1, 2, 3, 5)})]
    else:
        plan = [(301, 430, 4, True, {"kinds": LARGE_DISCONNECTED})] * 4 + [(301, 430, 4, True, {})] * 2 \
            + [(200, 330, 3, True, {})] * 2 + [(430, 700, 3, True, {})] * 3 \
            + [(700, 1100, 3, False, {"densities": (0.2, 0.5, 1.0)})] * 3 + [(700, 1000, 2, True, {"densities": (0.2, 0.5)})] * 1
    t0 = time.time()
    cap = ctx.scale(10.0, 130.0)
    for j, (lo, hi, fits, mt, kw) in enumerate(plan):
        case = gen_large(ctx.rng, lo, hi, cheap=(ctx.tier == "quick"), **kw)
        check_large(ctx, drv, case, hysc_fits=fits, mt=mt, until=t0 + cap)
        if ctx.too_many():
            return
        if time.time() - t0 > cap or (ctx.time_left() is not None and ctx.time_left() < 20):
            ctx.count("large_stage_stopped_early_cases_done", j + 1)
            return


# ------------------------------------------------------------------------------------------
# extension round: the termination logic of fit with every option of the constructor that enters it
# (check_convergence_every != 1, tolerance, threshold_for_convergence) against `runReal` / `bestOf`

def gen_every(rng):
    case = gen(rng)
    for k in ("detour", "mutate"):
        case.pop(k, None)
    case.update({"check_convergence_every": rng.choice([1, 2, 2, 3, 4, 7]),
                 "tolerance": rng.choice([0.1, 0.5, 0.01, 2.0]),
                 "threshold_for_convergence": rng.choice([0, 1, 2, 3, 15]),
                 "max_iter": rng.choice([1, 2, 3, 4, 5, 7, 8, 9, 12, 16, 25, 40]),
                 "n_realizations": rng.choice([1, 2, 3]), "normalizeU": False})
    # the inputs of initialize_u0 / initialize_w0 (arrays of the right shape, non-negative, not all zero)
    N = len(set(x for e in case["edges"] for x in e) | set(case.get("isolated", [])))
    D = max(len(e) for e in case["edges"])
    if rng.random() < 0.4:
        U = [[rng.choice([0, 0, 1, 1, 0.5, 0.25, 2.0, 0.1]) for _ in range(case["K"])] for _ in range(N)]
        U[rng.randrange(N)][rng.randrange(case["K"])] = rng.choice([1, 1.0, 3.5])
        case["initialize_u0"] = U
    if rng.random() < 0.4:
        case["initialize_w0"] = [[rng.choice([0.5, 1, 2.0, 0.25, 0.1, 5]) for _ in range(case["K"])] for _ in range(D - 1)]
    # the flags of _update_em
    if rng.random() < 0.25:
        case["fix_w"] = True
    if rng.random() < 0.25:
        case["fix_communities"] = True
    return case


def sweepfix_lines(static, case, R):
    """one `F sweepfix` line per driven sweep (the model's _update_em with the flags fix_w / fix_communities)"""
    cfgt = cfg_tokens(static, f2bits, case["min_value_par"], normU=False)
    fw, fu = "1" if case.get("fix_w") else "0", "1" if case.get("fix_communities") else "0"
    out = []
    for S in R["sweeps"]:
        if S["perm"] is None and fu == "0":
            continue
        b = S["before"]
        out.append((" ".join(["F", "sweepfix"] + cfgt + [fw, fu, enc_mat(b["u"], f2bits), enc_mat(b["w"], f2bits),
                                                         enc_mat(b["psi"], f2bits), enc_mat(b["bar"], f2bits),
                                                         enc_mat(b["rho"], f2bits), "-", hgxv.enc_list(S["perm"] or [])]), S))
    return out


def sweepfix_diff(ctx, drv, case, S, ln, a, minv):
    """the comparison of one model sweep with the implementation's, with the tolerances and excuse classes of check_case
    (negative-psi repair / ill-conditioned state, measured conditioning of the step, an entry next to a clamp threshold)"""
    ms = parse_state(a, bits2f)
    if ms is None:
        return f"model answers {a[:80]!r}"
    excused = bool(S["repair"] or S["ill"])
    d = compare_state(ctx, case, f"sweep {S['it']}", ms, S["after"], psimax=S["psimax"], rtol=1e-9)
    if d is not None and not excused:
        sens = model_sensitivity(drv, ln, S, ms, psi_idx=16)
        if sens is not None and sens > 0:
            rtol = 1e-9 + 64 * sens
            if rtol < 1e-4:
                d = compare_state(ctx, case, f"sweep {S['it']}", ms, S["after"], psimax=S["psimax"], rtol=rtol)
                ctx.count("model_steps_tolerance_widened_by_measured_conditioning")
            else:
                ctx.count("model_steps_skipped_ill_conditioned_step")
                return None
    if d is not None and near_threshold(S, ms, minv):
        ctx.count("model_steps_skipped_near_threshold")
        return None
    ctx.count("model_sweeps_with_flags_compared")
    if d is not None and excused:
        ctx.count("model_steps_differing_with_repair_or_ill_conditioned")
        return None
    return d


def check_every(ctx, drv, case):
    try:
        with quiet():
            h = build(case)
    except Exception as ex:  # noqa: BLE001
        ctx.violation(case, f"cannot build the hypergraph: {type(ex).__name__}: {ex}")
        return
    every, thr, tol = case["check_convergence_every"], case["threshold_for_convergence"], case["tolerance"]
    key = repr(("every", sorted(map(repr, case["edges"])), case.get("weights"), sorted(map(repr, case.get("isolated", []))),
                {k: case[k] for k in ("K", "seed", "n_realizations", "max_iter", "min_value_par", "baseline_r0",
                                      "check_convergence_every", "tolerance", "threshold_for_convergence")},
                case.get("initialize_u0"), case.get("initialize_w0"), case.get("fix_w"), case.get("fix_communities")))
    ctx.count("termination_fix_w" if case.get("fix_w") else "termination_w_free")
    ctx.count("termination_fix_communities" if case.get("fix_communities") else "termination_u_free")
    t = drive(case, h)
    r1 = run_fit(case, h)
    # the initialisation of every realisation from the raw draws (also around the inputs of initialize_u0 / initialize_w0)
    if drv is not None and t.static is not None:
        for R in t.reals:
            if "init" not in R:
                continue
            lines, meta = model_sweep_lines(t.static, case, R)
            sel = [ln for ln, (kind, S) in zip(lines, meta) if kind == "rawinit"]
            for ln, a in zip(sel, drv.batch(sel) if sel else []):
                a8, extra = split_rawinit(a)
                ms = parse_state(a8, bits2f)
                if ms is None:
                    ctx.disagree({**case, "realization": R["r"]}, f"model answers {a[:80]!r}")
                    continue
                d, excused = rawinit_diff(ctx, case, R, ms, extra)
                if d is not None and excused:
                    ctx.count("model_steps_differing_with_repair_or_ill_conditioned")
                elif d is not None:
                    ctx.disagree({**case, "realization": R["r"]}, d)
            # every sweep against the model's _update_em with the flags fix_w / fix_communities
            sl = sweepfix_lines(t.static, case, R)
            for (ln, S), a in zip(sl, drv.batch([x[0] for x in sl]) if sl else []):
                d = sweepfix_diff(ctx, drv, case, S, ln, a, case["min_value_par"])
                if d is not None:
                    ctx.disagree({**case, "realization": R["r"], "iter": S["it"]}, d)
                    break
            # a fixed parameter is returned as it was initialised (the words of the option)
            if R["sweeps"] and "init" in R:
                import numpy as np
                if case.get("fix_w") and not np.array_equal(np.asarray(R["w"]), np.asarray(R["init"]["w"])):
                    ctx.violation({**case, "realization": R["r"]}, "fix_w=True but w changed during the EM")
                if case.get("fix_communities") and not np.array_equal(np.asarray(R["u"]), np.asarray(R["init"]["u"])):
                    ctx.violation({**case, "realization": R["r"]}, "fix_communities=True but u changed during the EM")
            if R["raw"] is not None and (R["raw"]["hysc"] is not None and not R["raw"]["baseline"]):
                ctx.count("initialisations_around_initialize_u0")
            if R["raw"] is not None and R["raw"]["winit"] is not None:
                ctx.count("initialisations_around_initialize_w0")
    ill = any(R["ill"] for R in t.reals) and case["min_value_par"] == 0
    if r1[0] == "exc" or t.error:
        if ill:
            ctx.count("ill_conditioned_failures")
        else:
            ctx.violation(case, f"HypergraphMT.fit does not return: {r1[1] if r1[0] == 'exc' else 'step-by-step run: ' + t.error}")
        ctx.case(key, False, sample=case)
        return
    _, u, w, maxL, rows, m = r1
    drows = [(R["r"], int(R["seed"]), it, ll, cv) for R in t.reals for (it, ll, cv) in R["rows"]]
    if drows != rows or t.maxL != maxL:
        ctx.disagree(case, f"fit and its step-by-step replica record different train_info: {rows[:4]}... vs {drows[:4]}...")
    # the property's words: the returned log-likelihood is the largest final value recorded in the training table
    last, its = {}, {}
    for (r, sd, it, ll, cv) in rows:
        last[r] = ll
        its.setdefault(r, []).append(it)
    if sorted(last) != list(range(case["n_realizations"])):
        ctx.violation(case, f"train_info lists realisations {sorted(last)}, expected 0..{case['n_realizations'] - 1}")
    elif maxL != max(last.values()):
        ctx.violation(case, f"returned maxL {maxL!r} != max of the last recorded log-likelihoods {last}")
    converged_some = False
    for R in t.reals:
        Ls = [S["loglik"] for S in R["sweeps"]]
        converged_some = converged_some or R["final"][2]
        if drv is not None and Ls and all(math.isfinite(x) for x in Ls):
            a = drv.ask(" ".join(["R", "conv", q(tol), str(thr), str(every), str(case["max_iter"]), q(-INF), enc_vec(Ls, q)]))
            want_rows = ";".join(f"{it}:{q(ll)}:{int(cv)}" for (it, ll, cv) in R["rows"]) or "-"
            want = f"{q(R['final'][0])} {R['final'][1]} {int(R['final'][2])} {want_rows}"
            if a != want:
                ctx.disagree({**case, "realization": R["r"]}, f"convergence bookkeeping: model {a[:160]!r}, implementation {want[:160]!r}")
            ctx.count("termination_runs_compared")
    finals = [R["final"][0] for R in t.reals]
    if drv is not None and finals and all(math.isfinite(x) for x in finals) and len(finals) == case["n_realizations"]:
        a = drv.ask(" ".join(["R", "best", q(-INF), enc_vec(finals, q)]))
        want = f"{q(t.maxL)} {-1 if t.best is None else t.best}"
        if a != want:
            ctx.disagree(case, f"best-realisation bookkeeping: model {a!r}, implementation {want!r}")
    ctx.count("termination_every_" + str(every))
    if converged_some:
        ctx.count("termination_cases_with_convergence")
    ctx.case(key, len(rows) >= 2, sample=case)


def run(ctx):
    drv = ctx.driver() if ctx.model_available else None
    if "corpus" in STAGES:
        replay_regressions(ctx, drv)
        replay_d52(ctx, drv)
    if "known" in STAGES:
        replay_witnesses(ctx, drv)
    if "large" in STAGES:
        run_large(ctx, drv)
        if ctx.too_many():
            return
    if drv is not None and "esymm" in STAGES:
        esymm_lines(ctx, drv, ctx.rng, ctx.scale(40, 400))
    # exact rational sweeps have a heavy tail (the rationals grow with every node update): both exact stages stop at a time cap
    t_exact = {"sparse": 0.0, "dense": 0.0}
    cap = {"sparse": ctx.scale(3.0, 150.0), "dense": ctx.scale(4.0, 250.0)}

    def exact(kind):
        if t_exact[kind] > cap[kind]:
            ctx.count(f"exact_{kind}_states_not_run_time_cap")
            return
        ta = time.time()
        exact_state_case(ctx, drv, ctx.rng, sparse=(kind == "sparse"))
        t_exact[kind] += time.time() - ta

    if drv is not None and "sparse" in STAGES:
        # (c) sparse exact states
        for _ in range(ctx.scale(30, 400)):
            exact("sparse")
            if ctx.too_many():
                return
    # (e) termination logic with every constructor option that enters it
    if "every" in STAGES:
        for _ in range(ctx.scale(10, 250)):
            check_every(ctx, drv, gen_every(ctx.rng))
            if ctx.too_many():
                return
    # (d) sessions on one model object
    if "sessions" in STAGES:
        run_sessions(ctx, drv, ctx.scale(26, 400), ctx.scale(12, 180))
        if ctx.too_many():
            return
    # (a) the general class
    n = ctx.scale(26, 1400) if "general" in STAGES else 0
    n_exact = ctx.scale(12, 300)
    for j in range(n):
        case = gen(ctx.rng)
        check_case(ctx, drv, case)
        if drv is not None and j < n_exact:
            exact("dense")
        if ctx.too_many():
            return
        if ctx.time_left() is not None and ctx.time_left() < (8 if ctx.tier == "quick" else 200):
            ctx.count("stopped_early_cases_done", j + 1)
            break
    # (b) degenerate hypergraphs: cheap, many seeds
    if "small" in STAGES:
        run_small(ctx, drv, ctx.scale(26, 500), 4, ctx.scale(26, 15))


def replay(ctx, case):
    drv = ctx.driver() if ctx.model_available else None
    case = dict(case)
    if "session" in case:
        run_session(ctx, drv, norm_session(case))
        return
    if case.get("large"):
        cfg = {k: case[k] for k in ("K", "seed", "n_realizations", "max_iter", "min_value_par", "normalizeU", "baseline_r0")}
        check_large(ctx, drv, large_case(case["large"], cfg), hysc_fits=4, mt=True, replaying=True)
        return
    for k in ("realization", "iter", "from", "to", "line", "u", "w", "perm", "exact"):
        case.pop(k, None)
    case["edges"] = [tuple(e) for e in case["edges"]]
    if "check_convergence_every" in case:
        check_every(ctx, drv, case)
        return
    covered = len(set(x for e in case["edges"] for x in e))
    check_case(ctx, drv, case, full=case["K"] <= covered)
