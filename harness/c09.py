"""C09 - matrix / tensor representations: correspondence of lean/Hgxv/Model/C09.lean with
hypergraphx.linalg.linalg (and the Hypergraph / TemporalHypergraph matrix methods) plus independent
property oracles (entries recomputed from the property's words) on the implementation."""
import itertools
import math
import signal
import warnings
from fractions import Fraction

import hgxv

RULE = ("random Hypergraph instances: 2-9 nodes with labels from a sparse integer universe (60%), a string universe (25%) "
        "or 0..N-1 (15%), inserted in random order, 0-2 isolated nodes, 1-10 distinct hyperedges of size 1-5 (every order "
        "0..max+1 queried, present or absent), weighted (weights k/4) or unweighted; every matrix routine of "
        "hypergraphx.linalg.linalg and the Hypergraph methods, both keep_isolated_nodes, dense matrices and mapping dicts "
        "compared entry by entry with the Lean model and with the definition; uniform hypergraphs on 0..N-1 for the tensor; "
        "random TemporalHypergraph records over sparse times for the temporal matrices; hye_list_to_binary_incidence called "
        "directly on index hyperedges with repeated nodes and absent / larger / too small shapes; fixed cases: 256 and 300 hyperedges sharing "
        "two nodes (adjacency), two hyperedges sharing 256 / 300 nodes (dual). A case is distinct by its canonical node and "
        "hyperedge lists; non-trivial when the labels are not 0..N-1 and at least one pair of hyperedges overlaps")
ASSUMPTIONS = ["hyperedges are non-empty duplicate-free node tuples, distinct as sets (what Hypergraph stores)",
               "labels are non-negative integers or strings of one type; strings are mapped to their rank in a fixed sorted "
               "universe before they reach the model (order isomorphism)",
               "weights are multiples of 1/4 (binary64 sums and products are then exact; entries are compared exactly)",
               "adjacency_tensor: uniform hypergraph whose nodes are exactly 0..N-1 (as the routine demands)"]
TRUSTED = ["sklearn LabelEncoder: classes_ = sorted distinct labels, transform = position in classes_ (validated on every case)",
           "scipy.sparse products/sums are exact on the generated dyadic inputs; numpy int64 does not overflow on them",
           "itertools.permutations yields exactly the orderings of its argument"]
BUDGET_S = {"quick": 50, "thorough": 800}

STR_UNIVERSE = sorted(set([chr(97 + i) * k for i in range(12) for k in (1, 2)] + ["E1", "N0", "Z", "A10", "A9", "10", "9"]))


class CaseTimeout(Exception):
    pass


def _alarm(signum, frame):
    raise CaseTimeout()


def guarded(f, *a, **k):
    """run an implementation call; any exception is an observation"""
    try:
        with warnings.catch_warnings():
            warnings.simplefilter("ignore")
            return ("ok", f(*a, **k))
    except CaseTimeout:
        raise
    except Exception as e:  # noqa: BLE001
        return ("exc", type(e).__name__ + ": " + str(e)[:80])


def plain(x):
    """numpy scalar -> python value"""
    return x.item() if hasattr(x, "item") else x


def frac(x):
    x = plain(x)
    if isinstance(x, bool):
        return Fraction(int(x))
    if isinstance(x, int):
        return Fraction(x)
    if isinstance(x, float):
        if math.isnan(x) or math.isinf(x):
            return x
        return Fraction(x)
    return x


def dense(M):
    """sparse / ndarray -> (nrows, ncols, list of rows of Fractions)"""
    import numpy as np
    D = M.todense() if hasattr(M, "todense") else M
    D = np.asarray(D)
    if D.ndim != 2:
        raise ValueError("not a matrix: ndim=%d" % D.ndim)
    return D.shape[0], D.shape[1], [[frac(v) for v in row] for row in D.tolist()]


def mat_str(rows):
    return hgxv.enc_lists(rows)


def map_plain(m):
    return {plain(k): plain(v) for k, v in m.items()}


# --------------------------------------------------------------------------------------------------
# generators

def gen_labels(rng, n):
    r = rng.random()
    if r < 0.60:
        kind = "int"
        labels = rng.sample(range(0, 70), n) if rng.random() < 0.6 else [10 * (i + 1) for i in range(n)]
    elif r < 0.85:
        kind = "str"
        labels = rng.sample(STR_UNIVERSE, n)
    else:
        kind = "range"
        labels = list(range(n))
    rng.shuffle(labels)
    return kind, labels


def gen_static(rng):
    n = rng.randint(2, 9)
    kind, labels = gen_labels(rng, n)
    n_iso = rng.choice([0, 0, 1, 1, 2]) if n > 2 else 0
    active = labels[: n - n_iso]
    edges, seen = [], set()
    target = rng.randint(1, 10)
    sizes = rng.choice([[1, 2, 2, 3, 3, 4, 5], [2, 3], [2], [3], [1, 2, 3, 4, 5, 6], [2, 2, 3]])
    for _ in range(target * 3):
        if len(edges) >= target:
            break
        k = min(len(active), rng.choice(sizes))
        e = tuple(rng.sample(active, k))
        key = frozenset(e)
        if key in seen:
            continue
        seen.add(key)
        edges.append(e)
    weighted = rng.random() < 0.4
    weights = [Fraction(rng.randint(1, 16), 4) for _ in edges] if weighted else [1] * len(edges)
    order = list(labels)
    rng.shuffle(order)
    pre = [x for x in order if rng.random() < 0.5]      # nodes added before the hyperedges, in random order
    return {"kind": "static", "labels": kind, "pre_nodes": pre, "nodes": order, "edges": [list(e) for e in edges],
            "weighted": weighted, "weights": [hgxv.enc_num(w) for w in weights]}


def gen_tensor(rng):
    n = rng.randint(2, 5)
    k = rng.randint(1, min(3, n))
    allk = list(itertools.combinations(range(n), k))
    rng.shuffle(allk)
    m = rng.randint(1, min(5, len(allk)))
    edges = [list(rng.sample(e, len(e))) for e in allk[:m]]
    if rng.random() < 0.2 and n >= 3 and k < n:
        edges.append(list(range(k + 1)))                 # non-uniform: the routine must reject
    return {"kind": "tensor", "n": n, "edges": edges}


def gen_hye(rng):
    hy = [[rng.randint(0, 6) for _ in range(rng.randint(0, 4))] for _ in range(rng.randint(0, 5))]
    n = max([x for e in hy for x in e], default=-1) + 1
    r = rng.random()
    if r < 0.3:
        shape = None
    elif r < 0.7:
        shape = [n + rng.randint(0, 2), len(hy) + rng.randint(0, 2)]
    else:
        shape = [max(0, n + rng.randint(-2, 1)), max(0, len(hy) + rng.randint(-2, 1))]
    return {"kind": "hye", "hyes": hy, "shape": shape}


def gen_temporal(rng):
    n = rng.randint(2, 8)
    kind, labels = gen_labels(rng, n)
    times = rng.sample([0, 1, 2, 3, 5, 8, 13, 40], rng.randint(1, 4))
    recs, seen = [], set()
    for _ in range(rng.randint(1, 12)):
        k = min(n, rng.choice([1, 2, 2, 3, 3, 4]))
        e = tuple(rng.sample(labels, k))
        t = rng.choice(times)
        if (t, frozenset(e)) in seen:
            continue
        seen.add((t, frozenset(e)))
        recs.append((t, e))
    weighted = rng.random() < 0.35
    weights = [Fraction(rng.randint(1, 16), 4) for _ in recs] if weighted else [1] * len(recs)
    iso = [x for x in labels if rng.random() < 0.1]
    return {"kind": "temporal", "labels": kind, "iso": iso, "recs": [[t, list(e)] for t, e in recs], "weighted": weighted,
            "weights": [hgxv.enc_num(w) for w in weights]}


def fixed_cases():
    # the hypergraph of the Lean theorem `C09_adjacency_wraps_witness` (lean/Hgxv/Proofs/C09Witness.lean)
    wn = [3, 5, 8, 10, 11, 20, 21, 22, 30, 40]
    we = [[3, 5] + [wn[2 + b] for b in range(8) if mask >> b & 1] for mask in range(256)]
    yield {"kind": "static", "labels": "int", "pre_nodes": [], "nodes": wn, "edges": we, "weighted": False,
           "weights": ["1"] * 256, "profile": "adjacency-only", "fixed": "256 hyperedges share two nodes (Lean witness)"}
    base = [100 + 7 * i for i in range(11)]
    rest = base[2:]
    edges = []
    for mask in range(300):
        edges.append([base[0], base[1]] + [rest[b] for b in range(9) if mask >> b & 1])
    yield {"kind": "static", "labels": "int", "pre_nodes": [], "nodes": base, "edges": edges, "weighted": False,
           "weights": ["1"] * 300, "profile": "adjacency-only", "fixed": "300 hyperedges share two nodes"}
    for share in (256, 300):
        nodes = [3 * i + 5 for i in range(share + 3)]
        e1 = nodes[:share] + [nodes[share]]
        e2 = nodes[:share] + [nodes[share + 1]]
        e3 = [nodes[share + 2], nodes[share]]
        yield {"kind": "static", "labels": "int", "pre_nodes": [], "nodes": nodes, "edges": [e1, e2, e3], "weighted": False,
               "weights": ["1"] * 3, "profile": "dual-only", "fixed": f"two hyperedges share {share} nodes"}


# --------------------------------------------------------------------------------------------------
# helpers shared by the oracles

def to_nat(kind, x):
    return STR_UNIVERSE.index(x) if kind == "str" else int(x)


def check_mapping(ctx, case, what, m, want_nodes):
    """the property: the mapping is a bijection between row indices 0..N-1 and the nodes"""
    want = list(want_nodes)
    keys = sorted(m.keys(), key=repr)
    ok = (len(m) == len(want) and sorted(m.keys()) == list(range(len(want)))
          and sorted(map(repr, m.values())) == sorted(map(repr, want)))
    if not ok:
        ctx.violation(case, f"{what}: mapping {dict((k, m[k]) for k in keys)!r} is not a bijection between 0..{len(want) - 1} and the nodes {sorted(want, key=repr)!r}")
    return ok


def expect_matrix(ctx, case, what, got, want_rows, nrows, ncols):
    """compare an implementation matrix (as returned by `dense`) with the definition"""
    r, c, rows = got
    if (r, c) != (nrows, ncols):
        ctx.violation(case, f"{what}: shape {(r, c)} instead of {(nrows, ncols)}")
        return False
    for i in range(nrows):
        for j in range(ncols):
            if rows[i][j] != want_rows[i][j]:
                ctx.violation(case, f"{what}: entry ({i},{j}) = {rows[i][j]}, definition gives {want_rows[i][j]}")
                return False
    return True


def model_map_str(kind, m):
    """render a mapping dict as the model prints it"""
    return ",".join(f"{i}:{to_nat(kind, m[i])}" for i in sorted(m)) if m else "-"


class Obs:
    """collects (model query line, implementation answer string) pairs"""

    def __init__(self):
        self.lines, self.expect = [], []

    def add(self, line, answer):
        self.lines.append(line)
        self.expect.append(answer)


def obs_matrix(ob, line, res):
    if res[0] == "exc":
        ob.add(line, "exc " + res[1])
    else:
        ob.add(line, mat_str(res[1][2]))


# --------------------------------------------------------------------------------------------------
# static hypergraph

def build_static(case):
    from hypergraphx import Hypergraph
    weights = [hgxv.dec_num(w) for w in case["weights"]]
    h = Hypergraph(weighted=case["weighted"])
    for x in case["pre_nodes"]:
        h.add_node(x)
    for e, w in zip(case["edges"], weights):
        if case["weighted"]:
            h.add_edge(tuple(e), float(w))
        else:
            h.add_edge(tuple(e))
    for x in case["nodes"]:
        h.add_node(x)
    return h


def adjacency_definition(nodes_by_row, edges):
    n = len(nodes_by_row)
    sets = [set(e) for e in edges]
    return [[0 if i == j else sum(1 for s in sets if nodes_by_row[i] in s and nodes_by_row[j] in s) for j in range(n)]
            for i in range(n)]


def check_static(ctx, drv, case):
    from hypergraphx.linalg import linalg as L
    kind = case["labels"]
    profile = case.get("profile", "full")
    st, h = guarded(build_static, case)
    if st == "exc":
        ctx.violation(case, "building the hypergraph through add_node/add_edge raised " + h)
        return
    nodes = list(h.get_nodes())
    edges = [tuple(e) for e in h.get_edges()]
    wts = [frac(w) for w in h.get_weights()]
    weighted = case["weighted"]
    N, E = len(nodes), len(edges)
    esets = [set(e) for e in edges]
    ob = Obs()
    ob.add("load " + hgxv.enc_list([to_nat(kind, x) for x in nodes]) + " "
           + hgxv.enc_lists([[to_nat(kind, x) for x in e] for e in edges]) + " " + hgxv.enc_list(wts), "ok")
    overlap = any(esets[a] & esets[b] for a in range(E) for b in range(a + 1, E))
    nontrivial = overlap and sorted(nodes, key=repr) != sorted(range(N), key=repr)
    key = repr((sorted(map(repr, nodes)), sorted((sorted(map(repr, e)), str(w)) for e, w in zip(edges, wts)), weighted, profile))
    ctx.count("static_" + kind)
    ctx.count("weighted" if weighted else "unweighted")

    def routes(fname, *a, **k):
        """the linalg function and, where it exists, the Hypergraph method"""
        out = [("linalg." + fname, guarded(getattr(L, fname), h, *a, **k))]
        if hasattr(h, fname):
            out.append(("Hypergraph." + fname, guarded(getattr(h, fname), *a, **k)))
        return out

    def with_mapping(res, what, want_nodes):
        """res = ('ok', (matrix, mapping)) -> (dense, mapping) or None after reporting"""
        if res[0] == "exc":
            ctx.violation(case, f"{what} raised {res[1]}")
            return None
        try:
            M, m = res[1]
            m = map_plain(m)
            d = dense(M)
        except Exception as e:  # noqa: BLE001
            ctx.violation(case, f"{what}: result is not (matrix, mapping): {type(e).__name__}")
            return None
        if not check_mapping(ctx, case, what, m, want_nodes):
            return None
        return d, m

    def same_without_mapping(what, d_with, f, *a, **k):
        """the call without return_mapping must return the same matrix alone"""
        res = guarded(f, *a, **k)
        if res[0] == "exc":
            ctx.violation(case, f"{what} without return_mapping raised {res[1]}")
            return
        dd = guarded(dense, res[1])
        if dd[0] == "exc" or dd[1] != d_with:
            ctx.violation(case, f"{what}: the matrix returned without return_mapping differs from the one returned with it")

    # ---- binary incidence, incidence, adjacency, dual (functions and methods) ----------------------------
    base_map = None
    if profile in ("full", "dual-only", "adjacency-only"):
        for what, res in routes("binary_incidence_matrix", return_mapping=True):
            r = with_mapping(res, what, nodes)
            if r is None:
                continue
            d, m = r
            base_map = base_map or m
            want = [[1 if m[i] in esets[j] else 0 for j in range(E)] for i in range(N)]
            expect_matrix(ctx, case, what, d, want, N, E)
            if what.startswith("linalg"):
                ob.add("mapping", model_map_str(kind, m))
                ob.add("bininc", mat_str(d[2]))
                same_without_mapping("linalg.binary_incidence_matrix", d, L.binary_incidence_matrix, h)
            else:
                same_without_mapping("Hypergraph.binary_incidence_matrix", d, getattr(h, "binary_incidence_matrix"))
    if profile == "full":
        for what, res in routes("incidence_matrix", return_mapping=True):
            r = with_mapping(res, what, nodes)
            if r is None:
                continue
            d, m = r
            want = [[wts[j] if m[i] in esets[j] else 0 for j in range(E)] for i in range(N)]
            expect_matrix(ctx, case, what, d, want, N, E)
            if what.startswith("linalg"):
                ob.add("inc", mat_str(d[2]))
                same_without_mapping("linalg.incidence_matrix", d, L.incidence_matrix, h)
            else:
                same_without_mapping("Hypergraph.incidence_matrix", d, getattr(h, "incidence_matrix"))
    if profile in ("full", "adjacency-only"):
        for what, res in routes("adjacency_matrix", return_mapping=True):
            r = with_mapping(res, what, nodes)
            if r is None:
                continue
            d, m = r
            want = adjacency_definition([m[i] for i in range(N)], edges)
            expect_matrix(ctx, case, what, d, want, N, N)
            if what.startswith("linalg"):
                ob.add("adj", mat_str(d[2]))
                same_without_mapping("linalg.adjacency_matrix", d, L.adjacency_matrix, h)
            else:
                same_without_mapping("Hypergraph.adjacency_matrix", d, getattr(h, "adjacency_matrix"))
    if profile in ("full", "dual-only"):
        for what, res in routes("dual_random_walk_adjacency", return_mapping=True):
            r = with_mapping(res, what, nodes)
            if r is None:
                continue
            d, m = r
            want = [[1 if esets[a] & esets[b] else 0 for b in range(E)] for a in range(E)]
            expect_matrix(ctx, case, what, d, want, E, E)
            if what.startswith("linalg"):
                ob.add("dual", mat_str(d[2]))
                same_without_mapping("linalg.dual_random_walk_adjacency", d, L.dual_random_walk_adjacency, h)
            else:
                same_without_mapping("Hypergraph.dual_random_walk_adjacency", d, getattr(h, "dual_random_walk_adjacency"))

    # ---- per-order variants ------------------------------------------------------------------------------
    if profile == "full":
        maxd = max(len(e) for e in edges) - 1 if edges else 0
        all_inc = guarded(L.incidence_matrices_all_orders, h, None, True, False)
        all_lap = guarded(L.laplacian_matrices_all_orders, h)
        for name, res in (("incidence_matrices_all_orders", all_inc), ("laplacian_matrices_all_orders", all_lap)):
            if res[0] == "exc":
                ctx.violation(case, f"{name} raised {res[1]}")
            elif sorted(res[1].keys()) != list(range(1, maxd + 1)):
                ctx.violation(case, f"{name}: keys {sorted(res[1].keys())} are not the orders 1..{maxd}")
        for d_ in range(0, maxd + 2):
            idx = [j for j in range(E) if len(edges[j]) == d_ + 1]
            ed = [edges[j] for j in idx]
            wd = [wts[j] for j in idx]
            ctx.count("order_present" if idx else "order_absent")
            for keep in (False, True):
                what = f"incidence_matrix_by_order(order={d_}, keep_isolated_nodes={keep})"
                res = guarded(L.incidence_matrix_by_order, h, d_, keep_isolated_nodes=keep, return_mapping=True)
                want_nodes = nodes if keep else sorted(set(x for e in ed for x in e), key=repr)
                r = with_mapping(res, what, want_nodes)
                if r is None:
                    ob.add(f"incord {d_} {int(keep)}", "exc")
                    continue
                dm, m = r
                want = [[wd[j] if m[i] in ed[j] else 0 for j in range(len(ed))] for i in range(len(want_nodes))]
                expect_matrix(ctx, case, what, dm, want, len(want_nodes), len(ed))
                ob.add(f"incord {d_} {int(keep)}", mat_str(dm[2]))
                ob.add(f"mapord {d_} {int(keep)}", model_map_str(kind, m))
                same_without_mapping(what, dm, L.incidence_matrix_by_order, h, d_, keep_isolated_nodes=keep)
                if keep and all_inc[0] == "ok" and d_ in all_inc[1]:
                    try:
                        same = dense(all_inc[1][d_])[2] == dm[2]
                    except Exception:  # noqa: BLE001
                        same = False
                    if not same:
                        ctx.violation(case, f"incidence_matrices_all_orders[{d_}] differs from incidence_matrix_by_order({d_})")
            # adjacency by order
            what = f"adjacency_matrix_by_order(order={d_})"
            res = guarded(L.adjacency_matrix_by_order, h, d_, return_mapping=True)
            r = with_mapping(res, what, nodes)
            A_def = None
            if r is None:
                ob.add(f"adjord {d_}", "exc")
            else:
                dm, m = r
                lab = [m[i] for i in range(N)]
                if not weighted:
                    A_def = adjacency_definition(lab, ed)
                    expect_matrix(ctx, case, what, dm, A_def, N, N)
                ob.add(f"adjord {d_}", mat_str(dm[2]))
                same_without_mapping(what, dm, L.adjacency_matrix_by_order, h, d_)
            # degree matrix and Laplacian: rows follow the node mapping of the incidence matrix
            if base_map is not None:
                lab = [base_map[i] for i in range(N)]
                deg = [sum(1 for e in ed if x in e) for x in lab]
                res = guarded(L.degree_matrix, h, d_, dict(base_map))
                what = f"degree_matrix(order={d_})"
                if res[0] == "exc":
                    ctx.violation(case, f"{what} raised {res[1]}")
                    ob.add(f"deg {d_}", "exc")
                else:
                    dd = guarded(dense, res[1])
                    if dd[0] == "exc":
                        ctx.violation(case, f"{what}: not a matrix")
                    else:
                        want = [[deg[i] if i == j else 0 for j in range(N)] for i in range(N)]
                        expect_matrix(ctx, case, what, dd[1], want, N, N)
                        obs_matrix(ob, f"deg {d_}", dd)
                for flag, q in ((False, "lap"), (True, "laps")):
                    what = f"laplacian_matrix_by_order(order={d_}, weighted={flag})"
                    res = guarded(L.laplacian_matrix_by_order, h, d_, flag)
                    if res[0] == "exc":
                        ctx.violation(case, f"{what} raised {res[1]}")
                        ob.add(f"{q} {d_}", "exc")
                        continue
                    dd = guarded(dense, res[1])
                    if dd[0] == "exc":
                        ctx.violation(case, f"{what}: not a matrix")
                        continue
                    obs_matrix(ob, f"{q} {d_}", dd)
                    if not weighted and not flag:
                        A_d = adjacency_definition(lab, ed)
                        want = [[d_ * deg[i] if i == j else -A_d[i][j] for j in range(N)] for i in range(N)]
                        if expect_matrix(ctx, case, what + " = d*D_d - A_d", dd[1], want, N, N):
                            rows = dd[1][2]
                            if any(rows[i][j] != rows[j][i] for i in range(N) for j in range(N)):
                                ctx.violation(case, what + " is not symmetric")
                            if any(sum(rows[i]) != 0 for i in range(N)):
                                ctx.violation(case, what + " has a non-zero row sum")
                        if all_lap[0] == "ok" and d_ in all_lap[1]:
                            try:
                                same = dense(all_lap[1][d_])[2] == dd[1][2]
                            except Exception:  # noqa: BLE001
                                same = False
                            if not same:
                                ctx.violation(case, f"laplacian_matrices_all_orders[{d_}] differs from laplacian_matrix_by_order({d_})")

    ctx.case(key, nontrivial, sample={k: v for k, v in case.items()} if len(edges) <= 12 else None)
    compare(ctx, drv, case, ob)


def compare(ctx, drv, case, ob):
    if drv is None:
        return
    ans = drv.batch(ob.lines)
    for ln, a, ex in zip(ob.lines, ans, ob.expect):
        if a != ex:
            ctx.disagree({**case, "line": ln}, f"model answers {a[:200]!r} to {ln[:60]!r}, implementation gives {ex[:200]!r}")
            break


# --------------------------------------------------------------------------------------------------
# adjacency tensor

def check_tensor(ctx, drv, case):
    import numpy as np
    from hypergraphx import Hypergraph
    from hypergraphx.linalg import linalg as L
    n, edges = case["n"], [tuple(e) for e in case["edges"]]
    st, h = guarded(lambda: Hypergraph(edge_list=edges))
    if st == "exc":
        ctx.violation(case, "Hypergraph(edge_list) raised " + h)
        return
    for x in range(n):
        h.add_node(x)
    hedges = [tuple(e) for e in h.get_edges()]
    sizes = set(len(e) for e in hedges)
    ob = Obs()
    ob.add("load " + hgxv.enc_list(list(h.get_nodes())) + " " + hgxv.enc_lists(hedges) + " " + hgxv.enc_list([1] * len(hedges)), "ok")
    res = guarded(L.adjacency_tensor, h)
    ctx.count("tensor_uniform" if len(sizes) == 1 else "tensor_nonuniform")
    if len(sizes) != 1:
        # the routine announces an exception for non-uniform input
        if res[0] != "exc":
            ctx.violation(case, "adjacency_tensor accepted a non-uniform hypergraph")
        ob.add(f"tensor {n}", "rej")
    else:
        k = sizes.pop()
        if res[0] == "exc":
            ctx.violation(case, "adjacency_tensor raised " + res[1])
            ob.add(f"tensor {n}", "exc")
        else:
            T = np.asarray(res[1])
            if T.shape != (n,) * k:
                ctx.violation(case, f"adjacency_tensor: shape {T.shape} instead of {(n,) * k}")
                ob.add(f"tensor {n}", "exc")
            else:
                esets = set(frozenset(e) for e in hedges)
                for p in itertools.product(range(n), repeat=k):
                    want = 1 if (len(set(p)) == k and frozenset(p) in esets) else 0
                    if frac(T[p]) != want:
                        ctx.violation(case, f"adjacency_tensor{list(p)} = {T[p]}, the indicator of the hyperedges gives {want}")
                        break
                ob.add(f"tensor {n}", hgxv.enc_list([frac(v) for v in T.flatten().tolist()]))
    ctx.case(repr(("tensor", n, sorted(map(sorted, hedges)))), len(hedges) >= 2, sample=case)
    compare(ctx, drv, case, ob)


# --------------------------------------------------------------------------------------------------
# hye_list_to_binary_incidence called directly (index hyperedges, optional shape)

def check_hye(ctx, drv, case):
    from hypergraphx.linalg import linalg as L
    hy = [tuple(e) for e in case["hyes"]]
    shape = tuple(case["shape"]) if case["shape"] is not None else None
    n = max([x for e in hy for x in e], default=-1) + 1
    res = guarded(L.hye_list_to_binary_incidence, hy, shape)
    ob = Obs()
    line = "hye " + (hgxv.enc_list(shape) if shape is not None else "-") + " " + hgxv.enc_lists(hy)
    too_small = shape is not None and (shape[0] < n or shape[1] < len(hy))
    ctx.count("hye_rejected" if too_small else "hye_accepted")
    if too_small:
        # the docstring announces that such a shape is refused
        if res[0] != "exc":
            ctx.violation(case, f"hye_list_to_binary_incidence accepted the shape {shape} although the hyperedges need {(n, len(hy))}")
        ob.add(line, "rej")
    elif res[0] == "exc":
        ctx.violation(case, "hye_list_to_binary_incidence raised " + res[1])
        ob.add(line, "exc")
    else:
        N, E = shape if shape is not None else (n, len(hy))
        dd = guarded(dense, res[1])
        if dd[0] == "exc":
            ctx.violation(case, "hye_list_to_binary_incidence: result is not a matrix")
            ob.add(line, "exc")
        else:
            want = [[1 if (j < len(hy) and i in hy[j]) else 0 for j in range(E)] for i in range(N)]
            expect_matrix(ctx, case, "hye_list_to_binary_incidence", dd[1], want, N, E)
            ob.add(line, mat_str(dd[1][2]))
    ctx.case(repr(("hye", hy, shape)), any(len(set(e)) < len(e) for e in hy) or shape is not None, sample=None)
    compare(ctx, drv, case, ob)


# --------------------------------------------------------------------------------------------------
# temporal hypergraph

def check_temporal(ctx, drv, case):
    from hypergraphx import TemporalHypergraph
    from hypergraphx.linalg import linalg as L
    kind = case["labels"]
    weights = [hgxv.dec_num(w) for w in case["weights"]]
    weighted = case["weighted"]

    def build():
        th = TemporalHypergraph(weighted=weighted)
        for x in case["iso"]:
            th.add_node(x)
        for (t, e), w in zip(case["recs"], weights):
            if weighted:
                th.add_edge(tuple(e), t, float(w))
            else:
                th.add_edge(tuple(e), t)
        return th
    st, th = guarded(build)
    if st == "exc":
        ctx.violation(case, "building the temporal hypergraph raised " + th)
        return
    recs = [(t, tuple(e)) for t, e in th.get_edges()]
    wts = [frac(th.get_weight(e, t)) for t, e in recs]
    times = sorted(set(t for t, _ in recs))
    ob = Obs()
    ob.add("tload " + hgxv.enc_list([t for t, _ in recs]) + " " + hgxv.enc_lists([[to_nat(kind, x) for x in e] for _, e in recs])
           + " " + hgxv.enc_list(wts), "ok")
    ob.add("ttimes", hgxv.enc_list(times))
    ctx.count("temporal_" + kind)

    def per_time(what, res, by_order=None):
        """res: ('ok', (dict t->matrix, dict t->mapping)); oracle + observations"""
        if res[0] == "exc":
            ctx.violation(case, f"{what} raised {res[1]}")
            return
        try:
            mats, maps = res[1]
            keys = sorted(mats.keys())
            mkeys = sorted(maps.keys())
        except Exception:  # noqa: BLE001
            ctx.violation(case, f"{what}: result is not (dict, dict)")
            return
        if keys != times or mkeys != times:
            ctx.violation(case, f"{what}: keys {keys} / {mkeys} are not the times {times} of the records")
            return
        for t in times:
            snap = [e for (tt, e) in recs if tt == t]
            snap_w = [w for (tt, e), w in zip(recs, wts) if tt == t]
            snap_nodes = sorted(set(x for e in snap for x in e), key=repr)
            m = map_plain(maps[t])
            if not check_mapping(ctx, case, f"{what}[t={t}]", m, snap_nodes):
                continue
            dd = guarded(dense, mats[t])
            if dd[0] == "exc":
                ctx.violation(case, f"{what}[t={t}]: not a matrix")
                continue
            n = len(snap_nodes)
            lab = [m[i] for i in range(n)]
            if by_order is None:
                want = adjacency_definition(lab, snap)
                expect_matrix(ctx, case, f"{what}[t={t}] (adjacency of the snapshot at {t})", dd[1], want, n, n)
                ob.add(f"tadj {t}", mat_str(dd[1][2]))
                ob.add(f"tmap {t}", model_map_str(kind, m))
            else:
                if not weighted:
                    want = adjacency_definition(lab, [e for e in snap if len(e) == by_order + 1])
                    expect_matrix(ctx, case, f"{what}[t={t}]", dd[1], want, n, n)
                ob.add(f"tadjord {by_order} {t}", mat_str(dd[1][2]))

    per_time("linalg.temporal_adjacency_matrix", guarded(L.temporal_adjacency_matrix, th, True))
    for what, f, args in (("temporal_adjacency_matrix", L.temporal_adjacency_matrix, ()),
                          ("TemporalHypergraph.temporal_adjacency_matrix", th.temporal_adjacency_matrix, ())):
        r1, r2 = guarded(f, *((th,) if f is L.temporal_adjacency_matrix else ()), True), guarded(f, *((th,) if f is L.temporal_adjacency_matrix else ()))
        if r1[0] == "ok":
            try:
                same = r2[0] == "ok" and sorted(r2[1].keys()) == sorted(r1[1][0].keys()) and all(
                    dense(r2[1][t]) == dense(r1[1][0][t]) for t in r2[1])
            except Exception:  # noqa: BLE001
                same = False
            if not same:
                ctx.violation(case, f"{what}: the result without return_mapping differs from the matrices returned with it")
    n_obs = len(ob.lines)
    per_time("TemporalHypergraph.temporal_adjacency_matrix", guarded(th.temporal_adjacency_matrix, True))
    del ob.lines[n_obs:], ob.expect[n_obs:]
    maxd = max((len(e) for _, e in recs), default=1) - 1
    for d_ in range(0, maxd + 2):
        per_time(f"temporal_adjacency_matrix_by_order(order={d_})",
                 guarded(L.temporal_adjacency_matrix_by_order, th, d_, True), by_order=d_)
    res = guarded(L.temporal_adjacency_matrices_all_orders, th, None, True)
    if res[0] == "exc":
        ctx.violation(case, "temporal_adjacency_matrices_all_orders raised " + res[1])
    else:
        try:
            mats, maps = res[1]
            if sorted(mats.keys()) != list(range(1, maxd + 1)):
                ctx.violation(case, f"temporal_adjacency_matrices_all_orders: keys {sorted(mats.keys())} are not the orders 1..{maxd}")
            else:
                n_obs = len(ob.lines)
                for d_ in range(1, maxd + 1):
                    per_time(f"temporal_adjacency_matrices_all_orders[{d_}]", ("ok", (mats[d_], maps[d_])), by_order=d_)
                del ob.lines[n_obs:], ob.expect[n_obs:]
        except Exception as e:  # noqa: BLE001
            ctx.violation(case, "temporal_adjacency_matrices_all_orders: malformed result " + type(e).__name__)
    multi = any(len([1 for (tt, _) in recs if tt == t]) >= 2 for t in times)
    ctx.case(repr(("temporal", sorted((t, sorted(map(repr, e)), str(w)) for (t, e), w in zip(recs, wts)))),
             multi and len(times) >= 2, sample=case)
    compare(ctx, drv, case, ob)


# --------------------------------------------------------------------------------------------------

def check_case(ctx, drv, case):
    old = signal.signal(signal.SIGALRM, _alarm)
    signal.alarm(20)
    try:
        if case["kind"] == "static":
            check_static(ctx, drv, case)
        elif case["kind"] == "tensor":
            check_tensor(ctx, drv, case)
        elif case["kind"] == "hye":
            check_hye(ctx, drv, case)
        else:
            check_temporal(ctx, drv, case)
    except CaseTimeout:
        ctx.violation(case, "the matrix routines did not return within 20 s on this input")
    finally:
        signal.alarm(0)
        signal.signal(signal.SIGALRM, old)


def run(ctx):
    drv = ctx.driver() if ctx.model_available else None
    for case in fixed_cases():
        check_case(ctx, drv, case)
    n = ctx.scale(400, 9000)
    for i in range(n):
        r = i % 12
        if r < 6:
            case = gen_static(ctx.rng)
        elif r < 8:
            case = gen_temporal(ctx.rng)
        elif r < 10:
            case = gen_tensor(ctx.rng)
        else:
            case = gen_hye(ctx.rng)
        check_case(ctx, drv, case)
        if ctx.too_many() or (ctx.time_left() is not None and ctx.time_left() < 8):
            break


def replay(ctx, case):
    drv = ctx.driver() if ctx.model_available else None
    case = dict(case)
    case.pop("line", None)
    check_case(ctx, drv, case)
