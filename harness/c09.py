"""C09 - matrix / tensor representations: correspondence of lean/Hgxv/Model/C09.lean with
hypergraphx.linalg.linalg (and the Hypergraph / TemporalHypergraph matrix methods) plus independent
property oracles (entries recomputed from the property's words) on the implementation."""
import itertools
import math
import signal
import warnings
import zlib
from fractions import Fraction

import hgxv

RULE = ("random Hypergraph instances: 2-9 nodes whose labels come from one universe of comparable labels per case: sparse "
        "integers incl. 0 and labels near 2^40 (30%), negative and positive integers (8%), strings incl. '', '0' and numeric-looking "
        "strings whose sorted order is not the numeric one ('10' < '9', '-1', '0.5'; 14%), 0..N-1 (8%), floats (quarters "
        "-3.0..10.0 incl. whole-number floats, floats one ulp apart, 5e-324, 1e300, negative ones; 9%), ints mixed with floats "
        "(9%), numeric labels that LOOK like 0..N-1 (minimum 0 and maximum N-1, or all inside [0, N), or the maximum only) but "
        "hold a non-integer (13%; ints next to floats or all floats), integers beyond 2^53 / 2^63 / 2^64 next to small and "
        "negative ones (9%), numbers handed over as numpy scalars of EVERY width (int8..int64, uint8..uint64, float16..float64, Python "
        "objects in between): neighbouring integers beyond 2^53 next to a float, unsigned 64-bit ids next to negative ones, ids that "
        "fit an int64 whose hyperedges hold np.uint64 next to np.int64 scalars (14%); 24% of the other cases hand every label over "
        "as a numpy scalar (default width or every width); every call gets a NEW equal label object; "
        "inserted in random order, built by add_node/add_edge calls (tuple or list hyperedges) or by the constructor, 0-2 isolated "
        "nodes, 1-10 distinct hyperedges of size 1-5 (every order 0..max+1 queried, present or absent; order as int or numpy "
        "integer, flags as bool / numpy bool / 0-1), weighted 45% with weights of one of three classes: k/4 > 0 floats, small "
        "dyadic ints and floats incl. 0 and negative ones, or extreme ones (0, 0.0, -0.0, 5e-324, 1e-200, 1e-160, 1e200, 0.1, "
        "1/3, 2^60, negative); every matrix routine of hypergraphx.linalg.linalg and the Hypergraph methods, both "
        "keep_isolated_nodes, dense matrices and mapping dicts compared entry by entry with the Lean model and with the "
        "definition; 45% of the static / temporal and 40% of the "
        "tensor cases continue with a HISTORY of 1-3 blocks of edits of the SAME object (swap a node / an isolated node / a "
        "hyperedge / several at once so that the numbers of nodes and hyperedges stay equal, re-add a removed node, "
        "set_weight / accumulate a weight, grow, shrink down to no hyperedge or no node, clear and rebuild, continue on a "
        "copy; temporal: swap a record within its time, move it to another time, interleave records of an old time, remove "
        "a node, drop a whole time) and after every block all routines are requested and compared again; after every round "
        "the returned dicts and matrices are overwritten in place and the hypergraph and one routine are read again; uniform "
        "hypergraphs on 0..N-1 for the tensor, half of them WEIGHTED (weights of the three classes, set_weight / accumulation in "
        "their histories), built by the constructor or by calls; 25-30% of the static / temporal cases insert a hyperedge / record a "
        "second time in another node order; the *_all_orders helpers with every flag combination, compute_multiorder_laplacian "
        "without degree normalisation; random TemporalHypergraph records over sparse times (up to 2^64+1), built by add_edge "
        "calls, the constructor (pairs or two lists) or add_edges; "
        "hye_list_to_binary_incidence called directly on index hyperedges (tuples, lists, frozensets, numpy arrays) with repeated "
        "nodes and absent / larger / too small shapes; fixed cases: 256 and 300 hyperedges sharing two nodes (adjacency), two "
        "hyperedges sharing 256 / 300 nodes (dual), and one small hypergraph per label type / weight class (bool labels only "
        "there). A case is distinct by its canonical node and hyperedge lists and its history; non-trivial when the labels are "
        "not 0..N-1 and at least one pair of hyperedges overlaps")
ASSUMPTIONS = ["hyperedges are non-empty duplicate-free node tuples, distinct as sets (what Hypergraph stores)",
               "labels of one hypergraph are mutually comparable scalars that LabelEncoder accepts: ints, floats (no NaN / inf), "
               "ints with floats, strings, bools - never strings with numbers, never bools with numbers (True == 1), no tuples; "
               "they reach the model as their rank in a fixed sorted universe / shifted / times 4 (order isomorphisms; Lean "
               "C09_relabel_invariant: the model's answers depend on the order of the labels only)",
               "mapping values must equal the labels and have their Python type; when a hypergraph mixes ints and floats "
               "numpy returns all labels as floats of equal value, which is accepted",
               "histories consist of edits the container accepts (existing nodes / hyperedges are removed, keep_edges=True never "
               "empties a hyperedge); what the matrices are compared with is read back from the object after every block",
               "a hypergraph without any hyperedge: the *_all_orders helpers are not requested (max_order() has no value there)",
               "weights are finite numbers, ints within 2^53; when all of them are multiples of 1/4 up to 64 binary64 sums and "
               "products are exact and every routine is compared with the model; otherwise the routines that multiply two "
               "weights (weighted per-order adjacency / Laplacian, about which the property says nothing) are run and checked "
               "for shape and mapping only, all others are compared exactly",
               "adjacency_tensor: uniform hypergraph whose nodes are exactly 0..N-1 (ints or numpy ints, as the routine demands); "
               "weighted or not - the tensor is the 0/1 indicator of the hyperedges either way (the routine's docstring)",
               "numpy scalars as labels: a value is handed over in a numpy type only if that type holds it exactly; numpy compares "
               "an integer scalar with a float scalar in binary64, so no float label lies within rounding distance of an integer "
               "label beyond 2^53 when both are numpy scalars; whole numbers may come back from the mapping as floats of equal value "
               "(numpy makes float64 of uint64 next to signed integers)",
               "compute_multiorder_laplacian(sigmas, order_weighted=False, degree_weighted=False) is read as the sum of sigma_d "
               "times the order-d Laplacian (its code; compared on exact weights only)"]
TRUSTED = ["sklearn LabelEncoder: classes_ = sorted distinct labels, transform = position in classes_ (validated on every case)",
           "scipy.sparse products/sums are exact on the generated dyadic inputs; numpy int64 does not overflow on them",
           "itertools.permutations yields exactly the orderings of its argument"]
BUDGET_S = {"quick": 50, "thorough": 800}

STR_UNIVERSE = sorted(set([chr(97 + i) * k for i in range(12) for k in (1, 2)]
                          + ["E1", "N0", "Z", "A10", "A9", "10", "9", "", "0", "2", "-1", "0.5", "1e3", "B", " a", "a b", "\u00e9", "\u00c9"]))

# --- numeric label universes of every comparable TYPE (strengthening round c) ---------------------
GRID = range(-12, 41)                                     # quarters -3.0 .. 10.0


def _mix_typed(k):
    """value k/4 of the mixed universe: whole numbers are ints (floats when = 1 mod 3), everything else a float"""
    if k % 4 == 0:
        w = k // 4
        return float(w) if w % 3 == 1 else w
    return k / 4


FLOAT_UNIVERSE = sorted(set([k / 4 for k in GRID] + [0.1, 0.10000000000000002, 1 / 3, 2.0 ** 40 + 0.5, 2.0 ** 53, 2.0 ** 60,
                                                       1e300, -1e300, 5e-324, -5e-324, 1e-200, -1e-200, 123456789.125]))
MIX_UNIVERSE = sorted([_mix_typed(k) for k in GRID] + [0.1, 1 / 3, 2 ** 40, 2.0 ** 40 + 0.5, 2 ** 53 + 1, -(2 ** 53) - 1, 2.0 ** 53,
                                                        2 ** 63 + 1, 1e300, -1e300, 5e-324])
BIG_UNIVERSE = sorted(list(range(0, 24)) + [2 ** 31, 2 ** 32 + 1, 2 ** 53, 2 ** 53 + 1, 2 ** 62, 2 ** 63 - 5, 2 ** 63 - 1, 2 ** 63, 2 ** 63 + 1,
                                            2 ** 64 - 1, 2 ** 64, 2 ** 64 + 3, 2 ** 70, 2 ** 70 + 1,
                                            -1, -5, -(2 ** 31) - 1, -(2 ** 53) - 1, -(2 ** 63), -(2 ** 63) - 1, -(2 ** 70)])
# numbers that are handed over as numpy scalars of every width: small ints, non-integer floats, clusters of neighbouring
# integers beyond 2**53 (int64 / uint64 range and beyond); no float lies within rounding distance of a large integer and
# no float equals an int (numpy compares an integer scalar with a float scalar in binary64)
NPMIX_SMALL = list(range(-3, 13)) + [100, 127, 128, 255, 256, -128, -129, 32767, 32768, 65535, 65536, 2 ** 31 - 1, 2 ** 31, 2 ** 32 - 1, 2 ** 32]
NPMIX_FLOATS = [0.5, 0.25, 1.5, 2.75, -2.25, -0.5, 7.5, 0.1, 1 / 3, 1e300, -1e300, 5e-324, 2.0 ** 40 + 0.5, 65504.5, 3.0e38, 1e-8]
NPMIX_BIG = sorted([2 ** 53 + 1, 2 ** 53 + 2, 2 ** 53 + 3, 2 ** 53 + 5, 2 ** 60 + 1, 2 ** 60 + 3, 2 ** 62 + 1, 2 ** 63 - 3, 2 ** 63 - 1, 2 ** 63,
                    2 ** 63 + 1, 2 ** 63 + 3, 2 ** 64 - 3, 2 ** 64 - 1, 2 ** 64 + 1, 2 ** 70 + 1,
                    -(2 ** 53) - 1, -(2 ** 53) - 3, -(2 ** 60) - 1, -(2 ** 63) + 1, -(2 ** 63), -(2 ** 63) - 1])
NPMIX_UNIVERSE = sorted(NPMIX_SMALL + NPMIX_FLOATS + NPMIX_BIG)
assert len(set(NPMIX_UNIVERSE)) == len(NPMIX_UNIVERSE)
RANK = {"npmix": {x: i for i, x in enumerate(NPMIX_UNIVERSE)}, "str": {x: i for i, x in enumerate(STR_UNIVERSE)}, "float": {x: i for i, x in enumerate(FLOAT_UNIVERSE)},
        "mix": {x: i for i, x in enumerate(MIX_UNIVERSE)}, "big": {x: i for i, x in enumerate(BIG_UNIVERSE)}}
RANK["npi64"] = RANK["npmix"]
assert all(len(RANK[k]) == len(u) for k, u in (("float", FLOAT_UNIVERSE), ("mix", MIX_UNIVERSE), ("big", BIG_UNIVERSE)))


def crc(*parts):
    return zlib.crc32("|".join(map(str, parts)).encode())


def near_typed(k, allfloat):
    return k / 4 if (allfloat or k % 4) else k // 4


class CaseTimeout(Exception):
    pass


def _alarm(signum, frame):
    raise CaseTimeout()


def guarded(f, *a, **k):
    """run an implementation call; any exception is an observation"""
    try:
        with warnings.catch_warnings():
            warnings.simplefilter("ignore")
            return ("ok", f(*a, **k))
    except CaseTimeout:
        raise
    except Exception as e:  # noqa: BLE001
        return ("exc", type(e).__name__ + ": " + str(e)[:80])


def plain(x):
    """numpy scalar -> python value"""
    return x.item() if hasattr(x, "item") else x


def frac(x):
    x = plain(x)
    if isinstance(x, bool):
        return Fraction(int(x))
    if isinstance(x, int):
        return Fraction(x)
    if isinstance(x, float):
        if math.isnan(x) or math.isinf(x):
            return x
        return Fraction(x)
    return x


def dense(M):
    """sparse / ndarray -> (nrows, ncols, list of rows of Fractions)"""
    import numpy as np
    D = M.todense() if hasattr(M, "todense") else M
    D = np.asarray(D)
    if D.ndim != 2:
        raise ValueError("not a matrix: ndim=%d" % D.ndim)
    return D.shape[0], D.shape[1], [[frac(v) for v in row] for row in D.tolist()]


def mat_str(rows):
    try:
        return hgxv.enc_lists(rows)
    except (OverflowError, ValueError, TypeError):        # inf / nan entries: the model never answers that
        return "non-finite:" + repr(rows)[:120].replace(" ", "")


def map_plain(m):
    return {plain(k): plain(v) for k, v in m.items()}


# --------------------------------------------------------------------------------------------------
# generators

BIG = 2 ** 40


def universe(kind, n):
    """the labels a hypergraph of this kind may ever hold (initial labels and labels added by a history)"""
    if kind == "int":
        return list(range(0, 100)) + [BIG, BIG + 1, BIG + 7]
    if kind == "neg":
        return list(range(-40, 41))
    if kind == "str":
        return list(STR_UNIVERSE)
    if kind == "float":
        return list(FLOAT_UNIVERSE)
    if kind == "mix":
        return list(MIX_UNIVERSE)
    if kind == "big":
        return list(BIG_UNIVERSE)
    if kind == "npmix":
        return list(NPMIX_UNIVERSE)
    if kind == "npi64":                                   # the integers of that universe that an int64 holds
        return [x for x in NPMIX_UNIVERSE if isinstance(x, int) and -2 ** 63 <= x < 2 ** 63]
    if kind in ("near", "nearf"):
        return [near_typed(k, kind == "nearf") for k in range(0, 4 * (n + 3) + 1)]
    if kind == "bool":
        return [False, True]
    return list(range(n + 8))                             # "range": the initial labels are 0..n-1


def near_labels(rng, n, allfloat):
    """numeric labels that LOOK like 0..n-1 (minimum 0 and maximum n-1, or all inside [0, n)) but are not: at least one
    of them is not a whole number, so its value / its truncation is not its rank"""
    r = rng.random()
    if r < 0.6:                                           # min 0, max n-1, n-2 points in between
        while True:
            inner = rng.sample(range(1, 4 * (n - 1)), n - 2)
            if any(k % 4 for k in inner):
                break
        ks = [0, 4 * (n - 1)] + inner
    elif r < 0.8:                                         # all inside [0, n): truncations collide or skip
        while True:
            ks = rng.sample(range(0, 4 * n), n)
            if any(k % 4 for k in ks):
                break
    else:                                                 # only the maximum looks right
        ks = [4 * (n - 1)] + rng.sample(range(1, 4 * (n - 1)), n - 1)
    return [near_typed(k, allfloat) for k in ks]


def npmix_labels(rng, n):
    """labels for the numpy-scalar universe: neighbouring integers beyond 2**53 next to a float / unsigned 64-bit integers
    next to negative ones (numpy makes float64 of both) / large integers alone / small numbers of every width"""
    r = rng.random()
    small = list(NPMIX_SMALL)
    if r < 0.45:
        k = rng.randint(1, max(1, min(3, n - 1)))
        i = rng.randrange(len(NPMIX_BIG))
        out = (NPMIX_BIG + NPMIX_BIG)[i:i + k] if rng.random() < 0.7 else rng.sample(NPMIX_BIG, k)
        out += rng.sample(NPMIX_FLOATS, min(n - len(out), rng.randint(1, 2)))
    elif r < 0.65:
        out = rng.sample([x for x in NPMIX_BIG if 2 ** 63 <= x < 2 ** 64], rng.randint(1, min(2, n - 1)))
        out += rng.sample([x for x in NPMIX_UNIVERSE if isinstance(x, int) and x < 0], 1)
    elif r < 0.8:
        out = rng.sample(NPMIX_BIG, min(n, rng.randint(1, 4)))
    else:
        out = rng.sample(NPMIX_FLOATS, min(n, rng.randint(0, 3)))
    out = out[:n]
    out += rng.sample([x for x in small if x not in out], n - len(out))
    return out


def gen_labels(rng, n):
    r = rng.random()
    if r < 0.09:
        kind = "npmix"
        labels = npmix_labels(rng, n)
    elif r < 0.14:
        # 64-bit ids beyond 2**53 that all fit an int64 (the node objects are signed; hyperedges hold unsigned ones too)
        kind = "npi64"
        big = [x for x in NPMIX_BIG if -2 ** 63 <= x < 2 ** 63]
        labels = rng.sample(big, min(n - 1, rng.randint(1, 3)))
        labels += rng.sample(NPMIX_SMALL, n - len(labels))
    elif r < 0.30:
        kind = "int"
        labels = rng.sample(universe(kind, n), n) if rng.random() < 0.6 else [10 * (i + 1) for i in range(n)]
    elif r < 0.38:
        kind = "neg"
        labels = rng.sample(universe(kind, n), n)
    elif r < 0.52:
        kind = "str"
        labels = rng.sample(STR_UNIVERSE, n)
    elif r < 0.60:
        kind = "range"
        labels = list(range(n))
    elif r < 0.69:
        kind = "float"
        labels = rng.sample(FLOAT_UNIVERSE, n)
    elif r < 0.78:
        kind = "mix"
        labels = rng.sample(MIX_UNIVERSE, n)
    elif r < 0.91 and n >= 3:
        kind = "nearf" if rng.random() < 0.4 else "near"
        labels = near_labels(rng, n, kind == "nearf")
    else:
        kind = "big"
        labels = rng.sample(BIG_UNIVERSE, n)
    rng.shuffle(labels)
    return kind, labels


NP_KINDS = ("int", "neg", "str", "range", "float", "mix", "near", "nearf", "big", "npmix", "npi64")
NP_INTS = ("int8", "int16", "int32", "int64", "uint8", "uint16", "uint32", "uint64")
NP_FLOATS = ("float16", "float32", "float64")


def np_mode(rng, kind):
    """how a case hands its labels (and weights) over: False = Python objects, True = the numpy scalar of the default
    width (int64 / float64 / str_), "w" = numpy scalars of EVERY width that holds the value exactly (int8..int64,
    uint8..uint64, float16..float64, chosen per use), Python objects in between, "ui" = np.int64 / np.float64 nodes whose
    hyperedges hold np.uint64 next to np.int64 scalars"""
    r = rng.random()
    if kind == "npmix":
        return "w" if r < 0.75 else "ui"
    if kind == "npi64":
        return "ui" if r < 0.7 else "w"
    if kind not in NP_KINDS:
        return False
    if r >= 0.24 and kind in ("big", "int", "range", "mix"):
        return "ui" if r < 0.3 else False                 # unsigned and signed 64-bit scalars inside one hyperedge
    return "w" if r < 0.12 else True if r < 0.24 else False


def fresh(x, npm=False, kind=None, salt=0):
    """a NEW object equal to the label `x` (labels are objects: small ints and literals are shared, everything else is
    rebuilt for every call); `npm`: as a numpy scalar of its type where one exists (True: default width, "w": any width
    that holds the value exactly, or the Python object, chosen by a checksum of the value and `salt`). Under numpy's
    comparison an integer scalar beyond 2**53 EQUALS the neighbouring float (np.int64(2**53+1) == np.float64(2.0**53)),
    so in the universe `mix`, which holds both, numbers of that size stay Python objects"""
    import numpy as np
    if isinstance(x, bool):
        return np.bool_(x) if npm else x
    if isinstance(x, int):
        v = int(str(x))
        if not npm or (kind == "mix" and abs(v) >= 2 ** 53):
            return v
        if npm == "w":
            cand = [t for t in NP_INTS if np.iinfo(t).min <= v <= np.iinfo(t).max]
            c = crc("w", v, salt) % (len(cand) + 1)
            return getattr(np, cand[c])(v) if c < len(cand) else v
        return np.int64(v) if -2 ** 63 <= v < 2 ** 63 else np.uint64(v) if 0 <= v < 2 ** 64 else v
    if isinstance(x, float):
        v = float.fromhex(x.hex())
        if not npm or (kind == "mix" and abs(v) >= 2.0 ** 53):
            return v
        if npm == "w":
            with warnings.catch_warnings():
                warnings.simplefilter("ignore")
                with np.errstate(all="ignore"):
                    cand = [t for t in NP_FLOATS if float(getattr(np, t)(v)) == v]
            c = crc("w", v.hex(), salt) % (len(cand) + 1)
            return getattr(np, cand[c])(v) if c < len(cand) else v
        return np.float64(v)
    if isinstance(x, str):
        v = "".join(list(x)) if len(x) > 1 else x
        if npm == "w":
            return np.str_(v) if crc("w", v, salt) % 2 else v
        return np.str_(v) if npm else v
    return x


# weights of every magnitude and sign that add_edge / set_weight accept
W_EXT = [0.0, 0, -0.0, 1e-200, 5e-324, 1e-160, 1e-320, -1e-200, 1e200, -1e200, 0.1, 1 / 3, 2.0 ** 60, 2 ** 40, 3, -2, 0.75]


def gen_weight(rng, mode):
    """one hyperedge weight (a Python int or float)"""
    if mode == "pos":                                     # the weights of the earlier rounds: k/4 > 0 as floats
        return rng.randint(1, 16) / 4
    if mode == "dy":                                      # small dyadic weights incl. 0 and negative ones, ints and floats
        k = 0 if rng.random() < 0.2 else rng.randint(-8, 16)
        return k // 4 if (k % 4 == 0 and rng.random() < 0.5) else k / 4
    return rng.choice(W_EXT) if rng.random() < 0.7 else rng.randint(-8, 16) / 4


def gen_wmode(rng):
    r = rng.random()
    return "pos" if r < 0.35 else "dy" if r < 0.7 else "ext"


def wnum(x):
    """a weight as stored in a case (a number; cases of earlier rounds hold `p/q` strings)"""
    return float(hgxv.dec_num(x)) if isinstance(x, str) else x


def ekey(e):
    return tuple(sorted(e))


class Shadow:
    """nodes / hyperedges a Hypergraph holds after a sequence of edits - used only to GENERATE valid edits
    (what the matrices are compared with is always read back from the real object)"""

    def __init__(self, weighted, nodes=(), edges=(), wmode="pos"):
        self.weighted = weighted
        self.wmode = wmode
        self.nodes = []
        self.edges = {}
        for x in nodes:
            self._node(x)
        for e in edges:
            self._edge(e)

    def _node(self, x):
        if x not in self.nodes:
            self.nodes.append(x)

    def _edge(self, e):
        for x in ekey(e):
            self._node(x)
        self.edges[ekey(e)] = None

    def _rm_node(self, x, keep):
        for e in [e for e in self.edges if x in e]:
            del self.edges[e]
            if keep:
                self._edge([y for y in e if y != x])
        self.nodes.remove(x)

    def incident(self, x):
        return [e for e in self.edges if x in e]

    def isolated(self):
        return [x for x in self.nodes if not self.incident(x)]

    def can_keep(self, x):
        return (x,) not in self.edges                      # keep_edges=True would leave an empty hyperedge

    def apply(self, op):
        k = op[0]
        if k == "add_node":
            self._node(op[1])
        elif k == "add_nodes":
            for x in op[1]:
                self._node(x)
        elif k == "remove_node":
            self._rm_node(op[1], op[2])
        elif k == "remove_nodes":
            for x in op[1]:
                self._rm_node(x, op[2])
        elif k == "add_edge":
            self._edge(op[1])
        elif k == "add_edges":
            for e in op[1]:
                self._edge(e)
        elif k == "remove_edge":
            del self.edges[ekey(op[1])]
        elif k == "remove_edges":
            for e in op[1]:
                del self.edges[ekey(e)]
        elif k == "clear":
            self.nodes, self.edges = [], {}
        return op


STAGE_TYPES = ["swap_node", "swap_node", "swap_node_edge", "swap_iso", "swap_edge", "swap_edge", "reweight", "readd",
               "grow", "shrink", "clear_rebuild", "copy_swap", "batch_swap"]


def gen_stage(rng, sh, kind, n0):
    """one block of edits of the SAME object between two rounds of matrix requests; most blocks leave the cheap
    signatures (number of nodes, number of hyperedges) as they were while the content changes"""
    univ = universe(kind, n0)

    def fresh():
        return [x for x in univ if x not in sh.nodes]

    def wt():
        return gen_weight(rng, sh.wmode) if sh.weighted else None

    def new_edge(pool, size=None, must=None):
        for _ in range(10):
            k = size if size is not None else rng.choice([1, 2, 2, 3, 3, 4])
            k = max(1, min(k, len(pool)))
            e = rng.sample(pool, k)
            if must is not None and must not in e:
                e[0] = must
                if len(set(e)) < len(e):
                    continue
            if ekey(e) not in sh.edges:
                return e
        return None

    ops = []

    def do(*op):
        ops.append(sh.apply(list(op)))

    def remove_some_node(x=None):
        x = rng.choice(sh.nodes) if x is None else x
        keep = rng.random() < 0.4 and sh.can_keep(x)
        do("remove_node", x, keep)
        return x

    typ = rng.choice(STAGE_TYPES)
    if typ == "copy_swap":
        do("copy")
    if typ == "reweight" and not (sh.weighted and sh.edges):
        typ = "swap_edge"
    if typ == "swap_iso" and not (sh.isolated() and fresh()):
        typ = "swap_node"
    if typ == "swap_edge" and not sh.edges:
        typ = "grow"
    if typ in ("swap_node", "swap_node_edge", "copy_swap", "batch_swap", "readd", "shrink") and not sh.nodes:
        typ = "grow"
    if typ in ("swap_node", "swap_node_edge", "copy_swap", "batch_swap", "swap_iso", "grow") and not fresh():
        typ = "shrink" if sh.nodes else "noop"

    if typ in ("swap_node", "copy_swap"):
        y = rng.choice(fresh())
        if rng.random() < 0.5:
            remove_some_node()
            do("add_node", y)
        else:
            do("add_node", y)
            remove_some_node(rng.choice([x for x in sh.nodes if x != y]))
    elif typ == "swap_node_edge":
        y = rng.choice(fresh())
        remove_some_node()
        e = new_edge(sh.nodes + [y], must=y)
        if e is None:
            do("add_node", y)
        else:
            do("add_edge", e, wt())
    elif typ == "swap_iso":
        y = rng.choice(fresh())
        do("remove_node", rng.choice(sh.isolated()), rng.random() < 0.5)
        do("add_node", y)
    elif typ == "batch_swap":
        k = rng.randint(1, min(3, len(sh.nodes), len(fresh())))
        out = rng.sample(sh.nodes, k)
        keep = rng.random() < 0.3 and all(sh.can_keep(x) for x in out) and not any(
            set(e) <= set(out) for e in sh.edges)
        ins = rng.sample(fresh(), k)
        do("remove_nodes", out, keep)
        do("add_nodes", ins)
    elif typ == "swap_edge":
        e = rng.choice(list(sh.edges))
        if rng.random() < 0.5:
            do("remove_edge", list(e))
            f = new_edge(sh.nodes, size=len(e) if rng.random() < 0.6 else None)
            if f is not None and ekey(f) != e:
                do("add_edge", f, wt())
        else:
            k = rng.randint(1, min(3, len(sh.edges)))
            out = rng.sample(list(sh.edges), k)
            do("remove_edges", [list(x) for x in out])
            ins = []
            for x in out:
                f = new_edge(sh.nodes, size=len(x) if rng.random() < 0.6 else None)
                if f is not None and ekey(f) not in [ekey(g) for g in ins]:
                    ins.append(f)
            if ins:
                do("add_edges", ins, [wt() for _ in ins] if sh.weighted else None)
    elif typ == "reweight":
        e = list(rng.choice(list(sh.edges)))
        do(rng.choice(["set_weight", "add_edge"]), e, wt())
    elif typ == "readd":
        x = remove_some_node()
        do("add_node", x)
    elif typ == "grow":
        r = rng.random()
        fr = fresh()
        if r < 0.3 or not sh.nodes:
            do("add_nodes", rng.sample(fr, min(len(fr), rng.randint(1, 2))))
        elif r < 0.5:
            do("add_node", rng.choice(fr))
        else:
            y = rng.choice(fr)
            e = new_edge(sh.nodes + [y], must=y if rng.random() < 0.6 else None)
            if e is not None:
                do("add_edge", e, wt())
    elif typ == "shrink":
        r = rng.random()
        if r < 0.4 and sh.edges:
            do("remove_edge", list(rng.choice(list(sh.edges))))
        elif r < 0.55 and len(sh.nodes) >= 2:
            do("remove_nodes", rng.sample(sh.nodes, 2), False)
        else:
            remove_some_node()
    elif typ == "clear_rebuild":
        n, m = len(sh.nodes), len(sh.edges)
        sizes = [len(e) for e in sh.edges]
        do("clear")
        if rng.random() < 0.3:
            return "clear_only", ops                      # the next requests go to an object without nodes and hyperedges
        if n:
            do("add_nodes", rng.sample(univ, min(n, len(univ))))
        ins = []
        for k in sizes:
            f = new_edge(sh.nodes, size=k)
            if f is not None and ekey(f) not in [ekey(g) for g in ins]:
                ins.append(f)
        if ins:
            do("add_edges", ins, [wt() for _ in ins] if sh.weighted else None)
    return typ, ops


def gen_history(rng, sh, kind, n0):
    hist = []
    for _ in range(rng.choice([1, 1, 2, 2, 3])):
        typ, ops = gen_stage(rng, sh, kind, n0)
        if ops:
            hist.append({"type": typ, "ops": ops})
    return hist


def gen_static(rng, with_history=None):
    n = rng.randint(2, 9)
    kind, labels = gen_labels(rng, n)
    n_iso = rng.choice([0, 0, 1, 1, 2]) if n > 2 else 0
    active = labels[: n - n_iso]
    edges, seen = [], set()
    target = rng.randint(1, 10)
    sizes = rng.choice([[1, 2, 2, 3, 3, 4, 5], [2, 3], [2], [3], [1, 2, 3, 4, 5, 6], [2, 2, 3]])
    for _ in range(target * 3):
        if len(edges) >= target:
            break
        k = min(len(active), rng.choice(sizes))
        e = tuple(rng.sample(active, k))
        key = frozenset(e)
        if key in seen:
            continue
        seen.add(key)
        edges.append(e)
    weighted = rng.random() < 0.45
    wmode = gen_wmode(rng)
    weights = [gen_weight(rng, wmode) for _ in edges] if weighted else [1] * len(edges)
    order = list(labels)
    rng.shuffle(order)
    pre = [x for x in order if rng.random() < 0.5]      # nodes added before the hyperedges, in random order
    case = {"kind": "static", "labels": kind, "pre_nodes": pre, "nodes": order, "edges": [list(e) for e in edges],
            "weighted": weighted, "weights": weights, "np": np_mode(rng, kind),
            "build": rng.choice(["calls", "calls", "ctor"])}
    if rng.random() < 0.25:
        # hyperedges that are inserted a second time (other node order): nothing changes in an unweighted hypergraph,
        # the weight accumulates in a weighted one
        case["dups"] = [[j, rng.randrange(1 << 16), gen_weight(rng, wmode) if weighted else None]
                        for j in rng.sample(range(len(edges)), rng.randint(1, min(2, len(edges))))]
    if with_history if with_history is not None else rng.random() < 0.45:
        sh = Shadow(weighted, pre, edges, wmode)
        for x in order:
            sh._node(x)
        case["history"] = gen_history(rng, sh, kind, n)
    return case


def gen_tensor(rng):
    n = rng.randint(2, 5)
    k = rng.randint(1, min(3, n))
    allk = list(itertools.combinations(range(n), k))
    rng.shuffle(allk)
    m = rng.randint(1, min(5, len(allk)))
    edges = [list(rng.sample(e, len(e))) for e in allk[:m]]
    if rng.random() < 0.2 and n >= 3 and k < n:
        edges.append(list(range(k + 1)))                 # non-uniform: the routine must reject
    # the tensor is the INDICATOR of the hyperedges: half of the cases carry hyperedge weights (of every class, most of
    # them different from 1, also 0 and negative ones), which must not show
    weighted = rng.random() < 0.5
    wmode = gen_wmode(rng)
    r = rng.random()
    case = {"kind": "tensor", "n": n, "edges": edges, "np": "w" if r < 0.12 else r < 0.24,
            "weighted": weighted, "weights": [gen_weight(rng, wmode) for _ in edges] if weighted else [1] * len(edges),
            "build": rng.choice(["ctor", "calls"]), "pre_nodes": [x for x in range(n) if rng.random() < 0.3]}
    if rng.random() < 0.4:
        # edits of the same object that keep the node set 0..n-1 and at least one hyperedge
        sh = Shadow(weighted, range(n), edges, wmode)

        def wt():
            return gen_weight(rng, wmode) if weighted else None
        hist = []
        for _ in range(rng.randint(1, 2)):
            ops = []
            r = rng.random()
            if weighted and r < 0.3:
                ops.append(sh.apply([rng.choice(["set_weight", "add_edge"]), list(rng.choice(list(sh.edges))), wt()]))
            elif r < 0.6 and len(sh.edges) >= 1:
                e = rng.choice(list(sh.edges))
                cand = [f for f in itertools.combinations(range(n), len(e)) if f not in sh.edges]
                if cand:
                    f = list(rng.choice(cand))
                    rng.shuffle(f)
                    ops.append(sh.apply(["remove_edge", list(e)]))
                    ops.append(sh.apply(["add_edge", f, wt()]))
            elif r < 0.8 and len(sh.edges) >= 2:
                ops.append(sh.apply(["remove_edge", list(rng.choice(list(sh.edges)))]))
            else:
                cand = [f for kk in range(1, min(3, n) + 1) for f in itertools.combinations(range(n), kk) if f not in sh.edges]
                if cand:
                    ops.append(sh.apply(["add_edge", list(rng.choice(cand)), wt()]))
            if ops:
                hist.append({"type": "tensor_edit", "ops": ops})
        case["history"] = hist
    return case


def gen_hye(rng):
    hy = [[rng.randint(0, 6) for _ in range(rng.randint(0, 4))] for _ in range(rng.randint(0, 5))]
    n = max([x for e in hy for x in e], default=-1) + 1
    r = rng.random()
    if r < 0.3:
        shape = None
    elif r < 0.7:
        shape = [n + rng.randint(0, 2), len(hy) + rng.randint(0, 2)]
    else:
        shape = [max(0, n + rng.randint(-2, 1)), max(0, len(hy) + rng.randint(-2, 1))]
    return {"kind": "hye", "hyes": hy, "shape": shape, "cont": rng.randrange(1 << 30)}


ALL_TIMES = [0, 1, 2, 3, 5, 8, 13, 40, 2 ** 33 + 1, 2 ** 64 + 1]


def gen_temporal(rng):
    n = rng.randint(2, 8)
    kind, labels = gen_labels(rng, n)
    times = rng.sample(ALL_TIMES, rng.randint(1, 4))
    recs, seen = [], set()
    for _ in range(rng.randint(1, 12)):
        k = min(n, rng.choice([1, 2, 2, 3, 3, 4]))
        e = tuple(rng.sample(labels, k))
        t = rng.choice(times)
        if (t, frozenset(e)) in seen:
            continue
        seen.add((t, frozenset(e)))
        recs.append((t, e))
    weighted = rng.random() < 0.35
    wmode = gen_wmode(rng)
    weights = [gen_weight(rng, wmode) for _ in recs] if weighted else [1] * len(recs)
    iso = [x for x in labels if rng.random() < 0.1]
    case = {"kind": "temporal", "labels": kind, "iso": iso, "recs": [[t, list(e)] for t, e in recs], "weighted": weighted,
            "weights": weights, "np": np_mode(rng, kind), "build": rng.choice(["calls", "calls", "ctor", "batch"])}
    if rng.random() < 0.3:
        # contact data lists a record twice (other node order, later in the list): an unweighted temporal hypergraph keeps
        # one copy, a weighted one accumulates the weight
        case["dups"] = [[j, rng.randrange(1 << 16), gen_weight(rng, wmode) if weighted else None]
                        for j in rng.sample(range(len(recs)), rng.randint(1, min(2, len(recs))))]
    if rng.random() < 0.45:
        case["history"] = gen_temporal_history(rng, kind, n, labels, weighted, recs, iso, wmode)
    return case


def gen_temporal_history(rng, kind, n, labels, weighted, recs, iso, wmode="pos"):
    """edits of the same TemporalHypergraph between two rounds of requests (at least one record always remains)"""
    cur = {(t, ekey(e)): None for t, e in recs}           # insertion-ordered, as the implementation lists them
    nodes = set(iso) | set(x for _, e in recs for x in e)
    all_times = ALL_TIMES

    def wt():
        return gen_weight(rng, wmode) if weighted else None

    def new_rec(t=None, size=None):
        for _ in range(10):
            tt = rng.choice(all_times) if t is None else t
            k = min(n, size if size is not None else rng.choice([1, 2, 2, 3, 3, 4]))
            e = rng.sample(labels, k)
            if (tt, ekey(e)) not in cur:
                return tt, e
        return None

    hist = []
    for _ in range(rng.choice([1, 1, 2, 3])):
        ops = []
        typ = rng.choice(["swap_same_time", "move_time", "interleave", "remove_node", "reweight", "drop_time", "copy_swap"])
        if typ == "copy_swap":
            ops.append(["copy"])
        if typ in ("swap_same_time", "move_time", "copy_swap"):
            t, e = rng.choice(list(cur))
            nr = new_rec(t=t if typ != "move_time" else None, size=len(e) if rng.random() < 0.6 else None)
            if typ == "move_time":
                t2 = rng.choice([x for x in all_times if x != t])
                nr = (t2, list(e)) if (t2, e) not in cur else None
            if nr is not None:
                first_remove = rng.random() < 0.6
                if first_remove:
                    ops.append(["t_remove_edge", list(e), t])
                ops.append(["t_add_edge", nr[1], nr[0], wt()])
                if not first_remove:
                    ops.append(["t_remove_edge", list(e), t])
                del cur[(t, e)]
                cur[(nr[0], ekey(nr[1]))] = None
                nodes |= set(nr[1])
        elif typ == "interleave":
            for _ in range(rng.randint(1, 3)):
                used = sorted(set(t for t, _ in cur))
                nr = new_rec(t=rng.choice(used))
                if nr is not None:
                    ops.append(["t_add_edge", nr[1], nr[0], wt()])
                    cur[(nr[0], ekey(nr[1]))] = None
                    nodes |= set(nr[1])
        elif typ == "remove_node":
            x = rng.choice(sorted(nodes, key=repr))
            keep = rng.random() < 0.4
            after = {}
            for (t, e) in cur:
                if x in e:
                    if keep and len(e) > 1:
                        after[(t, tuple(y for y in e if y != x))] = None
                else:
                    after[(t, e)] = None
            # listing order after keep_edges=True is not reproduced here: only membership matters
            if after:
                ops.append(["t_remove_node", x, keep])
                cur = after
                nodes.discard(x)
        elif typ == "reweight":
            t, e = rng.choice(list(cur))
            if weighted:
                ops.append([rng.choice(["t_set_weight", "t_add_edge"]), list(e), t, wt()])
            else:
                ops.append(["t_add_edge", list(e), t, None])       # re-adding a present record changes nothing
        elif typ == "drop_time":
            t = rng.choice(sorted(set(t for t, _ in cur)))
            out = [(tt, e) for (tt, e) in cur if tt == t]
            if len(out) < len(cur):
                for (tt, e) in out:
                    ops.append(["t_remove_edge", list(e), tt])
                    del cur[(tt, e)]
        if [op for op in ops if op != ["copy"]]:
            hist.append({"type": "t_" + typ, "ops": ops})
    return hist


def fixed_cases():
    # the hypergraph of the Lean theorem `C09_adjacency_wraps_witness` (lean/Hgxv/Proofs/C09Witness.lean)
    wn = [3, 5, 8, 10, 11, 20, 21, 22, 30, 40]
    we = [[3, 5] + [wn[2 + b] for b in range(8) if mask >> b & 1] for mask in range(256)]
    yield {"kind": "static", "labels": "int", "pre_nodes": [], "nodes": wn, "edges": we, "weighted": False,
           "weights": ["1"] * 256, "profile": "adjacency-only", "fixed": "256 hyperedges share two nodes (Lean witness)"}
    base = [100 + 7 * i for i in range(11)]
    rest = base[2:]
    edges = []
    for mask in range(300):
        edges.append([base[0], base[1]] + [rest[b] for b in range(9) if mask >> b & 1])
    yield {"kind": "static", "labels": "int", "pre_nodes": [], "nodes": base, "edges": edges, "weighted": False,
           "weights": ["1"] * 300, "profile": "adjacency-only", "fixed": "300 hyperedges share two nodes"}
    for share in (256, 300):
        nodes = [3 * i + 5 for i in range(share + 3)]
        e1 = nodes[:share] + [nodes[share]]
        e2 = nodes[:share] + [nodes[share + 1]]
        e3 = [nodes[share + 2], nodes[share]]
        yield {"kind": "static", "labels": "int", "pre_nodes": [], "nodes": nodes, "edges": [e1, e2, e3], "weighted": False,
               "weights": ["1"] * 3, "profile": "dual-only", "fixed": f"two hyperedges share {share} nodes"}


def zoo_cases():
    """one small fixed hypergraph per label TYPE / weight class (the random generator draws from the same classes)"""
    def st(kind, edges, iso=(), weights=None, np_=False, build="calls", history=None):
        nodes = []
        for e in edges:
            for x in e:
                if x not in nodes:
                    nodes.append(x)
        nodes += [x for x in iso if x not in nodes]
        c = {"kind": "static", "labels": kind, "pre_nodes": list(iso), "nodes": nodes[::-1], "edges": [list(e) for e in edges],
             "weighted": weights is not None, "weights": list(weights) if weights is not None else [1] * len(edges),
             "np": np_, "build": build, "fixed": "zoo"}
        if history:
            c["history"] = history
        return c
    # numeric labels that look like 0..N-1 at both ends (ints mixed with floats / all floats), isolated nodes included
    yield st("near", [[0, 0.5], [0.5, 2]])
    yield st("near", [[0, 1, 1.5], [1.5, 3], [0, 3]], iso=[4])
    yield st("nearf", [[0.0, 0.25, 3.0], [0.25, 1.75], [3.0, 1.75, 0.0]], build="ctor")
    yield st("nearf", [[0.5, 1.5], [1.5, 2.25, 0.75]])                    # all inside [0, N)
    yield st("near", [[0, 2.5], [2.5, 1], [1, 0, 3]], np_=True)
    # non-integer floats, negative floats, whole-number floats, floats one ulp apart, huge / tiny floats
    yield st("float", [[0.25, 0.5], [0.5, 2.5, 3.75], [0.25, 3.75]], iso=[2.75])
    yield st("float", [[-2.75, -0.25], [-0.25, 1.0, 7.0], [1.0, -2.75]], iso=[2.0], build="ctor")
    yield st("float", [[0.1, 0.10000000000000002], [0.10000000000000002, 1 / 3, 1e300], [-1e300, 5e-324, -5e-324]], np_=True)
    yield st("mix", [[0, 0.5, 2], [2, 1.0, -3], [0.5, 2 ** 40], [2.0 ** 40 + 0.5, 2 ** 40]], iso=[-1.25])
    # integers beyond 2**53 / 2**63 / 2**64, also next to small and negative ones and next to floats
    yield st("big", [[5, 2 ** 63 + 1], [2 ** 63 + 1, 2 ** 63], [2 ** 63 - 5, 7]])
    yield st("big", [[2 ** 64 + 3, 2 ** 70], [2 ** 70, 2 ** 70 + 1, 3], [-(2 ** 63) - 1, 3]], iso=[-(2 ** 70)])
    yield st("big", [[-1, 2 ** 63], [2 ** 63, 2 ** 64 - 1], [2 ** 53, 2 ** 53 + 1]])
    yield st("mix", [[2 ** 53 + 1, 0.5], [0.5, 2.0 ** 53], [-(2 ** 53) - 1, 2 ** 63 + 1, 0.5]])
    # numpy integer scalars beyond 2**53 (ids taken from an int64 / uint64 array) next to a float label, unsigned 64-bit ids
    # next to negative ones, numpy scalars of every width
    b53 = 2 ** 53
    yield st("npmix", [[b53 + 1, b53 + 2], [b53 + 2, 0.5], [b53 + 3, b53 + 1]], np_=True)
    yield st("npmix", [[-b53 - 1, -b53 - 3, 1.5], [2 ** 60 + 1, 1.5], [2 ** 60 + 3, 2 ** 60 + 1, -b53 - 1]], iso=[7], np_=True, build="ctor")
    yield st("npmix", [[2 ** 63 + 1, -2], [-2, 2 ** 63 + 3], [2 ** 64 - 1, 2 ** 63 + 1, 5]], np_=True)
    yield st("npmix", [[2 ** 63 - 1, 2 ** 63], [2 ** 63, 0.25, 2 ** 64 - 3], [2 ** 64 - 1, 2 ** 63 - 1]], np_=True, build="ctor")
    yield st("npmix", [[3, 0.5, 127], [127, 128, -129], [65536, 0.5], [2 ** 32, 3, 1.5]], iso=[255], np_="w")
    yield st("npmix", [[b53 + 1, b53 + 2, 7.5], [b53 + 2, 2 ** 63 + 1], [2 ** 63 + 1, -1, 7.5]], np_="w")
    yield st("big", [[2 ** 63 - 1, 2 ** 63], [2 ** 63, 2 ** 64 - 1, -5], [-(2 ** 63), 2 ** 53 + 1]], np_=True)
    # ids of an unsigned and of a signed column inside one hyperedge (node objects all signed)
    yield st("npmix", [[b53 + 1, 2 ** 60 + 3], [2 ** 60 + 1, b53 + 1], [b53 + 2, 2 ** 60 + 1, 5]], iso=[b53 + 1, b53 + 2, 2 ** 60 + 1, 2 ** 60 + 3, 5], np_="ui")
    yield st("big", [[2 ** 62, 2 ** 53 + 1, -5], [2 ** 53, 2 ** 62], [2 ** 63 - 5, 2 ** 53 + 1]], np_="ui", build="ctor")
    yield {"kind": "temporal", "labels": "npmix", "iso": [], "weighted": True, "weights": [2, 0.5, 3], "np": "ui", "fixed": "zoo",
           "recs": [[1, [b53 + 1, b53 + 2]], [1, [b53 + 3, b53 + 2, -1]], [4, [2 ** 60 + 1, b53 + 1]]]}
    yield {"kind": "temporal", "labels": "npmix", "iso": [], "weighted": False, "weights": [1, 1, 1, 1], "np": True, "fixed": "zoo",
           "recs": [[1, [b53 + 1, b53 + 2]], [1, [b53 + 2, 0.5]], [4, [2 ** 63 + 1, -2]], [4, [2 ** 63 + 3, -2, 2 ** 63 + 1]]]}
    # weighted uniform hypergraphs on 0..N-1 for the tensor (weights different from 1, 0 and negative ones included)
    for np_ in (False, True):
        yield {"kind": "tensor", "n": 5, "edges": [[0, 1, 2], [3, 2, 1], [0, 4, 3]], "weighted": True, "weights": [2.5, 0.5, 7],
               "np": np_, "build": "ctor", "fixed": "zoo"}
    yield {"kind": "tensor", "n": 4, "edges": [[0, 1], [2, 1], [3, 0]], "weighted": True, "weights": [3, 0, -2.0], "np": False,
           "build": "calls", "pre_nodes": [3], "fixed": "zoo",
           "history": [{"type": "tensor_edit", "ops": [["set_weight", [1, 0], 0.25]]},
                       {"type": "tensor_edit", "ops": [["add_edge", [1, 2], 4]]}]}
    yield {"kind": "tensor", "n": 3, "edges": [[2], [0]], "weighted": True, "weights": [1e-200, 2.0 ** 60], "np": "w",
           "build": "calls", "pre_nodes": [], "fixed": "zoo"}
    # bool labels; numpy scalars of every kind; strings whose sorted order is not the numeric one
    yield st("bool", [[False, True], [True]])
    yield st("int", [[3, 70], [70, 5, BIG], [BIG + 1, 3]], iso=[0], np_=True)
    yield st("str", [["10", "9"], ["9", "2", "-1"], ["0.5", "10", ""], ["B", "a"]], iso=["0"], np_=True)
    # weights: 0 / 0.0 / -0.0, tiny (products underflow), huge (products overflow), negative, ints next to floats
    e4 = [[1, 2], [2, 3, 4], [4, 5], [7, 8]]
    yield st("int", e4, weights=[2.0, 0.0, 1.5, 1.0])
    yield st("int", e4, weights=[2, 0, -3, 1], build="ctor")
    yield st("int", e4[:3], weights=[1e-200, 1e-200, 1e-200], build="ctor")
    yield st("int", e4, weights=[1e200, -1e200, 5e-324, -0.0], iso=[6])
    yield st("float", [[0.5, 1.5], [1.5, 1.75, 4.0], [0.5, 4.0]], weights=[0.1, 1 / 3, 2.0 ** 60],
             history=[{"type": "reweight", "ops": [["set_weight", [1.5, 0.5], 0]]},
                      {"type": "reweight", "ops": [["add_edge", [4.0, 0.5], -2.0 ** 60]]}])
    yield {"kind": "temporal", "labels": "float", "iso": [], "weighted": False, "weights": [1, 1, 1], "np": False, "fixed": "zoo",
           "recs": [[0, [0.5, 1.5]], [0, [1.5, 1.75, 4.0]], [3, [0.5, 4.0]]]}
    yield {"kind": "temporal", "labels": "near", "iso": [1], "weighted": True, "weights": [0.0, 1e-200, 2, -1.5], "np": True,
           "fixed": "zoo", "recs": [[2, [0, 0.5]], [2, [0.5, 2]], [5, [0, 2, 0.5]], [2, [2, 0]]]}


# --------------------------------------------------------------------------------------------------
# helpers shared by the oracles

def to_nat(kind, x):
    """order isomorphism of the label universe into the naturals (the model's labels); the model's answers depend on
    the order of the labels only (Lean: `C09_relabel_invariant`)"""
    x = plain(x)
    if kind in RANK:
        return RANK[kind][x]
    if kind == "neg":
        return int(x) + 40
    if kind in ("near", "nearf"):
        k = Fraction(x) * 4
        if k.denominator != 1:
            raise KeyError(x)
        return int(k)
    if isinstance(x, float) and x != int(x):
        raise KeyError(x)
    return int(x)


def check_mapping(ctx, case, what, m, want_nodes):
    """the property: the mapping is a bijection between the row indices 0..N-1 and the nodes. Its values are the node
    labels themselves: equal to them (`==`, so that `value in hyperedge` works) and of their type - when the labels mix
    ints and floats numpy hands all of them back as floats, which is accepted"""
    want = [plain(x) for x in want_nodes]
    keys = [plain(k) for k in m.keys()]
    vals = [plain(v) for v in m.values()]
    ok = (len(vals) == len(want) and all(type(k) is int for k in keys) and sorted(keys) == list(range(len(want))))
    if ok:
        try:
            ok = len(set(vals)) == len(vals) and set(vals) == set(want)
        except TypeError:
            ok = False
    if ok:
        tw = {x: type(x) for x in want}
        types = set(tw.values())
        # numpy also makes float64 of unsigned 64-bit integers next to signed ones: where labels are handed over as numpy
        # scalars of every width whole numbers may come back as floats of equal value
        loose = case.get("np") in ("w", "ui") or (case.get("np") and case.get("labels") in ("big", "npmix", "npi64"))
        if len(types) == 1 and not (loose and types == {int}):
            ok = all(type(v) is tw[v] for v in vals)
        else:
            ok = all(type(v) in (int, float) for v in vals)
    if not ok:
        shown = {k: m[k] for k in sorted(m.keys(), key=repr)}
        ctx.violation(case, f"{what}: mapping {shown!r} is not a bijection between 0..{len(want) - 1} and the nodes {sorted(want, key=repr)!r} (labels by value and type)")
    return ok


def same_num(a, b):
    """exact equality of two matrix entries; NaN equals NaN (overflowing products of huge weights)"""
    if a == b:
        return True
    return isinstance(a, float) and isinstance(b, float) and math.isnan(a) and math.isnan(b)


def same_rows(a, b):
    return len(a) == len(b) and all(len(r) == len(q) and all(same_num(x, y) for x, y in zip(r, q)) for r, q in zip(a, b))


def exact_weights(wts):
    """dyadic weights whose products and sums binary64 computes exactly (then entries are compared with the model)"""
    return all(isinstance(w, Fraction) and w.denominator <= 4 and abs(w) <= 64 for w in wts)


def expect_matrix(ctx, case, what, got, want_rows, nrows, ncols):
    """compare an implementation matrix (as returned by `dense`) with the definition"""
    r, c, rows = got
    if (r, c) != (nrows, ncols):
        ctx.violation(case, f"{what}: shape {(r, c)} instead of {(nrows, ncols)}")
        return False
    for i in range(nrows):
        for j in range(ncols):
            if not same_num(rows[i][j], want_rows[i][j]):
                ctx.violation(case, f"{what}: entry ({i},{j}) = {rows[i][j]}, definition gives {want_rows[i][j]}")
                return False
    return True


def model_map_str(kind, m):
    """render a mapping dict as the model prints it"""
    return ",".join(f"{i}:{to_nat(kind, m[i])}" for i in sorted(m)) if m else "-"


class Obs:
    """collects (model query line, implementation answer string) pairs"""

    def __init__(self):
        self.lines, self.expect = [], []

    def add(self, line, answer):
        self.lines.append(line)
        self.expect.append(answer)


def obs_matrix(ob, line, res):
    if res[0] == "exc":
        ob.add(line, "exc " + res[1])
    else:
        ob.add(line, mat_str(res[1][2]))


# --------------------------------------------------------------------------------------------------
# static hypergraph

def presenter(case):
    """labels and weights as they are handed to the implementation: a NEW equal object per use (`fresh`), numpy scalars
    (of the default width or of every width) when the case says so; hyperedges as tuples or lists"""
    npm = case.get("np") or False
    kind = case.get("labels")
    import numpy as np
    uses = [0]

    def lab(x):
        uses[0] += 1
        return fresh(x, True if npm == "ui" else npm, kind, uses[0])

    def lab_in_edge(x, i):
        """mode "ui": ids of two columns, one unsigned and one signed - inside a hyperedge every other non-negative
        integer is a np.uint64, everything else (and every node handed to add_node) a np.int64 / np.float64"""
        if npm == "ui" and i % 2 == 0 and isinstance(x, int) and not isinstance(x, bool) and 0 <= x < 2 ** 64:
            return np.uint64(int(str(x)))
        return lab(x)

    def edge(e, salt=0):
        """single-edge calls take a tuple or a list; the batch calls (constructor, add_edges, remove_edges) hash their
        hyperedges, so they get tuples only (salts 1, 4, 6)"""
        t = [lab_in_edge(x, i) for i, x in enumerate(e)]
        return t if (salt not in (1, 4, 6) and crc("edge", salt, e) % 4 == 0) else tuple(t)

    def w(x):
        if x is None:
            return None
        x = wnum(x)
        if npm == "w":                                    # weights: Python numbers and numpy scalars of the default width in turn
            uses[0] += 1                                  # (narrow widths overflow when the container accumulates weights)
            if crc("ww", uses[0]) % 2:
                return float.fromhex(x.hex()) if isinstance(x, float) else int(str(x))
        if npm:
            return np.float64(x) if isinstance(x, float) else np.int64(x)
        return float.fromhex(x.hex()) if isinstance(x, float) else int(str(x))
    return lab, edge, w


def shuffled(e, seed):
    """the hyperedge `e` in another node order (a rotation fixed by `seed`)"""
    e = list(e)
    k = 1 + seed % max(1, len(e) - 1) if len(e) > 1 else 0
    return e[k:] + e[:k]


def build_static(case):
    h = build_static0(case)
    lab, edge, w = presenter(case)
    for j, seed, wt in case.get("dups", []):
        e = shuffled(case["edges"][j], seed)
        if case["weighted"]:
            h.add_edge(edge(e, 12), w(wt))
        elif seed % 2:
            h.add_edge(edge(e, 12))
        else:
            h.add_edges([edge(e, 4)])
    return h


def build_static0(case):
    from hypergraphx import Hypergraph
    lab, edge, w = presenter(case)
    weights = [w(x) for x in case["weights"]]
    if case.get("build") == "ctor":
        if case["weighted"]:
            h = Hypergraph(edge_list=[edge(e, 1) for e in case["edges"]], weighted=True, weights=weights)
        else:
            h = Hypergraph(edge_list=[edge(e, 1) for e in case["edges"]])
        for x in case["pre_nodes"] + case["nodes"]:
            h.add_node(lab(x))
        return h
    h = Hypergraph(weighted=case["weighted"])
    for x in case["pre_nodes"]:
        h.add_node(lab(x))
    for e, wt in zip(case["edges"], weights):
        if case["weighted"]:
            h.add_edge(edge(e, 2), wt)
        else:
            h.add_edge(edge(e, 2))
    for x in case["nodes"]:
        h.add_node(lab(x))
    return h


def apply_op(h, op, weighted, case=None):
    """one edit of a history on the object `h`; returns the object the next requests go to"""
    k = op[0]
    lab, edge, w = presenter(case or {})
    if k == "copy":
        return h.copy()
    if k == "clear":
        h.clear()
    elif k == "add_node":
        h.add_node(lab(op[1]))
    elif k == "add_nodes":
        h.add_nodes([lab(x) for x in op[1]])
    elif k == "remove_node":
        h.remove_node(lab(op[1]), keep_edges=bool(op[2]))
    elif k == "remove_nodes":
        h.remove_nodes([lab(x) for x in op[1]], keep_edges=bool(op[2]))
    elif k == "add_edge":
        if weighted:
            h.add_edge(edge(op[1], 3), w(op[2]))
        else:
            h.add_edge(edge(op[1], 3))
    elif k == "add_edges":
        if weighted:
            h.add_edges([edge(e, 4) for e in op[1]], weights=[w(x) for x in op[2]])
        else:
            h.add_edges([edge(e, 4) for e in op[1]])
    elif k == "remove_edge":
        h.remove_edge(edge(op[1], 5))
    elif k == "remove_edges":
        h.remove_edges([edge(e, 6) for e in op[1]])
    elif k == "set_weight":
        h.set_weight(edge(op[1], 7), w(op[2]))
    elif k == "t_add_edge":
        if weighted:
            h.add_edge(edge(op[1], 8), op[2], w(op[3]))
        else:
            h.add_edge(edge(op[1], 8), op[2])
    elif k == "t_remove_edge":
        h.remove_edge(edge(op[1], 9), op[2])
    elif k == "t_remove_node":
        h.remove_node(lab(op[1]), keep_edges=bool(op[2]))
    elif k == "t_set_weight":
        h.set_weight(edge(op[1], 10), op[2], w(op[3]))
    else:
        raise ValueError("unknown history op " + repr(k))
    return h


def scribble(objs):
    """the caller owns what a routine returned: overwriting the returned mapping dicts / matrices in place must not
    influence any later answer (a result handed out by reference from a cache would)"""
    for o in objs:
        try:
            if isinstance(o, dict):
                scribble(list(o.values()))
                o.clear()
            elif isinstance(o, (tuple, list)):
                scribble(list(o))
            elif hasattr(o, "data") and hasattr(o.data, "fill"):
                o.data.fill(7)
            elif hasattr(o, "fill"):
                o.fill(7)
        except Exception:  # noqa: BLE001
            pass


class Tagged:
    """ctx whose reports carry the position in the history"""

    def __init__(self, ctx, tag):
        self._ctx, self._tag = ctx, tag

    def violation(self, case, what):
        self._ctx.violation(case, self._tag + what)

    def __getattr__(self, name):
        return getattr(self._ctx, name)


def run_history(ctx, case, h, audit, weighted):
    """audit, then for every block of the history: edit the SAME object, audit again"""
    audit(ctx, h)
    for k, stage in enumerate(case.get("history", []), 1):
        ctx.count("history_" + stage["type"])
        for op in stage["ops"]:
            res = guarded(apply_op, h, op, weighted, case)
            if res[0] == "exc":
                ctx.violation(case, f"history block {k}: the edit {op!r} of the hypergraph raised {res[1]}")
                return
            h = res[1]
        audit(Tagged(ctx, f"after history block {k} ({stage['type']}: {stage['ops']!r}) on the same object: "), h)


def adjacency_definition(nodes_by_row, edges):
    n = len(nodes_by_row)
    sets = [set(e) for e in edges]
    return [[0 if i == j else sum(1 for s in sets if nodes_by_row[i] in s and nodes_by_row[j] in s) for j in range(n)]
            for i in range(n)]


def check_static(ctx, drv, case):
    st, h = guarded(build_static, case)
    if st == "exc":
        ctx.violation(case, "building the hypergraph through add_node/add_edge raised " + h)
        return
    ob = Obs()
    first = {}

    def audit(c, hh):
        info = audit_static(c, case, hh, ob)
        first.setdefault("info", info)
    run_history(ctx, case, h, audit, case["weighted"])
    key, nontrivial, n_edges = first["info"]
    if case.get("history"):
        ctx.count("static_with_history")
    ctx.case(key + repr(case.get("history", "")), nontrivial, sample={k: v for k, v in case.items()} if n_edges <= 12 else None)
    compare(ctx, drv, case, ob)


def audit_static(ctx, case, h, ob):
    """every matrix routine on the object `h` as it is now: oracles from the property's words + model lines"""
    from hypergraphx.linalg import linalg as L
    kind = case["labels"]
    profile = case.get("profile", "full")
    # labels are compared as Python values (exact comparisons; numpy compares a Python float with a float32 scalar in float32)
    st, listing = guarded(lambda: ([plain(x) for x in h.get_nodes()], [tuple(plain(x) for x in e) for e in h.get_edges()],
                                   [frac(w) for w in h.get_weights()]))
    if st == "exc" or len(listing[1]) != len(listing[2]):
        ctx.violation(case, "get_nodes / get_edges / get_weights of the hypergraph failed: " + str(listing)[:120])
        return "unlisted", False, 0
    nodes, edges, wts = listing
    weighted = case["weighted"]
    N, E = len(nodes), len(edges)
    esets = [set(e) for e in edges]
    returned = []
    if any(not isinstance(w, Fraction) for w in wts):
        ctx.violation(case, f"get_weights returned a weight that is not a finite number: {wts!r}")
        return "unlisted", False, 0
    exact = exact_weights(wts)                            # products of weights are exact: every routine goes to the model
    salt = crc(case.get("nodes"), case.get("edges"), len(ob.lines))
    import numpy as np
    st, loadline = guarded(lambda: "load " + hgxv.enc_list([to_nat(kind, x) for x in nodes]) + " "
                           + hgxv.enc_lists([[to_nat(kind, x) for x in e] for e in edges]) + " " + hgxv.enc_list(wts))
    if st == "exc":
        ctx.violation(case, f"get_nodes / get_edges list labels that were never inserted: {nodes!r} {edges!r}")
        return "unlisted", False, 0
    ob.add(loadline, "ok")
    ctx.count("weights_exact" if exact else "weights_extreme")
    if weighted and any(w == 0 for w in wts):
        ctx.count("weights_with_zero")
    overlap = any(esets[a] & esets[b] for a in range(E) for b in range(a + 1, E))
    nontrivial = overlap and sorted(nodes, key=repr) != sorted(range(N), key=repr)
    key = repr((sorted(map(repr, nodes)), sorted((sorted(map(repr, e)), str(w)) for e, w in zip(edges, wts)), weighted, profile))
    ctx.count("static_" + kind)
    ctx.count("weighted" if weighted else "unweighted")
    if E == 0:
        ctx.count("static_edgeless")
    if N == 0:
        ctx.count("static_nodeless")

    def routes(fname, *a, **k):
        """the linalg function and, where it exists, the Hypergraph method"""
        out = [("linalg." + fname, guarded(getattr(L, fname), h, *a, **k))]
        if hasattr(h, fname):
            out.append(("Hypergraph." + fname, guarded(getattr(h, fname), *a, **k)))
        return out

    def with_mapping(res, what, want_nodes):
        """res = ('ok', (matrix, mapping)) -> (dense, mapping) or None after reporting"""
        if res[0] == "exc":
            ctx.violation(case, f"{what} raised {res[1]}")
            return None
        returned.append(res[1])
        try:
            M, m = res[1]
            m = map_plain(m)
            d = dense(M)
        except Exception as e:  # noqa: BLE001
            ctx.violation(case, f"{what}: result is not (matrix, mapping): {type(e).__name__}")
            return None
        if not check_mapping(ctx, case, what, m, want_nodes):
            return None
        return d, m

    def same_without_mapping(what, d_with, f, *a, **k):
        """the call without return_mapping must return the same matrix alone (asked for 2 of 5 requests, chosen by a
        checksum of the case and the request so that a replay repeats the choice)"""
        if crc(salt, what) % 5 >= 2:
            return
        res = guarded(f, *a, **k)
        if res[0] == "exc":
            ctx.violation(case, f"{what} without return_mapping raised {res[1]}")
            return
        returned.append(res[1])
        dd = guarded(dense, res[1])
        if dd[0] == "exc" or dd[1][:2] != d_with[:2] or not same_rows(dd[1][2], d_with[2]):
            ctx.violation(case, f"{what}: the matrix returned without return_mapping differs from the one returned with it")

    def flag_arg(b, *why):
        """a flag as the bool, the numpy bool or the int 0/1 (all of them are tested by truth value)"""
        c = crc(salt, *why) % 4
        return np.bool_(b) if c == 0 else int(b) if c == 1 else bool(b)

    def order_arg(d):
        """the order as a Python int or as a numpy integer"""
        return np.int64(d) if crc(salt, "order", d) % 4 == 0 else int(str(d))

    # ---- binary incidence, incidence, adjacency, dual (functions and methods) ----------------------------
    base_map = base_raw = None
    keepsake = {}
    if profile in ("full", "dual-only", "adjacency-only"):
        for what, res in routes("binary_incidence_matrix", return_mapping=True):
            r = with_mapping(res, what, nodes)
            if r is None:
                continue
            d, m = r
            if base_map is None:
                base_map, base_raw = m, res[1][1]
            want = [[1 if m[i] in esets[j] else 0 for j in range(E)] for i in range(N)]
            expect_matrix(ctx, case, what, d, want, N, E)
            if what.startswith("linalg"):
                ob.add("mapping", model_map_str(kind, m))
                ob.add("bininc", mat_str(d[2]))
                # ---- second extension round: the DUAL hypergraph (one hyperedge per node holding the indices of its hyperedges) is
                # inside the Lean model (dualHyes / dualInc); its incidence through hye_list_to_binary_incidence is the transpose
                if N >= 1 and E >= 1 and len(d[2]) == N and all(len(r_) == E for r_ in d[2]):
                    dh = [[j for j in range(E) if d[2][i][j] != 0] for i in range(N)]
                    darg = [tuple(np.int64(j) if crc(salt, "dualarg", j) % 3 == 0 else j for j in x) for x in dh]
                    dres = guarded(lambda: dense(L.hye_list_to_binary_incidence(darg, (E, N))))
                    ctx.count("dual_incidence")
                    ob.add("dualhyes", hgxv.enc_lists(dh))
                    if dres[0] == "exc":
                        ctx.violation(case, f"hye_list_to_binary_incidence(dual hyperedges {dh}, shape=({E}, {N})) raised {dres[1]}")
                    else:
                        if dres[1][:2] != (E, N) or any(dres[1][2][j][i] != d[2][i][j] for i in range(N) for j in range(E)):
                            ctx.violation(case, f"the incidence matrix of the dual hypergraph {dh} is not the transpose of the binary incidence matrix")
                        ob.add("dualinc", mat_str(dres[1][2]))
                same_without_mapping("linalg.binary_incidence_matrix", d, L.binary_incidence_matrix, h)
            else:
                same_without_mapping("Hypergraph.binary_incidence_matrix", d, getattr(h, "binary_incidence_matrix"))
    if profile == "full":
        for what, res in routes("incidence_matrix", return_mapping=True):
            r = with_mapping(res, what, nodes)
            if r is None:
                continue
            d, m = r
            want = [[wts[j] if m[i] in esets[j] else 0 for j in range(E)] for i in range(N)]
            expect_matrix(ctx, case, what, d, want, N, E)
            if what.startswith("linalg"):
                keepsake["inc"] = (d, m)
                ob.add("inc", mat_str(d[2]))
                same_without_mapping("linalg.incidence_matrix", d, L.incidence_matrix, h)
            else:
                same_without_mapping("Hypergraph.incidence_matrix", d, getattr(h, "incidence_matrix"))
    if profile in ("full", "adjacency-only"):
        for what, res in routes("adjacency_matrix", return_mapping=True):
            r = with_mapping(res, what, nodes)
            if r is None:
                continue
            d, m = r
            want = adjacency_definition([m[i] for i in range(N)], edges)
            expect_matrix(ctx, case, what, d, want, N, N)
            if what.startswith("linalg"):
                ob.add("adj", mat_str(d[2]))
                same_without_mapping("linalg.adjacency_matrix", d, L.adjacency_matrix, h)
            else:
                same_without_mapping("Hypergraph.adjacency_matrix", d, getattr(h, "adjacency_matrix"))
    if profile in ("full", "dual-only"):
        for what, res in routes("dual_random_walk_adjacency", return_mapping=True):
            r = with_mapping(res, what, nodes)
            if r is None:
                continue
            d, m = r
            want = [[1 if esets[a] & esets[b] else 0 for b in range(E)] for a in range(E)]
            expect_matrix(ctx, case, what, d, want, E, E)
            if what.startswith("linalg"):
                ob.add("dual", mat_str(d[2]))
                same_without_mapping("linalg.dual_random_walk_adjacency", d, L.dual_random_walk_adjacency, h)
            else:
                same_without_mapping("Hypergraph.dual_random_walk_adjacency", d, getattr(h, "dual_random_walk_adjacency"))

    # ---- per-order variants ------------------------------------------------------------------------------
    if profile == "full":
        maxd = max(len(e) for e in edges) - 1 if edges else 0
        # the *_all_orders helpers with every combination of their flags (one combination per request round)
        ai_keep, ai_rm, al_flag = crc(salt, "ai_keep") % 2 == 0, crc(salt, "ai_rm") % 2 == 0, crc(salt, "al_flag") % 3 == 0
        lap_rows = {}
        if edges:
            all_inc = guarded(L.incidence_matrices_all_orders, h, None, flag_arg(ai_keep, "aik"), flag_arg(ai_rm, "air"))
            all_lap = guarded(L.laplacian_matrices_all_orders, h, flag_arg(True, "alf")) if al_flag else guarded(L.laplacian_matrices_all_orders, h)
        else:
            # without any hyperedge max_order() has no value and the *_all_orders helpers raise; nothing is claimed
            all_inc = all_lap = ("skip", None)
        returned.extend([all_inc[1], all_lap[1]])
        for name, res in (("incidence_matrices_all_orders", all_inc), ("laplacian_matrices_all_orders", all_lap)):
            if res[0] == "skip":
                continue
            if res[0] == "exc":
                ctx.violation(case, f"{name} raised {res[1]}")
            elif sorted(res[1].keys()) != list(range(1, maxd + 1)):
                ctx.violation(case, f"{name}: keys {sorted(res[1].keys())} are not the orders 1..{maxd}")
        for d_ in range(0, maxd + 2):
            idx = [j for j in range(E) if len(edges[j]) == d_ + 1]
            ed = [edges[j] for j in idx]
            wd = [wts[j] for j in idx]
            ctx.count("order_present" if idx else "order_absent")
            for keep in (False, True):
                what = f"incidence_matrix_by_order(order={d_}, keep_isolated_nodes={keep})"
                res = guarded(L.incidence_matrix_by_order, h, order_arg(d_), keep_isolated_nodes=flag_arg(keep, "keep", d_),
                              return_mapping=flag_arg(True, "rm", d_, keep))
                want_nodes = nodes if keep else sorted(set(x for e in ed for x in e), key=repr)
                r = with_mapping(res, what, want_nodes)
                if r is None:
                    ob.add(f"incord {d_} {int(keep)}", "exc")
                    continue
                dm, m = r
                want = [[wd[j] if m[i] in ed[j] else 0 for j in range(len(ed))] for i in range(len(want_nodes))]
                expect_matrix(ctx, case, what, dm, want, len(want_nodes), len(ed))
                ob.add(f"incord {d_} {int(keep)}", mat_str(dm[2]))
                ob.add(f"mapord {d_} {int(keep)}", model_map_str(kind, m))
                same_without_mapping(what, dm, L.incidence_matrix_by_order, h, d_, keep_isolated_nodes=keep)
                if keep == ai_keep and all_inc[0] == "ok" and d_ in all_inc[1]:
                    try:
                        same = same_rows(dense(all_inc[1][d_])[2], dm[2])
                    except Exception:  # noqa: BLE001
                        same = False
                    if not same:
                        ctx.violation(case, f"incidence_matrices_all_orders(keep_isolated_nodes={ai_keep}, return_mapping={ai_rm})[{d_}] differs from incidence_matrix_by_order({d_}, keep_isolated_nodes={keep})")
            # adjacency by order
            what = f"adjacency_matrix_by_order(order={d_})"
            res = guarded(L.adjacency_matrix_by_order, h, order_arg(d_), return_mapping=True)
            r = with_mapping(res, what, nodes)
            A_def = None
            if r is None:
                if exact:
                    ob.add(f"adjord {d_}", "exc")
            else:
                dm, m = r
                lab = [m[i] for i in range(N)]
                if not weighted:
                    A_def = adjacency_definition(lab, ed)
                    expect_matrix(ctx, case, what, dm, A_def, N, N)
                if exact:
                    ob.add(f"adjord {d_}", mat_str(dm[2]))
                same_without_mapping(what, dm, L.adjacency_matrix_by_order, h, d_)
            # degree matrix and Laplacian: rows follow the node mapping of the incidence matrix
            if base_map is not None:
                lab = [base_map[i] for i in range(N)]
                deg = [sum(1 for e in ed if x in e) for x in lab]
                # the mapping argument: a plain dict or (every third request) the dict a routine returned, numpy keys and all
                marg = dict(base_raw) if crc(salt, "marg", d_) % 3 == 0 else dict(base_map)
                mkeep = dict(marg)
                res = guarded(L.degree_matrix, h, order_arg(d_), marg)
                what = f"degree_matrix(order={d_})"
                if list(marg.items()) != list(mkeep.items()):
                    ctx.violation(case, f"{what} changed the mapping dict it was given: {marg!r}")
                if res[0] == "exc":
                    ctx.violation(case, f"{what} raised {res[1]}")
                    ob.add(f"deg {d_}", "exc")
                else:
                    returned.append(res[1])
                    dd = guarded(dense, res[1])
                    if dd[0] == "exc":
                        ctx.violation(case, f"{what}: not a matrix")
                    else:
                        want = [[deg[i] if i == j else 0 for j in range(N)] for i in range(N)]
                        expect_matrix(ctx, case, what, dd[1], want, N, N)
                        obs_matrix(ob, f"deg {d_}", dd)
                for flag, q in ((False, "lap"), (True, "laps")):
                    what = f"laplacian_matrix_by_order(order={d_}, weighted={flag})"
                    res = guarded(L.laplacian_matrix_by_order, h, order_arg(d_), flag)
                    if res[0] == "exc":
                        ctx.violation(case, f"{what} raised {res[1]}")
                        if exact:
                            ob.add(f"{q} {d_}", "exc")
                        continue
                    returned.append(res[1])
                    dd = guarded(dense, res[1])
                    if dd[0] == "exc":
                        ctx.violation(case, f"{what}: not a matrix")
                        continue
                    if exact:
                        obs_matrix(ob, f"{q} {d_}", dd)
                    if not flag:
                        lap_rows[d_] = dd[1][2]
                    if flag == al_flag and all_lap[0] == "ok" and d_ in all_lap[1]:
                        try:
                            same = same_rows(dense(all_lap[1][d_])[2], dd[1][2])
                        except Exception:  # noqa: BLE001
                            same = False
                        if not same:
                            ctx.violation(case, f"laplacian_matrices_all_orders(weighted={al_flag})[{d_}] differs from laplacian_matrix_by_order({d_}, weighted={flag})")
                    if not weighted and not flag:
                        A_d = adjacency_definition(lab, ed)
                        want = [[d_ * deg[i] if i == j else -A_d[i][j] for j in range(N)] for i in range(N)]
                        if expect_matrix(ctx, case, what + " = d*D_d - A_d", dd[1], want, N, N):
                            rows = dd[1][2]
                            if any(rows[i][j] != rows[j][i] for i in range(N) for j in range(N)):
                                ctx.violation(case, what + " is not symmetric")
                            if any(sum(rows[i]) != 0 for i in range(N)):
                                ctx.violation(case, what + " has a non-zero row sum")
        # ---- extension round: the loops over the orders are inside the Lean model (maxOrder, incAllOrders, lapAllOrders,
        # multiorderLaplacian); their answers are compared as a whole (keys in dict order, every matrix)
        def dict_str(dct):
            return "|".join(f"{plain(k)}={mat_str(dense(v)[2])}" for k, v in dct.items()) if len(dct) else "empty"

        mo = guarded(h.max_order)
        ob.add("maxord", "rej" if mo[0] == "exc" else str(plain(mo[1])))
        # ---- second extension round: adjacency_factor(h, t) is inside the Lean model (adjFactor): per node the sum over the
        # other nodes with a non-zero adjacency entry of entry**t (integers: exact as floats)
        ft = crc(salt, "afac", len(ob.lines)) % 4
        af = guarded(L.adjacency_factor, h, ft) if ft else guarded(L.adjacency_factor, h)
        ctx.count(f"adjacency_factor:t={ft}")
        if af[0] == "exc":
            ctx.violation(case, f"adjacency_factor(t={ft}) raised {af[1]}")
        else:
            st_, txt = guarded(lambda: ",".join(f"{to_nat(kind, k)}:{hgxv.enc_num(frac(v))}" for k, v in af[1].items()) if len(af[1]) else "-")
            if st_ == "ok":
                ob.add(f"afac {ft}", txt)
            else:
                ctx.violation(case, f"adjacency_factor(t={ft}): malformed result {txt}")
        if all_inc[0] == "ok":
            st_, txt = guarded(dict_str, all_inc[1])
            if st_ == "ok":
                ob.add(f"incall {int(ai_keep)}", txt)
        if all_lap[0] == "ok" and exact:
            st_, txt = guarded(dict_str, all_lap[1])
            if st_ == "ok":
                ob.add(f"lapall {int(al_flag)}", txt)
        # the multi-order Laplacian without degree normalisation is the sigma-weighted sum of the per-order Laplacians
        if edges and exact and maxd >= 1 and all(d_ in lap_rows for d_ in range(1, maxd + 1)):
            sig = [1 + crc(salt, "sigma", d_) % 3 for d_ in range(1, maxd + 1)]
            sarg = np.array(sig) if crc(salt, "sigarr") % 2 else list(sig)
            res = guarded(L.compute_multiorder_laplacian, h, sarg, False, False)
            ctx.count("multiorder_laplacian")
            if res[0] == "exc":
                ctx.violation(case, f"compute_multiorder_laplacian(sigmas={sig}) raised {res[1]}")
            else:
                returned.append(res[1])
                dd = guarded(dense, res[1])
                want = [[sum(sg * lap_rows[d_][i][j] for d_, sg in zip(range(1, maxd + 1), sig)) for j in range(N)] for i in range(N)]
                if dd[0] == "exc":
                    ctx.violation(case, "compute_multiorder_laplacian: not a matrix")
                else:
                    expect_matrix(ctx, case, f"compute_multiorder_laplacian(sigmas={sig}, order_weighted=False, degree_weighted=False) "
                                  "= sum of sigma_d * Laplacian of order d", dd[1], want, N, N)
                    ob.add("mlap " + hgxv.enc_list([Fraction(x) for x in sig]) + " 0 0", mat_str(dd[1][2]))
        # every flag combination, sigma lists shorter / longer than the number of orders (zip cuts), empty, with zero /
        # negative / fractional entries: compared with the model (exactly; within 1e-9 when the average degrees divide)
        if exact:
            import warnings
            for rnd in range(2):
                c = crc(salt, "mlapx", rnd)
                ow, dw = bool(c & 1), bool(c & 2)
                ln = max(0, maxd + [0, 0, 1, -1, 2, -maxd][(c >> 2) % 6])
                sig = [Fraction((crc(salt, "sgx", rnd, k) % 13) - 4, [1, 1, 2, 4][(c >> 5) % 4]) for k in range(ln)]
                conv = (c >> 7) % 4
                sarg = [float(x) for x in sig]
                if conv == 1:
                    sarg = np.array(sarg)
                elif conv == 2:
                    sarg = tuple(sarg)
                elif conv == 3 and all(x.denominator == 1 for x in sig):
                    sarg = [int(x) for x in sig]
                with warnings.catch_warnings():
                    warnings.simplefilter("ignore")
                    with np.errstate(all="ignore"):
                        res = guarded(L.compute_multiorder_laplacian, h, sarg, flag_arg(ow, "mow", rnd), flag_arg(dw, "mdw", rnd))
                ctx.count(f"multiorder_ow{int(ow)}_dw{int(dw)}")
                line = "mlap " + hgxv.enc_list(sig) + f" {int(ow)} {int(dw)}"
                used = min(ln, maxd)
                absent = [d_ for d_ in range(1, used + 1) if not any(len(e) == d_ + 1 for e in edges)]
                if not edges:
                    ob.add(line, "rej" if res[0] == "exc" else "returned " + type(res[1]).__name__)
                elif dw and absent:
                    ctx.count("multiorder_undef_scale")
                    ob.add(line, "undef")              # 1.0 / 0.0 average degree: nothing is claimed about the result
                elif res[0] == "exc":
                    ctx.violation(case, f"compute_multiorder_laplacian(sigmas={sarg!r}, {ow}, {dw}) raised {res[1]}")
                elif used == 0:
                    ctx.count("multiorder_empty_sum")
                    ob.add(line, "zero" if (isinstance(res[1], int) and res[1] == 0) else "returned " + type(res[1]).__name__)
                else:
                    returned.append(res[1])
                    dd = guarded(dense, res[1])
                    if dd[0] == "exc":
                        ctx.violation(case, f"compute_multiorder_laplacian(sigmas={sarg!r}, {ow}, {dw}): not a matrix")
                    else:
                        ob.add(line, ("~" if dw else "") + mat_str(dd[1][2]))

    scribble(returned)
    # the caller owns what it was given: after overwriting all of it, the hypergraph and a new answer are what they were
    again = guarded(lambda: ([plain(x) for x in h.get_nodes()], [tuple(plain(x) for x in e) for e in h.get_edges()],
                             [frac(w) for w in h.get_weights()]))
    if again[0] == "exc" or again[1] != listing:
        ctx.violation(case, f"overwriting the returned matrices / mapping dicts changed the hypergraph itself: {str(again[1])[:200]}")
    elif "inc" in keepsake:
        res = guarded(L.incidence_matrix, h, True)
        ok = res[0] == "ok"
        if ok:
            try:
                d2, m2 = dense(res[1][0]), map_plain(res[1][1])
                ok = d2[:2] == keepsake["inc"][0][:2] and same_rows(d2[2], keepsake["inc"][0][2]) and \
                    list(m2.items()) == list(keepsake["inc"][1].items())
            except Exception:  # noqa: BLE001
                ok = False
        if not ok:
            ctx.violation(case, "incidence_matrix asked again after the returned matrices / mapping dicts were overwritten differs from its first answer")
    return key, nontrivial, len(edges)


def approx_same(a, b):
    """two matrices in the wire format, entries equal within 1e-9 relative (1e-12 absolute)"""
    try:
        ra, rb = a.split(";"), b.split(";")
        if len(ra) != len(rb):
            return False
        for x, y in zip(ra, rb):
            xs, ys = x.split(","), y.split(",")
            if len(xs) != len(ys):
                return False
            for u, v in zip(xs, ys):
                if u == v:
                    continue
                fu, fv = Fraction(u), Fraction(v)
                if abs(fu - fv) > Fraction(1, 10 ** 9) * max(abs(fu), abs(fv)) + Fraction(1, 10 ** 12):
                    return False
        return True
    except (ValueError, ZeroDivisionError):
        return False


def compare(ctx, drv, case, ob):
    if drv is None:
        return
    ans = drv.batch(ob.lines)
    for ln, a, ex in zip(ob.lines, ans, ob.expect):
        if ex.startswith("~"):                             # float division involved: entries agree within 1e-9 (relative)
            if approx_same(a, ex[1:]):
                continue
            ex = ex[1:]
        if a != ex:
            ctx.disagree({**case, "line": ln}, f"model answers {a[:200]!r} to {ln[:60]!r}, implementation gives {ex[:200]!r}")
            break


# --------------------------------------------------------------------------------------------------
# adjacency tensor

def check_tensor(ctx, drv, case):
    from hypergraphx import Hypergraph
    lab, edge, w = presenter(case)
    n = case["n"]
    weighted = bool(case.get("weighted"))
    weights = [w(x) for x in case.get("weights", [1] * len(case["edges"]))]

    def build():
        if case.get("build", "ctor") == "ctor":
            edges = [edge(e, 1) for e in case["edges"]]
            h = Hypergraph(edge_list=edges, weighted=True, weights=weights) if weighted else Hypergraph(edge_list=edges)
            pre = []
        else:
            h = Hypergraph(weighted=weighted)
            pre = case.get("pre_nodes", [])
        for x in pre:
            h.add_node(lab(x))
        if case.get("build", "ctor") != "ctor":
            for e, wt in zip(case["edges"], weights):
                if weighted:
                    h.add_edge(edge(e, 2), wt)
                else:
                    h.add_edge(edge(e, 2))
        for x in range(n):
            h.add_node(lab(x))
        return h
    st, h = guarded(build)
    if st == "exc":
        ctx.violation(case, "building the uniform hypergraph raised " + h)
        return
    ob = Obs()
    first = {}

    def audit(c, hh):
        first.setdefault("edges", audit_tensor(c, case, hh, ob))
    run_history(ctx, case, h, audit, weighted)
    hedges = first["edges"]
    ctx.case(repr(("tensor", n, sorted(map(sorted, hedges)), weighted and case.get("weights"), case.get("history", ""))),
             len(hedges) >= 2, sample=case)
    compare(ctx, drv, case, ob)


def audit_tensor(ctx, case, h, ob):
    import numpy as np
    from hypergraphx.linalg import linalg as L
    n = case["n"]
    hedges = [tuple(e) for e in h.get_edges()]
    sizes = set(len(e) for e in hedges)
    st, wts = guarded(lambda: [frac(x) for x in h.get_weights()])
    if st == "exc" or len(wts) != len(hedges) or any(not isinstance(x, Fraction) for x in wts):
        ctx.violation(case, "get_weights of the uniform hypergraph failed: " + str(wts)[:120])
        return hedges
    ob.add("load " + hgxv.enc_list([int(x) for x in h.get_nodes()]) + " " + hgxv.enc_lists([[int(x) for x in e] for e in hedges])
           + " " + hgxv.enc_list(wts), "ok")
    res = guarded(L.adjacency_tensor, h)
    ctx.count("tensor_uniform" if len(sizes) == 1 else "tensor_nonuniform")
    if case.get("weighted"):
        ctx.count("tensor_weighted_nonunit" if any(x != 1 for x in wts) else "tensor_weighted_unit")
    if len(sizes) != 1:
        # the routine announces an exception for non-uniform input
        if res[0] != "exc":
            ctx.violation(case, "adjacency_tensor accepted a non-uniform hypergraph")
        ob.add(f"tensor {n}", "rej")
    else:
        k = sizes.pop()
        if res[0] == "exc":
            ctx.violation(case, "adjacency_tensor raised " + res[1])
            ob.add(f"tensor {n}", "exc")
        else:
            T = np.asarray(res[1])
            if T.shape != (n,) * k:
                ctx.violation(case, f"adjacency_tensor: shape {T.shape} instead of {(n,) * k}")
                ob.add(f"tensor {n}", "exc")
            else:
                esets = set(frozenset(e) for e in hedges)
                for p in itertools.product(range(n), repeat=k):
                    want = 1 if (len(set(p)) == k and frozenset(p) in esets) else 0
                    if frac(T[p]) != want:
                        ctx.violation(case, f"adjacency_tensor{list(p)} = {T[p]}, the indicator of the hyperedges gives {want}")
                        break
                ob.add(f"tensor {n}", hgxv.enc_list([frac(v) for v in T.flatten().tolist()]))
            scribble([res[1]])
    return hedges


# --------------------------------------------------------------------------------------------------
# hye_list_to_binary_incidence called directly (index hyperedges, optional shape)

def check_hye(ctx, drv, case):
    from hypergraphx.linalg import linalg as L
    import numpy as np
    hy = [tuple(e) for e in case["hyes"]]
    shape = tuple(case["shape"]) if case["shape"] is not None else None
    n = max([x for e in hy for x in e], default=-1) + 1
    cont = case.get("cont")

    def inner(j, e):
        """the hyperedge as one of the containers the routine iterates: tuple, list, frozenset, numpy integer array"""
        c = crc(cont, "in", j) % 5 if cont is not None else 0
        if c == 1:
            return [int(str(x)) for x in e]
        if c == 2:
            return frozenset(e)
        if c == 3 and e:
            return np.array(e, dtype=np.int64)
        if c == 4:
            return tuple(np.int64(x) for x in e)
        return tuple(e)
    arg = [inner(j, e) for j, e in enumerate(hy)]
    if cont is not None and crc(cont, "out") % 3 == 0:
        arg = tuple(arg)
    sarg = list(shape) if (shape is not None and cont is not None and crc(cont, "shape") % 3 == 0) else shape
    before = [sorted(int(x) for x in e) for e in arg]
    res = guarded(L.hye_list_to_binary_incidence, arg, sarg)
    if [sorted(int(x) for x in e) for e in arg] != before or (sarg is not None and tuple(sarg) != shape):
        ctx.violation(case, "hye_list_to_binary_incidence changed the hyperedge list / shape it was given")
    ob = Obs()
    line = "hye " + (hgxv.enc_list(shape) if shape is not None else "-") + " " + hgxv.enc_lists(hy)
    too_small = shape is not None and (shape[0] < n or shape[1] < len(hy))
    ctx.count("hye_rejected" if too_small else "hye_accepted")
    if too_small:
        # the docstring announces that such a shape is refused
        if res[0] != "exc":
            ctx.violation(case, f"hye_list_to_binary_incidence accepted the shape {shape} although the hyperedges need {(n, len(hy))}")
        ob.add(line, "rej")
    elif res[0] == "exc":
        ctx.violation(case, "hye_list_to_binary_incidence raised " + res[1])
        ob.add(line, "exc")
    else:
        N, E = shape if shape is not None else (n, len(hy))
        dd = guarded(dense, res[1])
        if dd[0] == "exc":
            ctx.violation(case, "hye_list_to_binary_incidence: result is not a matrix")
            ob.add(line, "exc")
        else:
            want = [[1 if (j < len(hy) and i in hy[j]) else 0 for j in range(E)] for i in range(N)]
            expect_matrix(ctx, case, "hye_list_to_binary_incidence", dd[1], want, N, E)
            ob.add(line, mat_str(dd[1][2]))
    ctx.case(repr(("hye", hy, shape)), any(len(set(e)) < len(e) for e in hy) or shape is not None, sample=None)
    compare(ctx, drv, case, ob)


# --------------------------------------------------------------------------------------------------
# temporal hypergraph

def check_temporal(ctx, drv, case):
    from hypergraphx import TemporalHypergraph
    lab, edge, wconv = presenter(case)
    weights = [wconv(w) for w in case["weights"]]
    weighted = case["weighted"]

    def build():
        recs = [(t, e, w) for (t, e), w in zip(case["recs"], weights)]
        dups = [(case["recs"][j][0], shuffled(case["recs"][j][1], seed), wconv(wt)) for j, seed, wt in case.get("dups", [])]
        how = case.get("build", "calls")
        if how != "calls" and not weighted:
            # the whole contact list at once: through the constructor ((time, hyperedge) pairs or two lists) / add_edges
            allr = recs + dups
            for i, d in enumerate(dups):                  # repeated records somewhere after their first occurrence
                allr.remove(d)
                first = next(k for k, r in enumerate(allr) if r[0] == d[0] and ekey(r[1]) == ekey(d[1]))
                allr.insert(first + 1 + crc("dup", i, len(allr)) % (len(allr) - first), d)
            if how == "ctor" and len(allr) % 2:
                th = TemporalHypergraph(edge_list=[(t, edge(e, 1)) for t, e, _ in allr])
            elif how == "ctor":
                th = TemporalHypergraph(edge_list=[edge(e, 1) for _, e, _ in allr], time_list=[t for t, _, _ in allr])
            else:
                th = TemporalHypergraph()
                th.add_edges([edge(e, 1) for _, e, _ in allr], [t for t, _, _ in allr])
            for x in case["iso"]:
                th.add_node(lab(x))
            return th
        th = TemporalHypergraph(weighted=weighted)
        for x in case["iso"]:
            th.add_node(lab(x))
        for t, e, w in recs + dups:
            if weighted:
                th.add_edge(edge(e, 11), t, w)
            else:
                th.add_edge(edge(e, 11), t)
        return th
    st, th = guarded(build)
    if st == "exc":
        ctx.violation(case, "building the temporal hypergraph raised " + th)
        return
    ob = Obs()
    first = {}

    def audit(c, hh):
        first.setdefault("info", audit_temporal(c, case, hh, ob))
    run_history(ctx, case, th, audit, weighted)
    key, nontrivial = first["info"]
    if case.get("history"):
        ctx.count("temporal_with_history")
    ctx.case(key + repr(case.get("history", "")), nontrivial, sample=case)
    compare(ctx, drv, case, ob)


def tdict_str(mats):
    """{order: {time: matrix}} in the wire format of the model (orders in dict order, times increasing)"""
    items = [f"{plain(d)}@{plain(t)}={mat_str(dense(mt[t])[2])}" for d, mt in mats.items() for t in sorted(mt.keys())]
    return "|".join(items) if items else "empty"


def audit_temporal(ctx, case, th, ob):
    from hypergraphx.linalg import linalg as L
    kind = case["labels"]
    weighted = case["weighted"]
    returned = []
    st, listing = guarded(lambda: [(t, tuple(plain(x) for x in e), frac(th.get_weight(e, t))) for t, e in th.get_edges()])
    if st == "exc":
        ctx.violation(case, "get_edges / get_weight of the temporal hypergraph raised " + listing)
        return "unlisted", False
    recs = [(t, e) for t, e, _ in listing]
    wts = [w for _, _, w in listing]
    times = sorted(set(t for t, _ in recs))
    if any(not isinstance(w, Fraction) for w in wts):
        ctx.violation(case, f"get_weight returned a weight that is not a finite number: {wts!r}")
        return "unlisted", False
    exact = exact_weights(wts)
    st, loadline = guarded(lambda: "tload " + hgxv.enc_list([t for t, _ in recs]) + " "
                           + hgxv.enc_lists([[to_nat(kind, x) for x in e] for _, e in recs]) + " " + hgxv.enc_list(wts))
    if st == "exc":
        ctx.violation(case, f"get_edges lists labels that were never inserted: {recs!r}")
        return "unlisted", False
    ob.add(loadline, "ok")
    ob.add("ttimes", hgxv.enc_list(times))
    ctx.count("temporal_" + kind)
    runs = [t for i, (t, _) in enumerate(recs) if i == 0 or recs[i - 1][0] != t]
    if len(runs) > len(set(runs)):
        ctx.count("temporal_interleaved")

    def per_time(what, res, by_order=None):
        """res: ('ok', (dict t->matrix, dict t->mapping)); oracle + observations"""
        if res[0] == "exc":
            ctx.violation(case, f"{what} raised {res[1]}")
            return
        returned.append(res[1])
        try:
            mats, maps = res[1]
            keys = sorted(mats.keys())
            mkeys = sorted(maps.keys())
        except Exception:  # noqa: BLE001
            ctx.violation(case, f"{what}: result is not (dict, dict)")
            return
        if keys != times or mkeys != times:
            ctx.violation(case, f"{what}: keys {keys} / {mkeys} are not the times {times} of the records")
            return
        for t in times:
            snap = [e for (tt, e) in recs if tt == t]
            snap_w = [w for (tt, e), w in zip(recs, wts) if tt == t]
            snap_nodes = sorted(set(x for e in snap for x in e), key=repr)
            m = map_plain(maps[t])
            if not check_mapping(ctx, case, f"{what}[t={t}]", m, snap_nodes):
                continue
            dd = guarded(dense, mats[t])
            if dd[0] == "exc":
                ctx.violation(case, f"{what}[t={t}]: not a matrix")
                continue
            n = len(snap_nodes)
            lab = [m[i] for i in range(n)]
            if by_order is None:
                want = adjacency_definition(lab, snap)
                expect_matrix(ctx, case, f"{what}[t={t}] (adjacency of the snapshot at {t})", dd[1], want, n, n)
                ob.add(f"tadj {t}", mat_str(dd[1][2]))
                ob.add(f"tmap {t}", model_map_str(kind, m))
            else:
                if not weighted:
                    want = adjacency_definition(lab, [e for e in snap if len(e) == by_order + 1])
                    expect_matrix(ctx, case, f"{what}[t={t}]", dd[1], want, n, n)
                if exact:
                    ob.add(f"tadjord {by_order} {t}", mat_str(dd[1][2]))

    per_time("linalg.temporal_adjacency_matrix", guarded(L.temporal_adjacency_matrix, th, True))
    for what, f, args in (("temporal_adjacency_matrix", L.temporal_adjacency_matrix, ()),
                          ("TemporalHypergraph.temporal_adjacency_matrix", th.temporal_adjacency_matrix, ())):
        r1, r2 = guarded(f, *((th,) if f is L.temporal_adjacency_matrix else ()), True), guarded(f, *((th,) if f is L.temporal_adjacency_matrix else ()))
        returned.extend([r1[1], r2[1]])
        if r1[0] == "ok":
            try:
                same = r2[0] == "ok" and sorted(r2[1].keys()) == sorted(r1[1][0].keys()) and all(
                    dense(r2[1][t]) == dense(r1[1][0][t]) for t in r2[1])
            except Exception:  # noqa: BLE001
                same = False
            if not same:
                ctx.violation(case, f"{what}: the result without return_mapping differs from the matrices returned with it")
    n_obs = len(ob.lines)
    per_time("TemporalHypergraph.temporal_adjacency_matrix", guarded(th.temporal_adjacency_matrix, True))
    del ob.lines[n_obs:], ob.expect[n_obs:]
    maxd = max((len(e) for _, e in recs), default=1) - 1
    for d_ in range(0, maxd + 2):
        per_time(f"temporal_adjacency_matrix_by_order(order={d_})",
                 guarded(L.temporal_adjacency_matrix_by_order, th, d_, True), by_order=d_)
    res = guarded(L.temporal_adjacency_matrices_all_orders, th, None, True)
    if res[0] == "exc":
        ctx.violation(case, "temporal_adjacency_matrices_all_orders raised " + res[1])
    else:
        returned.append(res[1])
        try:
            mats, maps = res[1]
            if sorted(mats.keys()) != list(range(1, maxd + 1)):
                ctx.violation(case, f"temporal_adjacency_matrices_all_orders: keys {sorted(mats.keys())} are not the orders 1..{maxd}")
            else:
                n_obs = len(ob.lines)
                for d_ in range(1, maxd + 1):
                    per_time(f"temporal_adjacency_matrices_all_orders[{d_}]", ("ok", (mats[d_], maps[d_])), by_order=d_)
                del ob.lines[n_obs:], ob.expect[n_obs:]
                if exact:                                # the whole answer against the model's loop over orders and times
                    ob.add("tadjall -", tdict_str(mats))
        except Exception as e:  # noqa: BLE001
            ctx.violation(case, "temporal_adjacency_matrices_all_orders: malformed result " + type(e).__name__)
    # an explicit max_order (one above / one below the largest order): the orders 1..max_order, each as by order
    mo = maxd + 1 if crc(len(recs), maxd, len(ob.lines)) % 2 else max(1, maxd - 1)
    res = guarded(L.temporal_adjacency_matrices_all_orders, th, mo, True)
    if res[0] == "exc":
        ctx.violation(case, f"temporal_adjacency_matrices_all_orders(max_order={mo}) raised " + res[1])
    else:
        returned.append(res[1])
        try:
            mats, maps = res[1]
            if sorted(mats.keys()) != list(range(1, mo + 1)):
                ctx.violation(case, f"temporal_adjacency_matrices_all_orders(max_order={mo}): keys {sorted(mats.keys())} are not the orders 1..{mo}")
            else:
                n_obs = len(ob.lines)
                per_time(f"temporal_adjacency_matrices_all_orders(max_order={mo})[{mo}]", ("ok", (mats[mo], maps[mo])), by_order=mo)
                del ob.lines[n_obs:], ob.expect[n_obs:]
                if exact:
                    ob.add(f"tadjall {mo}", tdict_str(mats))
        except Exception as e:  # noqa: BLE001
            ctx.violation(case, f"temporal_adjacency_matrices_all_orders(max_order={mo}): malformed result " + type(e).__name__)
    # ---- second extension round: annealed_adjacency_matrices_all_orders is inside the Lean model (annealedOne /
    # annealedAllOrders): per order the sum of the per-time matrices divided by the number of times; raises when the
    # snapshots have different numbers of nodes (inconsistent shapes). Division by T: compared within 1e-9 relative.
    if exact:
        res = guarded(L.annealed_adjacency_matrices_all_orders, th)
        ctx.count("annealed_all_orders:" + ("raises" if res[0] == "exc" else "dict"))
        if res[0] == "exc":
            ob.add("annall", "rej")
        else:
            returned.append(res[1])
            try:
                ob.add("annall", hgxv.enc_list([plain(k) for k in res[1].keys()]))
                for d_, M_ in res[1].items():
                    ob.add(f"annord {plain(d_)}", "~" + mat_str(dense(M_)[2]))
            except Exception as e:  # noqa: BLE001
                ctx.violation(case, "annealed_adjacency_matrices_all_orders: malformed result " + type(e).__name__)
    multi = any(len([1 for (tt, _) in recs if tt == t]) >= 2 for t in times)
    scribble(returned)
    return repr(("temporal", sorted((t, sorted(map(repr, e)), str(w)) for (t, e), w in zip(recs, wts)))), multi and len(times) >= 2


# --------------------------------------------------------------------------------------------------

def check_case(ctx, drv, case):
    old = signal.signal(signal.SIGALRM, _alarm)
    signal.alarm(20)
    try:
        if case["kind"] == "static":
            check_static(ctx, drv, case)
        elif case["kind"] == "tensor":
            check_tensor(ctx, drv, case)
        elif case["kind"] == "hye":
            check_hye(ctx, drv, case)
        else:
            check_temporal(ctx, drv, case)
    except CaseTimeout:
        ctx.violation(case, "the matrix routines did not return within 20 s on this input")
    except Exception as e:  # noqa: BLE001 - answers of a shape no oracle foresaw must not stop the run (exit 2 detects nothing)
        import traceback
        where = traceback.extract_tb(e.__traceback__)[-1]
        ctx.violation(case, f"the answers of the implementation could not be evaluated: {type(e).__name__}: {str(e)[:120]} (c09.py line {where.lineno})")
    finally:
        signal.alarm(0)
        signal.signal(signal.SIGALRM, old)


def run(ctx):
    drv = ctx.driver() if ctx.model_available else None
    for case in itertools.chain(fixed_cases(), zoo_cases()):
        check_case(ctx, drv, case)
        if ctx.too_many():
            return
    n = ctx.scale(400, 9000)
    for i in range(n):
        r = i % 12
        if r < 6:
            case = gen_static(ctx.rng)
        elif r < 8:
            case = gen_temporal(ctx.rng)
        elif r < 10:
            case = gen_tensor(ctx.rng)
        else:
            case = gen_hye(ctx.rng)
        check_case(ctx, drv, case)
        if ctx.too_many() or (ctx.time_left() is not None and ctx.time_left() < 8):
            break


def replay(ctx, case):
    drv = ctx.driver() if ctx.model_available else None
    case = dict(case)
    case.pop("line", None)
    check_case(ctx, drv, case)
