"""Common machinery of the /verif checks (correspondence harness side).

A property module `harness/cXX.py` defines

    RULE = "how cases are generated; what makes one distinct and non-trivial"
    def run(ctx): ...            # generate cases, run the real code and the Lean model, compare
    def replay(ctx, case): ...   # re-run one stored case (same comparison), optional

and reports through `ctx` (a `Ctx`).  Vocabulary:

* ctx.case(key, nontrivial, sample=None)   one explored case (key = canonical, hashable text)
* ctx.violation(case, what)                the IMPLEMENTATION contradicts the property on `case`
                                           (a property oracle failed on the real code)
* ctx.disagree(case, what)                 model and implementation differ on `case` but no oracle
                                           failed: the correspondence is broken
* ctx.known(case_id, ...)                  see `known_findings.json`

The real code is imported from $HGX_REPO (default /repo) - the working tree, not a copy.
"""
from __future__ import annotations

import hashlib
import json
import os
import random
import subprocess
import sys
import time
from fractions import Fraction

VERIF = os.path.dirname(os.path.dirname(os.path.abspath(__file__)))
LEAN_DIR = os.path.join(VERIF, "lean")
REPO = os.environ.get("HGX_REPO", "/repo")
GUARD = "HGX_VERIF"


def use_repo():
    """make `import hypergraphx` resolve to the working tree under $HGX_REPO"""
    os.environ.setdefault(GUARD, "1")
    if REPO not in sys.path:
        sys.path.insert(0, REPO)
    for m in list(sys.modules):
        if m == "hypergraphx" or m.startswith("hypergraphx."):
            f = getattr(sys.modules[m], "__file__", None) or ""
            if not f.startswith(REPO + "/"):
                del sys.modules[m]


# ------------------------------------------------------------------------------------------
# wire format (mirror of lean/Hgxv/Model/Wire.lean)

def enc_num(x):
    if isinstance(x, bool):
        return "1" if x else "0"
    if isinstance(x, int):
        return str(x)
    fr = Fraction(x)
    return str(fr.numerator) if fr.denominator == 1 else f"{fr.numerator}/{fr.denominator}"


def enc_list(xs, empty="-"):
    xs = list(xs)
    return ",".join(enc_num(x) for x in xs) if xs else empty


def enc_lists(xss):
    xss = list(xss)
    return ";".join(enc_list(xs, "_") for xs in xss) if xss else "-"


def enc_listss(xsss):
    xsss = list(xsss)
    if not xsss:
        return "-"
    return "|".join((";".join(enc_list(xs, "_") for xs in xss) if list(xss) else "_") for xss in xsss)


def dec_num(s):
    if "/" in s:
        p, q = s.split("/")
        return Fraction(int(p), int(q))
    return int(s)


def dec_list(s, empty="-"):
    return [] if s == empty else [dec_num(t) for t in s.split(",")]


def dec_lists(s):
    return [] if s == "-" else [dec_list(t, "_") for t in s.split(";")]


# ------------------------------------------------------------------------------------------
# Lean driver process

class LeanDriver:
    """Line protocol to `lean/Driver/<Name>.lean` (compiled exe when present, else `lean --run`)."""

    def __init__(self, name):
        self.name = name
        exe = os.path.join(LEAN_DIR, ".lake", "build", "bin", "driver_" + name.lower())
        if os.path.exists(exe) and not os.environ.get("HGXV_INTERPRET"):
            cmd = [exe]
        else:
            cmd = ["lake", "env", "lean", "--run", os.path.join("Driver", name + ".lean")]
        self.cmd = cmd
        self.p = subprocess.Popen(cmd, cwd=LEAN_DIR, stdin=subprocess.PIPE, stdout=subprocess.PIPE,
                                  text=True, bufsize=1 << 16)
        self.lines = 0

    def ask(self, line):
        return self.batch([line])[0]

    def batch(self, lines):
        if not lines:
            return []
        for ln in lines:
            assert "\n" not in ln
        out = []
        # write in chunks to avoid pipe dead-lock on big batches
        CH = 256
        for i in range(0, len(lines), CH):
            chunk = lines[i:i + CH]
            self.p.stdin.write("\n".join(chunk) + "\n")
            self.p.stdin.flush()
            for _ in chunk:
                r = self.p.stdout.readline()
                if r == "":
                    raise RuntimeError(f"lean driver {self.name} died (cmd={self.cmd})")
                out.append(r.rstrip("\n"))
        self.lines += len(lines)
        return out

    def close(self):
        try:
            self.p.stdin.close()
            self.p.wait(timeout=20)
        except Exception:
            self.p.kill()


# ------------------------------------------------------------------------------------------
# exact rationals through numpy object arrays

class Q(Fraction):
    """Fraction that absorbs floats/ints exactly; lets real numpy code run in exact arithmetic."""

    @staticmethod
    def _c(o):
        import numbers
        if isinstance(o, Q):
            return o
        if isinstance(o, (Fraction, int)):
            return Q(o)
        if isinstance(o, numbers.Integral):
            return Q(int(o))
        if isinstance(o, numbers.Real):
            return Q(Fraction(float(o)))
        return NotImplemented

    def _bin(self, o, f, rev=False):
        o = Q._c(o)
        if o is NotImplemented:
            return NotImplemented
        return Q(f(o, self) if rev else f(self, o))

    def __add__(s, o): return s._bin(o, Fraction.__add__)
    def __radd__(s, o): return s._bin(o, Fraction.__add__, True)
    def __sub__(s, o): return s._bin(o, Fraction.__sub__)
    def __rsub__(s, o): return s._bin(o, Fraction.__sub__, True)
    def __mul__(s, o): return s._bin(o, Fraction.__mul__)
    def __rmul__(s, o): return s._bin(o, Fraction.__mul__, True)
    def __truediv__(s, o): return s._bin(o, Fraction.__truediv__)
    def __rtruediv__(s, o): return s._bin(o, Fraction.__truediv__, True)
    def __neg__(s): return Q(Fraction.__neg__(s))
    def __abs__(s): return Q(Fraction.__abs__(s))
    def __pow__(s, o): return Q(Fraction.__pow__(s, o))


# ------------------------------------------------------------------------------------------
# RNG recording

class Recorder:
    """Wraps callables so that every call's result is appended to `log` as (source, name, args, result)."""

    def __init__(self):
        self.log = []
        self._undo = []

    def patch(self, obj, attr, source, conv=None):
        real = getattr(obj, attr)
        rec = self

        def wrapper(*a, **k):
            r = real(*a, **k)
            rec.log.append((source, attr, a, k, conv(r) if conv else r))
            return r
        setattr(obj, attr, wrapper)
        self._undo.append((obj, attr, real))

    def restore(self):
        for obj, attr, real in reversed(self._undo):
            setattr(obj, attr, real)
        self._undo = []

    def __enter__(self):
        return self

    def __exit__(self, *a):
        self.restore()


class RngProxy:
    """Stand-in for a numpy Generator / RandomState / `random` module instance: forwards every
    attribute to the real one and records each call's result."""

    def __init__(self, real, log, source):
        object.__setattr__(self, "_real", real)
        object.__setattr__(self, "_log", log)
        object.__setattr__(self, "_source", source)

    def __getattr__(self, name):
        attr = getattr(self._real, name)
        if not callable(attr):
            return attr

        def wrapper(*a, **k):
            r = attr(*a, **k)
            self._log.append((self._source, name, a, k, r))
            return r
        return wrapper


# ------------------------------------------------------------------------------------------
# run context / report

class Ctx:
    def __init__(self, prop, tier, seed):
        self.prop = prop
        self.tier = tier
        self.seed = seed
        self.rng = random.Random((seed * 1000003) ^ int(hashlib.sha256(prop.encode()).hexdigest()[:8], 16))
        self.t0 = time.time()
        self.evaluations = 0
        self.keys = set()
        self.nontrivial_keys = set()
        self.samples = []
        self.violations = []      # (case, what)
        self.disagreements = []   # (case, what)
        self.known_hits = []      # (id, what)
        self.extra = {}           # free-form coverage additions (distributions, counters)
        self.assumptions = []
        self.max_samples = 3
        self._drivers = []
        self.deadline = None

    # -- sizes --------------------------------------------------------------------------
    def scale(self, quick, thorough):
        return thorough if self.tier == "thorough" else quick

    def time_left(self):
        return None if self.deadline is None else self.deadline - time.time()

    # -- driver -------------------------------------------------------------------------
    def driver(self, name=None):
        d = LeanDriver(name or self.prop)
        self._drivers.append(d)
        return d

    def close(self):
        for d in self._drivers:
            d.close()

    # -- reporting ----------------------------------------------------------------------
    def case(self, key, nontrivial=True, sample=None):
        self.evaluations += 1
        h = hashlib.sha1(str(key).encode()).digest()[:10]
        self.keys.add(h)
        if nontrivial:
            self.nontrivial_keys.add(h)
        if sample is not None and len(self.samples) < self.max_samples:
            self.samples.append(sample)

    def count(self, name, by=1):
        self.extra[name] = self.extra.get(name, 0) + by

    def violation(self, case, what):
        self.violations.append((case, what))

    def disagree(self, case, what):
        self.disagreements.append((case, what))

    def known(self, finding_id, what):
        self.known_hits.append((finding_id, what))

    def too_many(self, n=5):
        return len(self.violations) + len(self.disagreements) >= n


def jsonable(x):
    """best-effort conversion of a case to JSON"""
    if isinstance(x, Fraction):
        return enc_num(x)
    if isinstance(x, (str, int, float, bool)) or x is None:
        return x
    if isinstance(x, dict):
        return {str(k): jsonable(v) for k, v in x.items()}
    if isinstance(x, (list, tuple, set, frozenset)):
        return [jsonable(v) for v in (sorted(x, key=repr) if isinstance(x, (set, frozenset)) else x)]
    try:
        import numpy as np
        if isinstance(x, np.ndarray):
            return jsonable(x.tolist())
        if isinstance(x, np.generic):
            return jsonable(x.item())
    except Exception:
        pass
    return repr(x)
