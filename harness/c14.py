"""C14 - random generators: correspondence of lean/Hgxv/Model/C14.lean with hypergraphx.generation.{random,
scale_free,activity_driven} on recorded draws, and independent property oracles on the implementation."""
import itertools
import math
import random
import signal
from fractions import Fraction

import hgxv

RULE = ("seven routines, one case = one call with explicit arguments and explicit ambient RNG seeds (the draws are "
        "recorded by patching random.* / np.random.* and replayed in the Lean model): random_hypergraph / "
        "random_uniform_hypergraph (n 0-9, 1-3 sizes, counts 0-6, seed given or not), scale_free_hypergraph (n 3-10, "
        "feasible counts, correlated or not, corr_target omitted / 0..1, num_shuffles, default arguments), HOADmodel "
        "(N 2-7, 1-2 orders, dyadic activities incl. 0 and 1, time 0-6), add_random_edge(s) and random_shuffle(_all_orders) "
        "on generated hypergraphs (2-9 nodes, integer or string labels, weighted with metadata or not, isolated nodes; "
        "order= or size=, inplace or not, p in {0, 1/16 .. 1}, preserve_degree, seed) plus a malformed stream (both/neither "
        "of order and size, p outside [0,1], size larger than the node set, invalid scale-free argument combinations). "
        "A case is distinct by routine + arguments + recorded draws; non-trivial: random = a duplicate sample collapsed or "
        ">= 2 sizes; scale-free = >= 2 hyperedges; HOAD = at least one hyperlink emitted; add = a hyperedge was added or "
        "re-inserted on a weighted/metadata input; shuffle = some hyperedge replaced and some kept, or p = 0 on a weighted "
        "input with metadata")
ASSUMPTIONS = [
    "sampler contracts (trusted): random.sample(pop,k) and np.random.choice(pop,k,replace=False) return k distinct members of pop; random.random() in [0,1); seeding a source determines its later draws",
    "requests to the rejection loops are feasible (count <= C(n,size)); termination with probability one is not proved, the harness bounds every call by an alarm",
    "labels are mapped to their rank in sorted order; weights are small integers; metadata are tokens {'k': t}",
    "HOADmodel: activity vectors have length N and order <= N; activities are dyadic so that `act > random()` is exact",
    "p is dyadic so that int(p * num_edges) equals the exact floor",
    "node / incidence metadata are not in the model (node metadata are checked by the oracles only)",
]
TRUSTED = ["recording of draws by attribute patching (hgxv.Recorder): the routines look up random.sample, random.random, "
           "random.seed, np.random.seed, np.random.choice, np.random.exponential at call time"]
BUDGET_S = {"quick": 50, "thorough": 800}


# ------------------------------------------------------------------------------------------------
# helpers

class Timeout(BaseException):
    pass


def limited(f, secs=8.0):
    """run f() with an alarm; ('ok', value) | ('exc', text) | ('timeout', None)"""
    def handler(sig, frm):
        raise Timeout()
    old = signal.signal(signal.SIGALRM, handler)
    signal.setitimer(signal.ITIMER_REAL, secs)
    try:
        return ("ok", f())
    except Timeout:
        return ("timeout", None)
    except Exception as e:  # noqa: BLE001 - an unexpected exception is an observation
        return ("exc", (type(e).__name__ + ": " + str(e))[:160])
    finally:
        signal.setitimer(signal.ITIMER_REAL, 0)
        signal.signal(signal.SIGALRM, old)


def norm(x):
    """numpy scalars -> python"""
    try:
        import numpy as np
        if isinstance(x, np.generic):
            return x.item()
    except Exception:
        pass
    return x


def plain(xs):
    return [norm(x) for x in xs]


def recorder():
    import numpy as np
    rec = hgxv.Recorder()
    rec.patch(random, "seed", "py")
    rec.patch(random, "sample", "py", conv=lambda r: list(r))
    rec.patch(random, "random", "py")
    for name in ("choice", "choices", "randint", "randrange", "shuffle", "uniform", "getrandbits"):
        rec.patch(random, name, "py-other", conv=lambda r: None)
    rec.patch(np.random, "seed", "np")
    rec.patch(np.random, "choice", "np", conv=lambda r: plain(r) if hasattr(r, "__iter__") else norm(r))
    rec.patch(np.random, "exponential", "np", conv=lambda r: None)
    for name in ("rand", "random", "randint", "permutation", "shuffle", "random_sample", "uniform"):
        rec.patch(np.random, name, "np-other", conv=lambda r: None)
    return rec


def ambient(a, b):
    import numpy as np
    random.seed(a)
    np.random.seed(b)


MD_POOL = 6


def md_of(tok):
    return {} if tok == 0 else {"k": tok}


def tok_of(md):
    if md == {}:
        return 0
    if isinstance(md, dict) and list(md.keys()) == ["k"] and isinstance(md["k"], int):
        return md["k"]
    return 999


def build(spec):
    """spec: dict(labels, weighted, edges=[(nodes, w, tok)], node_md={label: tok}) -> Hypergraph"""
    from hypergraphx import Hypergraph
    h = Hypergraph(weighted=spec["weighted"])
    for x in spec["labels"]:
        h.add_node(x, metadata=md_of(spec["node_md"].get(str(x), 0)) or None)
    for nodes, w, tok in spec["edges"]:
        h.add_edge(tuple(nodes), weight=w if spec["weighted"] else None, metadata=md_of(tok))
    return h


def snapshot(h, rank):
    """(weighted, sorted node ranks, {edge ranks: (w, tok)}, {node rank: md}) ; unknown labels get rank 10**6+"""
    def rk(x):
        x = norm(x)
        return rank.get(x, 10 ** 6 + (abs(hash(x)) % 1000))
    nodes = sorted(rk(x) for x in h.get_nodes())
    edges = {}
    for e in h.get_edges():
        edges[tuple(sorted(rk(x) for x in e))] = (norm(h.get_weight(e)), tok_of(h.get_edge_metadata(e)))
    nmd = {rk(x): repr(h.get_node_metadata(x)) for x in h.get_nodes()}
    return (bool(h.is_weighted()), nodes, edges, nmd)


def incidence_view(h):
    """what every incidence query of the argument answers: per node the sorted incident hyperedges and the degree
    (an exception is an observation) - 'leave the argument untouched' includes its incidence structure"""
    out = {}
    for x in sorted(h.get_nodes(), key=repr):
        try:
            out[repr(x)] = (sorted(tuple(sorted(e, key=repr)) for e in h.get_incident_edges(x)), h.degree(x),
                            sorted(h.get_neighbors(x), key=repr))
        except Exception as ex:
            out[repr(x)] = "exc:" + type(ex).__name__
    return out


def show_snap(s):
    ks = sorted(s[2])
    return " ".join([hgxv.enc_num(s[0]), hgxv.enc_list(s[1]), hgxv.enc_lists(ks),
                     hgxv.enc_list([s[2][k][0] for k in ks]), hgxv.enc_list([s[2][k][1] for k in ks])])


def load_line(s):
    ks = list(s[2])  # insertion order of get_edges
    return "load " + " ".join([hgxv.enc_num(s[0]), hgxv.enc_list(s[1]), hgxv.enc_lists(ks),
                               hgxv.enc_list([s[2][k][0] for k in ks]), hgxv.enc_list([s[2][k][1] for k in ks])])


def opt(x):
    return "-1" if x is None else str(x)


def gen_hg(rng, shuffle_like=False):
    n = rng.randint(2, 9)
    if rng.random() < 0.15:
        labels = sorted(rng.sample([chr(97 + i) * rng.randint(1, 2) for i in range(20)], n))
    else:
        labels = sorted(rng.sample(range(0, 30), n))
    weighted = rng.random() < 0.55
    edges, seen = [], set()
    sizes = rng.sample([1, 2, 2, 3, 3, 4], rng.randint(1, 3)) if shuffle_like else [1, 2, 2, 3, 3, 4]
    for _ in range(rng.randint(0, 10) if not shuffle_like else rng.randint(2, 12)):
        s = min(n, rng.choice(sizes))
        e = tuple(sorted(rng.sample(labels, s)))
        if e in seen:
            continue
        seen.add(e)
        edges.append((list(e), rng.randint(1, 9) if weighted else 1, rng.choice([0, 0, 1, 2, 3, 4, 5])))
    node_md = {str(x): rng.randint(1, 5) for x in labels if rng.random() < 0.3}
    return {"labels": labels, "weighted": weighted, "edges": edges, "node_md": node_md}


def rank_of(spec):
    return {x: i for i, x in enumerate(sorted(spec["labels"]))}


def unexpected_sources(log, allowed):
    return [(src, name) for (src, name, a, k, r) in log if (src, name) not in allowed]


def edge_ok(e, n):
    e = plain(e)
    return all(isinstance(x, int) and 0 <= x < n for x in e) and len(set(e)) == len(e)


# ------------------------------------------------------------------------------------------------
# random_hypergraph / random_uniform_hypergraph

def check_random(ctx, drv, case, secs=8.0):
    from hypergraphx.generation.random import random_hypergraph, random_uniform_hypergraph
    n, sizes, counts, seed, uniform = case["n"], case["sizes"], case["counts"], case["seed"], case["uniform"]
    req = dict(zip(sizes, counts))

    def call():
        if uniform:
            return random_uniform_hypergraph(n, sizes[0], counts[0], seed)
        return random_hypergraph(n, dict(req), seed)

    def observe(h):
        return (sorted(plain(h.get_nodes())), sorted(tuple(plain(e)) for e in h.get_edges()))

    ambient(*case["ambient"])
    with recorder() as rec:
        st, h = limited(call, secs)
    log = rec.log
    admissible = all(c <= 0 or s <= n for s, c in req.items())
    key = ("random", n, tuple(sizes), tuple(counts), seed, uniform)
    if st == "timeout":
        return "timeout"
    if st == "exc":
        if admissible:
            ctx.violation(case, f"random_hypergraph raised on admissible arguments: {h}")
        ctx.case(key + ("rej",), False, sample=case)
        if drv:
            a = drv.ask(f"random {n} {hgxv.enc_list(sizes)} {hgxv.enc_list(counts)} -")
            if a != "rej" and not admissible:
                ctx.disagree(case, f"implementation rejects, model answers {a!r}")
        return
    nodes, edges = observe(h)
    # ---- property oracles
    if nodes != list(range(n)):
        ctx.violation(case, f"nodes {nodes} are not exactly 0..{n-1}")
    for e in edges:
        if len(e) not in req or req[len(e)] < 1:
            ctx.violation(case, f"hyperedge {e} has a size that was not requested")
        if not edge_ok(e, n):
            ctx.violation(case, f"hyperedge {e} has repeated nodes or nodes outside 0..{n-1}")
    for s, c in req.items():
        k = sum(1 for e in edges if len(e) == s)
        if k > max(c, 0) or (c >= 1 and k < 1):
            ctx.violation(case, f"{k} hyperedges of size {s}, requested {c}")
    if seed is not None:
        a2 = case["ambient"]
        ambient(a2[0] + 17, a2[1] + 29)
        st2, h2 = limited(call, secs)
        if st2 != "ok" or observe(h2) != (nodes, edges):
            ctx.violation(case, f"same seed {seed}, different ambient RNG state: second run gives "
                                f"{observe(h2) if st2 == 'ok' else st2}, first {(nodes, edges)}")
    # ---- correspondence
    draws = [r for (src, name, a, k, r) in log if (src, name) == ("py", "sample")]
    bad = unexpected_sources(log, {("py", "sample"), ("py", "seed")})
    seeded = [a for (src, name, a, k, r) in log if (src, name) == ("py", "seed")]
    ctx.case(key + (tuple(map(tuple, draws)),), len(sizes) >= 2 or len(edges) < sum(max(c, 0) for c in counts), sample=case)
    ctx.count("random_cases")
    if drv is None:
        return
    if bad:
        ctx.disagree(case, f"draws from sources the model does not use: {sorted(set(bad))}")
    if (seed is not None and seeded != [(seed,)]) or (seed is None and seeded):
        ctx.disagree(case, f"random.seed calls {seeded} for seed={seed}")
    groups, pos = [], 0
    for c in counts:
        groups.append(draws[pos:pos + max(c, 0)])
        pos += max(c, 0)
    want = " ".join(["0", hgxv.enc_list(nodes), hgxv.enc_lists(edges), hgxv.enc_list([1] * len(edges)),
                     hgxv.enc_list([0] * len(edges))])
    got = drv.batch([f"random {n} {hgxv.enc_list(sizes)} {hgxv.enc_list(counts)} {hgxv.enc_listss(groups)}",
                     f"randomM {n} {hgxv.enc_list(sizes)} {hgxv.enc_list(counts)} {opt(seed)} {hgxv.enc_lists(draws)}"])
    if got[0] != want:
        ctx.disagree(case, f"random: model {got[0]!r}, implementation {want!r}")
    if got[1] != want + " left 0":
        ctx.disagree(case, f"randomM (program over named sources): model {got[1]!r}, implementation {want + ' left 0'!r}")


def gen_random(rng, malformed=False):
    n = rng.choice([0, 1, 2, 3, 4, 5, 5, 6, 6, 7, 8, 9])
    uniform = rng.random() < 0.3
    k = 1 if uniform else rng.randint(1, 3)
    hi = max(1, min(n, 5))
    sizes = rng.sample(range(1, hi + 1), min(k, hi))
    counts = [rng.choice([0, 1, 1, 2, 3, 4, 6]) for _ in sizes]
    if n == 0:
        counts = [0 for _ in sizes]
    if malformed:
        sizes[0] = n + rng.randint(1, 2)
        counts[0] = max(1, counts[0])
        sizes = list(dict.fromkeys(sizes))
        counts = counts[:len(sizes)]
    seed = rng.choice([None, rng.randint(0, 10 ** 6), rng.randint(0, 50)])
    return {"routine": "random", "n": n, "sizes": sizes, "counts": counts, "seed": seed, "uniform": uniform,
            "ambient": [rng.randint(0, 10 ** 6), rng.randint(0, 10 ** 6)]}


# ------------------------------------------------------------------------------------------------
# scale_free_hypergraph

def check_scale_free(ctx, drv, case, secs=8.0):
    from hypergraphx.generation.scale_free import scale_free_hypergraph
    n, sizes, counts, skeys, scales = case["n"], case["sizes"], case["counts"], case["scale_keys"], case["scales"]
    kw = dict(case["kwargs"])
    ebs = dict(zip(sizes, counts))
    sbs = dict(zip(skeys, scales))

    def call():
        return scale_free_hypergraph(n, dict(ebs), dict(sbs), **kw)

    ambient(*case["ambient"])
    with recorder() as rec:
        st, h = limited(call, secs)
    log = rec.log
    correlated = kw.get("correlated", True)
    target = kw.get("corr_target", None)
    shuffles = kw.get("num_shuffles", 0)
    valid = case["valid"]
    line = (f"scalefree {n} {hgxv.enc_list(sizes)} {hgxv.enc_list(counts)} {hgxv.enc_list(skeys)} {int(correlated)} "
            f"{'none' if target is None else hgxv.enc_num(Fraction(target))} {shuffles} ")
    key = ("sf", n, tuple(sizes), tuple(counts), tuple(skeys), correlated, target, shuffles)
    if st == "timeout":
        return "timeout"
    if st == "exc":
        if valid:
            ctx.violation(case, f"scale_free_hypergraph raised on admissible arguments"
                                f"{' (defaults)' if not kw else ''}: {h}")
        ctx.case(key + ("rej",), False, sample=case)
        if drv and not valid:
            a = drv.ask(line + "-")
            if a != "rej":
                ctx.disagree(case, f"implementation rejects, model answers {a!r}")
        return
    nodes = sorted(plain(h.get_nodes()))
    edges = sorted(tuple(plain(e)) for e in h.get_edges())
    if not valid:
        # the property does not speak of rejection; the model does (correspondence only)
        if drv:
            a = drv.ask(line + "-")
            if a == "rej":
                ctx.disagree(case, "model rejects the arguments, implementation accepted them")
        ctx.case(key + ("acc",), False)
        return
    if len(nodes) != n or nodes != list(range(n)):
        ctx.violation(case, f"{len(nodes)} nodes {nodes}, requested {n}")
    for s, c in ebs.items():
        k = sum(1 for e in edges if len(e) == s)
        if k != c:
            ctx.violation(case, f"{k} distinct hyperedges of size {s}, requested {c}")
    for e in edges:
        if len(e) not in ebs or not edge_ok(e, n):
            ctx.violation(case, f"hyperedge {e}: size not requested, repeated nodes or nodes outside 0..{n-1}")
    groups = []
    for (src, name, a, k, r) in log:
        if (src, name) == ("np", "exponential"):
            groups.append([])
        elif (src, name) == ("np", "choice") and not isinstance(a[0], (int,)) and groups:
            groups[-1].append(r)
    bad = unexpected_sources(log, {("np", "exponential"), ("np", "choice")})
    ctx.case(key + (repr(groups),), len(edges) >= 2, sample=case)
    ctx.count("scale_free_cases")
    ctx.count("scale_free_defaults", 0 if kw else 1)
    if drv is None:
        return
    if bad:
        ctx.disagree(case, f"draws from sources the model does not use: {sorted(set(bad))}")
    want = " ".join(["0", hgxv.enc_list(nodes), hgxv.enc_lists(edges), hgxv.enc_list([1] * len(edges)),
                     hgxv.enc_list([0] * len(edges))]) + " ret 1"
    a = drv.ask(line + hgxv.enc_listss(groups))
    if a != want:
        ctx.disagree(case, f"scalefree: model {a!r}, implementation {want!r}")


def gen_scale_free(rng, malformed=False):
    n = rng.randint(3, 10)
    k = rng.randint(1, 3)
    sizes = rng.sample(range(2, min(4, n - 1) + 1), min(k, min(4, n - 1) - 1))
    counts = [rng.randint(0, min(4, math.comb(n, s) // 2)) for s in sizes]
    near_sat = False
    if rng.random() < 0.25 and n <= 7:
        # near saturation: between half and all of the possible hyperedges of a size (feasible, but the rejection loop
        # needs many draws)
        counts = [rng.randint(math.comb(n, s) // 2, min(max(math.comb(n, s) // 2, (17 * math.comb(n, s)) // 20), 21))
                  for s in sizes]
        near_sat = True
    scales = [rng.choice([0.5, 1.0, 2.0, 3.5]) for _ in sizes]
    skeys = list(sizes)
    mode = rng.choice(["default", "default", "uncorr", "target", "target", "shuffles", "corr_plain"])
    kw = {}
    if mode == "uncorr":
        kw = {"correlated": False}
    elif mode == "target":
        kw = {"correlated": True, "corr_target": rng.choice([0.0, 0.25, 0.5, 0.75, 1.0, 1, 0])}
    elif mode == "shuffles":
        kw = {"num_shuffles": rng.randint(1, 6)}
    elif mode == "corr_plain":
        kw = {"correlated": True, "corr_target": None, "num_shuffles": 0}
    valid = True
    if malformed:
        valid = False
        bad = rng.choice(["target_range", "target_uncorr", "both", "neg_shuffles", "shuffle_uncorr", "missing_scale",
                          "extra_scale", "neg_count"])
        if bad == "target_range":
            kw = {"corr_target": rng.choice([-0.5, 1.5, 2])}
        elif bad == "target_uncorr":
            kw = {"correlated": False, "corr_target": 0.5}
        elif bad == "both":
            kw = {"corr_target": 0.5, "num_shuffles": 2}
        elif bad == "neg_shuffles":
            kw = {"num_shuffles": -1}
        elif bad == "shuffle_uncorr":
            kw = {"correlated": False, "num_shuffles": 2}
        elif bad == "missing_scale":
            skeys, scales = skeys[:-1], scales[:-1]
        elif bad == "extra_scale":
            skeys, scales = skeys + [7], scales + [1.0]
        elif bad == "neg_count":
            counts[0] = -1
    return {"routine": "scale_free", "n": n, "sizes": sizes, "counts": counts, "scale_keys": skeys, "scales": scales,
            "kwargs": kw, "valid": valid, "near_saturation": near_sat and valid,
            "ambient": [rng.randint(0, 10 ** 6), rng.randint(0, 10 ** 6)]}


# ------------------------------------------------------------------------------------------------
# HOADmodel

def check_hoad(ctx, drv, case, secs=8.0):
    from hypergraphx.generation.activity_driven import HOADmodel
    N, orders, time = case["N"], case["orders"], case["time"]
    acts = [[Fraction(a) for a in v] for v in case["acts16"]]
    acts = [[a / 16 for a in v] for v in acts]
    apo = {o: [float(a) for a in v] for o, v in zip(orders, acts)}

    ambient(*case["ambient"])
    with recorder() as rec:
        st, T = limited(lambda: HOADmodel(N, apo, time=time), secs)
    log = rec.log
    key = ("hoad", N, tuple(orders), time, repr(case["acts16"]))
    if st == "timeout":
        return "timeout"
    if st != "ok":
        ctx.violation(case, f"HOADmodel raised on admissible arguments: {T}")
        return
    recs = [(norm(t), tuple(plain(e))) for (t, e) in T.get_edges()]
    for t, e in recs:
        if not (len(e) - 1 in apo):
            ctx.violation(case, f"hyperlink {(t, e)} has size {len(e)}, orders are {orders}")
        if not edge_ok(e, N):
            ctx.violation(case, f"hyperlink {(t, e)} has repeated nodes or nodes outside 0..{N-1}")
        if not (isinstance(t, int) and 0 <= t < time):
            ctx.violation(case, f"hyperlink {(t, e)} has a time outside [0, {time})")
    if not set(plain(T.get_nodes())) <= set(range(N)):
        ctx.violation(case, f"nodes {sorted(plain(T.get_nodes()))} not below {N}")
    # ---- correspondence
    entries, okpat = [], True
    for (src, name, a, k, r) in log:
        if (src, name) == ("py", "random"):
            entries.append([Fraction(r), 0, []])
        elif (src, name) == ("py", "sample") and entries and entries[-1][1] == 0:
            entries[-1][1] = 1
            entries[-1][2] = list(r)
        else:
            okpat = False
    emitted = sum(1 for e in entries if e[1])
    ctx.case(key + (repr(entries),), len(recs) >= 1, sample=case)
    ctx.count("hoad_cases")
    ctx.count("hoad_activations", emitted)
    if drv is None:
        return
    if not okpat:
        ctx.disagree(case, "draw pattern is not (random.random() [random.sample])*: "
                     + repr(sorted(set((s, nm) for (s, nm, a, k, r) in log))))
    want = hgxv.enc_lists(sorted([t] + list(e) for t, e in recs))
    a = drv.ask(f"hoad {N} {time} {hgxv.enc_list(orders)} {hgxv.enc_lists(acts)} {hgxv.enc_list([e[0] for e in entries])} "
                f"{hgxv.enc_list([e[1] for e in entries])} {hgxv.enc_lists([e[2] for e in entries])}")
    if a != want:
        ctx.disagree(case, f"hoad: model {a[:300]!r}, implementation {want[:300]!r}")


def gen_hoad(rng):
    N = rng.randint(2, 7)
    orders = rng.sample(range(0, min(3, N - 1) + 1), rng.randint(1, 2))
    acts16 = [[rng.choice([0, 0, 2, 4, 8, 12, 16, 16]) for _ in range(N)] for _ in orders]
    return {"routine": "hoad", "N": N, "orders": orders, "acts16": acts16, "time": rng.choice([0, 1, 2, 3, 4, 6]),
            "ambient": [rng.randint(0, 10 ** 6), rng.randint(0, 10 ** 6)]}


# ------------------------------------------------------------------------------------------------
# add_random_edge / add_random_edges

def call_result(arg_after, ret, rank):
    return "A " + show_snap(snapshot(arg_after, rank)) + " R " + ("none" if ret is None else show_snap(snapshot(ret, rank)))


def check_add(ctx, drv, case, secs=8.0):
    from hypergraphx.generation.random import add_random_edge, add_random_edges
    spec = case["hg"]
    rank = rank_of(spec)
    hg = build(spec)
    before = snapshot(hg, rank)
    before_inc = incidence_view(hg)
    kw = dict(case["kwargs"])
    many = case["k"] is not None

    def call():
        if many:
            return add_random_edges(hg, case["k"], **kw)
        return add_random_edge(hg, **kw)

    ambient(*case["ambient"])
    with recorder() as rec:
        st, ret = limited(call, secs)
    log = rec.log
    order, size, inplace = kw.get("order"), kw.get("size"), kw.get("inplace", True)
    s = size if size is not None else (order + 1 if order is not None else None)
    valid = case["valid"]
    cmd = (f"addedges {int(inplace)} {case['k']} {opt(order)} {opt(size)} " if many
           else f"addedge {int(inplace)} {opt(order)} {opt(size)} ")
    key = ("add", repr(spec), case["k"], repr(sorted(kw.items(), key=repr)))
    if st == "timeout":
        return "timeout"
    if st == "exc":
        if valid:
            ctx.violation(case, f"add_random_edge(s) raised on admissible arguments: {ret}")
        ctx.case(key + ("rej",), False, sample=case)
        if drv and not valid:
            a = drv.batch([load_line(before), cmd + "-"])[1]
            if not a.startswith("rej"):
                ctx.disagree(case, f"implementation rejects, model answers {a!r}")
        return
    if not valid:
        if drv:
            a = drv.batch([load_line(before), cmd + "-"])[1]
            if a.startswith("rej"):
                ctx.disagree(case, "model rejects the arguments, implementation accepted them")
        ctx.case(key + ("acc",), False)
        return
    after_arg = snapshot(hg, rank)
    out = after_arg if inplace else (snapshot(ret, rank) if ret is not None else None)
    # ---- property oracles
    if inplace and ret is not None:
        ctx.violation(case, "inplace=True returned an object")
    if not inplace:
        if ret is None:
            ctx.violation(case, "inplace=False returned nothing")
        if after_arg != before:
            ctx.violation(case, f"inplace=False changed its argument: {before} -> {after_arg}")
        elif incidence_view(hg) != before_inc:
            ctx.violation(case, f"inplace=False changed the incidence structure of its argument: {before_inc} -> {incidence_view(hg)}")
    changed = False
    if out is not None:
        if out[1] != before[1] or out[3] != before[3]:
            ctx.violation(case, f"node set / node metadata changed: {before[1]} -> {out[1]}")
        if out[0] != before[0]:
            ctx.violation(case, "weighted flag changed")
        for e, r in out[2].items():
            if e not in before[2]:
                changed = True
                if len(e) != s:
                    ctx.violation(case, f"added hyperedge {e} has size {len(e)}, requested {s}")
                if not set(e) <= set(before[1]) or len(set(e)) != len(e):
                    ctx.violation(case, f"added hyperedge {e} is not over existing distinct nodes")
        for e, r in before[2].items():
            if e not in out[2]:
                ctx.violation(case, f"hyperedge {e} disappeared")
            elif out[2][e] != r:
                # re-insertion of an existing hyperedge of the requested size follows add_edge (DESIGN reading)
                w_ok = out[2][e][0] == r[0] or (before[0] and out[2][e][0] > r[0])
                if len(e) != s or not w_ok or out[2][e][1] != 0:
                    ctx.violation(case, f"hyperedge {e} was {r}, now {out[2][e]} (not a re-insertion of a size-{s} hyperedge)")
                else:
                    changed = changed or before[0] or r[1] != 0
    # ---- correspondence
    draws = [[rank.get(norm(x), 10 ** 6) for x in r] for (src, name, a, k, r) in log if (src, name) == ("py", "sample")]
    bad = unexpected_sources(log, {("py", "sample"), ("py", "seed")})
    ctx.case(key + (repr(draws),), changed, sample=case)
    ctx.count("add_cases")
    if drv is None:
        return
    if bad:
        ctx.disagree(case, f"draws from sources the model does not use: {sorted(set(bad))}")
    want = call_result(hg, ret, rank)
    if many:
        a = drv.batch([load_line(before), cmd + hgxv.enc_lists(draws)])[1]
        want += " ret 1"
    else:
        a = drv.batch([load_line(before), cmd + (hgxv.enc_list(draws[0]) if len(draws) == 1 else "-")])[1]
        if len(draws) != 1:
            ctx.disagree(case, f"add_random_edge made {len(draws)} random.sample calls")
    if a != want:
        ctx.disagree(case, f"{cmd.split()[0]}: model {a!r}, implementation {want!r}")


def gen_add(rng, malformed=False):
    spec = gen_hg(rng)
    n = len(spec["labels"])
    many = rng.random() < 0.55
    s = rng.randint(1, min(n, 4))
    kw = {"size": s} if rng.random() < 0.5 else {"order": s - 1}
    if rng.random() < 0.7:
        kw["inplace"] = rng.random() < 0.5
    if rng.random() < 0.5:
        kw["seed"] = rng.randint(0, 1000)
    k = rng.randint(0, min(4, math.comb(n, s))) if many else None
    valid = True
    if malformed:
        valid = False
        m = rng.choice(["both", "neither", "toolarge"])
        kw.pop("size", None)
        kw.pop("order", None)
        if m == "both":
            kw.update({"size": s, "order": s - 1})
        elif m == "toolarge":
            kw["size"] = n + 1
            if many:
                k = max(k, 1)
    return {"routine": "add", "hg": spec, "k": k, "kwargs": kw, "valid": valid,
            "ambient": [rng.randint(0, 10 ** 6), rng.randint(0, 10 ** 6)]}


# ------------------------------------------------------------------------------------------------
# random_shuffle / random_shuffle_all_orders

def pfloat(pn, pd):
    if pd == 1 and pn in (0, 1):
        return pn  # python int 0 / 1
    return pn / pd


def check_shuffle(ctx, drv, case, secs=8.0):
    import numpy as np
    from hypergraphx.generation.random import random_shuffle, random_shuffle_all_orders
    spec = case["hg"]
    rank = rank_of(spec)
    hg = build(spec)
    before = snapshot(hg, rank)
    before_inc = incidence_view(hg)
    kw = dict(case["kwargs"])
    pn, pd = case["p"]
    allo = case["all_orders"]
    if case.get("p_given", True):
        kw["p"] = float(pn / pd) if case.get("p_float") else pfloat(pn, pd)
    sizes_order = [int(x) for x in set(hg.get_sizes())]
    cur_by_size = {s: [tuple(sorted(rank[norm(x)] for x in e)) for e in hg.get_edges(size=s)] for s in sizes_order}

    def call():
        if allo:
            return random_shuffle_all_orders(hg, **kw)
        return random_shuffle(hg, **kw)

    ambient(*case["ambient"])
    with recorder() as rec:
        st, ret = limited(call, secs)
    log = rec.log
    order, size, inplace = kw.get("order"), kw.get("size"), kw.get("inplace", True)
    pres = kw.get("preserve_degree", False)
    valid = case["valid"]
    if allo:
        cmd = f"shuffleall {int(inplace)} {pn} {pd} {hgxv.enc_list(sizes_order)} "
    else:
        cmd = f"shuffle {int(inplace)} {opt(order)} {opt(size)} {pn} {pd} {int(pres)} "
    key = ("shuffle", allo, repr(spec), repr(sorted(kw.items(), key=repr)))
    if st == "timeout":
        return "timeout"
    if st == "exc" or not valid:
        if valid:
            ctx.violation(case, f"random_shuffle{'_all_orders' if allo else ''} raised on admissible arguments: {ret}")
        ctx.case(key + (st,), False, sample=case)
        if drv and not valid:
            a = drv.batch([load_line(before), cmd + "- -"])[1]
            if a.startswith("rej") != (st == "exc"):
                ctx.disagree(case, f"implementation {'rejects' if st == 'exc' else 'accepts'}, model answers {a[:80]!r}")
        return
    after_arg = snapshot(hg, rank)
    out = after_arg if inplace else (snapshot(ret, rank) if ret is not None else None)
    # ---- recorded draws, split per shuffled size
    parts = []
    okpat = True
    for (src, name, a, k, r) in log:
        if (src, name) == ("py", "sample"):
            parts.append({"m": len(a[0]), "k": a[1], "idx": list(r), "choices": [], "pools": []})
        elif (src, name) == ("np", "choice") and parts:
            parts[-1]["choices"].append([rank.get(norm(x), 10 ** 6) for x in r])
            parts[-1]["pools"].append(([rank.get(norm(x), 10 ** 6) for x in a[0]], a[1], np.array(k.get("p")), k.get("replace")))
        elif (src, name) != ("np", "seed"):
            okpat = False
    targets = sizes_order if allo else [size if size is not None else order + 1]
    # ---- property oracles
    if not allo and inplace and ret is not None:
        ctx.violation(case, "inplace=True returned an object")
    if allo and inplace and ret is not hg:
        ctx.violation(case, "random_shuffle_all_orders(inplace=True) did not return its argument")
    if not inplace:
        if ret is None:
            ctx.violation(case, "inplace=False returned nothing")
        if after_arg != before:
            ctx.violation(case, f"inplace=False changed its argument: {before} -> {after_arg}")
        elif incidence_view(hg) != before_inc:
            ctx.violation(case, f"inplace=False changed the incidence structure of its argument: {before_inc} -> {incidence_view(hg)}")
    replaced_some = kept_some = False
    if out is not None:
        if out[1] != before[1] or out[3] != before[3]:
            ctx.violation(case, f"node set / node metadata changed: {before[1]} -> {out[1]}")
        for e, r in before[2].items():
            if len(e) not in targets and out[2].get(e) != r:
                ctx.violation(case, f"hyperedge {e} of size {len(e)} (not shuffled) was {r}, now {out[2].get(e)}")
        for e in out[2]:
            if e not in before[2] and len(e) not in targets:
                ctx.violation(case, f"new hyperedge {e} has a size that was not shuffled")
            if len(set(e)) != len(e):
                ctx.violation(case, f"hyperedge {e} has repeated nodes")
        if pn == 0 and (out[0], out[2]) != (before[0], before[2]):
            diff = {e: (before[2].get(e), out[2].get(e)) for e in set(before[2]) | set(out[2])
                    if before[2].get(e) != out[2].get(e)}
            ctx.violation(case, f"p = 0 changed the hypergraph (hyperedge: (weight, metadata) before, after): {diff}")
        # replacement nodes come from the rewired hyperedges (selection read from the recording)
        if len(parts) == len(targets) and okpat:
            for s, part in zip(targets, parts):
                cur = cur_by_size.get(s, [])
                sel = [cur[i] for i in part["idx"] if i < len(cur)]
                pool_nodes = set(x for e in sel for x in e)
                kept = set(e for i, e in enumerate(cur) if i not in part["idx"])
                replaced_some = replaced_some or bool(sel)
                kept_some = kept_some or bool(kept)
                for e in out[2]:
                    if len(e) == s and e not in kept and not set(e) <= pool_nodes:
                        ctx.violation(case, f"replacement hyperedge {e} uses nodes outside the rewired hyperedges {sorted(pool_nodes)}")
    nontrivial = (replaced_some and kept_some) or (pn == 0 and before[0] and any(r[1] for r in before[2].values()))
    ctx.case(key + (repr([(p["idx"], p["choices"]) for p in parts]),), nontrivial, sample=case)
    ctx.count("shuffle_cases")
    ctx.count("shuffle_p0", 1 if pn == 0 else 0)
    if drv is None:
        return
    if not okpat:
        ctx.disagree(case, "draw pattern is not (random.sample np.random.choice*)*: "
                     + repr(sorted(set((s_, nm) for (s_, nm, a, k, r) in log))))
    want = call_result(hg, ret, rank)
    if allo:
        if len(parts) != len(sizes_order):
            ctx.disagree(case, f"{len(parts)} index draws for {len(sizes_order)} sizes")
            return
        a = drv.batch([load_line(before), cmd + hgxv.enc_lists([p["idx"] for p in parts]) + " "
                       + hgxv.enc_listss([p["choices"] for p in parts])])[1]
        if a != want:
            ctx.disagree(case, f"shuffleall: model {a!r}, implementation {want!r}")
        return
    if len(parts) != 1:
        ctx.disagree(case, f"random_shuffle made {len(parts)} random.sample calls")
        return
    part = parts[0]
    a = drv.batch([load_line(before), cmd + hgxv.enc_list(part["idx"]) + " " + hgxv.enc_lists(part["choices"])])[1]
    if " P " not in a:
        ctx.disagree(case, f"shuffle: model {a!r}, implementation {want!r}")
        return
    a_call, a_pool = a.split(" P ")
    if a_call != want:
        ctx.disagree(case, f"shuffle: model {a_call!r}, implementation {want!r}")
    mp, mw, mk = a_pool.split(" ")
    if int(mk) != part["k"] or part["m"] != len(cur_by_size.get(targets[0], [])):
        ctx.disagree(case, f"number of hyperedges to randomize: model {mk}, implementation sampled {part['k']} of {part['m']}")
    mp, mw = hgxv.dec_list(mp), hgxv.dec_list(mw)
    tot = sum(mw)
    for pool, ksz, probs, repl in part["pools"]:
        want_p = dict(zip(mp, [w / tot for w in mw])) if tot else {}
        got_p = dict(zip(pool, [float(x) for x in probs]))
        if sorted(pool) != sorted(mp) or ksz != targets[0] or repl is not False or \
                any(abs(got_p[x] - want_p[x]) > 1e-12 for x in want_p):
            ctx.disagree(case, f"np.random.choice arguments: pool {pool} k={ksz} replace={repl} p={list(probs)}; "
                               f"model pool {mp} weights {mw}")
            break


def gen_shuffle(rng, malformed=False):
    spec = gen_hg(rng, shuffle_like=True)
    allo = rng.random() < 0.3
    sizes = sorted(set(len(e[0]) for e in spec["edges"])) or [2]
    s = rng.choice(sizes + [rng.randint(1, 4)])
    kw = {}
    if not allo:
        kw = {"size": s} if rng.random() < 0.5 else {"order": s - 1}
    if rng.random() < 0.8:
        kw["inplace"] = rng.random() < 0.5
    if rng.random() < 0.4:
        kw["preserve_degree"] = rng.random() < 0.7
    if rng.random() < 0.5:
        kw["seed"] = rng.randint(0, 1000)
    p = rng.choice([(0, 1), (0, 1), (0, 1), (1, 16), (1, 8), (1, 4), (1, 2), (1, 2), (3, 4), (7, 8), (1, 1), (1, 1)])
    case = {"routine": "shuffle", "hg": spec, "all_orders": allo, "kwargs": kw, "p": list(p), "valid": True,
            "p_given": not (p == (1, 1) and rng.random() < 0.5), "p_float": rng.random() < 0.5,
            "ambient": [rng.randint(0, 10 ** 6), rng.randint(0, 10 ** 6)]}
    if malformed:
        case["valid"] = False
        m = rng.choice(["both", "neither", "p"]) if not allo else "p"
        if m == "both":
            kw.pop("order", None)
            kw.update({"size": s, "order": s - 1})
        elif m == "neither":
            kw.pop("order", None)
            kw.pop("size", None)
        else:
            case["p"] = list(rng.choice([(-1, 4), (5, 4), (2, 1)]))
            case["p_given"] = True
    return case


# ------------------------------------------------------------------------------------------------

CHECKS = {"random": check_random, "scale_free": check_scale_free, "hoad": check_hoad, "add": check_add,
          "shuffle": check_shuffle}
GENS = {"random": gen_random, "scale_free": gen_scale_free, "hoad": gen_hoad, "add": gen_add, "shuffle": gen_shuffle}


def fixed_cases():
    """the inputs of DESIGN section 2 (D26, D27) - always run first"""
    amb = [1, 2]
    yield {"routine": "scale_free", "n": 10, "sizes": [2], "counts": [3], "scale_keys": [2], "scales": [1.0],
           "kwargs": {}, "valid": True, "ambient": amb}
    yield {"routine": "scale_free", "n": 10, "sizes": [2, 3], "counts": [3, 2], "scale_keys": [2, 3], "scales": [1.0, 2.0],
           "kwargs": {}, "valid": True, "ambient": amb}
    hg = {"labels": [0, 1, 2, 3, 4], "weighted": True, "node_md": {"1": 2},
          "edges": [[[0, 1], 2, 1], [[1, 2], 3, 2], [[2, 3, 4], 4, 3]]}
    yield {"routine": "shuffle", "hg": hg, "all_orders": False, "kwargs": {"size": 2, "seed": 3}, "p": [0, 1],
           "valid": True, "p_given": True, "p_float": True, "ambient": amb}
    yield {"routine": "shuffle", "hg": hg, "all_orders": True, "kwargs": {"inplace": False}, "p": [0, 1],
           "valid": True, "p_given": True, "p_float": False, "ambient": amb}


def attempt(ctx, drv, case, secs):
    """the outputs are observed through the public API of the returned objects; if that raises (e.g. a generator left
    dangling ids behind) the case is a failing input, not a crash of the tool"""
    try:
        return CHECKS[case["routine"]](ctx, drv, case, secs)
    except (RuntimeError, BrokenPipeError):
        raise  # the Lean driver died: tool failure
    except Exception as e:  # noqa: BLE001
        ctx.violation(case, f"{case['routine']}: the returned object / the argument cannot be observed any more: "
                            f"{type(e).__name__}: {str(e)[:120]}")
        return None


def run_case(ctx, drv, case):
    """a call that exceeds the alarm is repeated once with a four times longer limit before it counts as
    'does not return' (all generated requests are feasible and small: a healthy call takes milliseconds)"""
    if case.get("near_saturation"):
        # the rejection loop of a near-saturated request may legitimately need very many draws (termination is only
        # probabilistic): a slow call here is "no output", counted, never a violation
        if attempt(ctx, drv, case, 3.0) == "timeout":
            ctx.count("near_saturation_calls_abandoned")
        return
    if attempt(ctx, drv, case, 5.0) == "timeout":
        ctx.count("slow_calls_repeated")
        if attempt(ctx, drv, case, 20.0) == "timeout":
            ctx.violation(case, f"{case['routine']}: the call did not return within 20 s on a small feasible request")
            ctx.extra["nonreturning_call"] = True  # stop the run: every further case may cost 25 s


def run(ctx):
    drv = ctx.driver() if ctx.model_available else None
    import os
    if not os.environ.get("C14_NOFIXED"):
        for case in fixed_cases():
            if not ctx.extra.get("nonreturning_call"):
                run_case(ctx, drv, case)
    n = 0 if ctx.extra.get("nonreturning_call") else ctx.scale(6000, 400000)
    routines = ["random", "random", "scale_free", "scale_free", "hoad", "add", "add", "shuffle", "shuffle", "shuffle"]
    for i in range(n):
        r = routines[i % len(routines)]
        malformed = r != "hoad" and ctx.rng.random() < 0.12
        case = GENS[r](ctx.rng, malformed) if r != "hoad" else GENS[r](ctx.rng)
        run_case(ctx, drv, case)
        if ctx.too_many() or ctx.extra.get("nonreturning_call") or (ctx.time_left() is not None and ctx.time_left() < 8):
            break


def replay(ctx, case):
    drv = ctx.driver() if ctx.model_available else None
    run_case(ctx, drv, case)
