"""C14 - random generators: correspondence of lean/Hgxv/Model/C14.lean with hypergraphx.generation.{random,
scale_free,activity_driven} on recorded draws, and independent property oracles on the implementation."""
import itertools
import math
import random
import signal
from fractions import Fraction

import hgxv

RULE = ("seven routines, one case = one call with explicit arguments and explicit ambient RNG seeds (the draws are "
        "recorded by patching random.* / np.random.* and replayed in the Lean model): random_hypergraph / "
        "random_uniform_hypergraph (n 0-9, 1-3 sizes in any order, counts 0-6, seed None / 0 / small / beyond 2**64 / negative), "
        "scale_free_hypergraph (n 0-10, sizes 1-4, feasible counts incl. 0 and near-saturated ones, scale map with its keys in "
        "another order, correlated or not, corr_target omitted / 0..1, num_shuffles, default arguments), HOADmodel "
        "(N 0-7, 0-2 orders in any order, dyadic activities incl. 0 and 1, time 0-6 or the default; activity vectors of "
        "length N, LONGER than N with active surplus entries, shorter than N), add_random_edge(s) and "
        "random_shuffle(_all_orders) on hypergraphs built through a history (temporary hyperedges / node removed again) with "
        "0-9 nodes whose labels are small ints, ints around 2**53 / 2**63 / 2**64 mixed with small and negative ones, "
        "floats, ints mixed with floats, letters, numeric strings or ragged tuples - every label a freshly constructed "
        "object; weighted with metadata or not, isolated nodes; order= or size=, inplace or not, p in {0, 1/16 .. 1}, "
        "preserve_degree, seed None / 0 / other. ARGUMENT TYPES vary independently: ints as Python / numpy int64 / int32, "
        "counts also as 3.0 where the routine converts them, p as int 0/1 / float / numpy float64 / float32, "
        "maps as dict / OrderedDict / read-only proxy, activity vectors as list / tuple / numpy float64, int "
        "arrays / dict node->activity / Fractions / bools / Decimals / numpy scalars. VALUE TYPES (30 % of the valid cases, "
        "`vals`: slot -> object): every numeric argument also as bool, numpy bool, 0-d array, float (integral or not), numpy "
        "float64 / float32, Fraction, Decimal, numeric str / bytes - with the meaning the unchanged code gives it (index: "
        "n, N, time, sizes, orders, num_shuffles; int(): counts of scale_free_hypergraph, 3.7 and ' 3 ' mean 3; passes of "
        "`while len(..) < x`: counts of random_hypergraph and k of add_random_edges, 2.5 means 3; value: p as Fraction / "
        "Decimal with any denominator incl. a/m for the m hyperedges of the size, corr_target, scales; truthiness: inplace, "
        "correlated, preserve_degree; seeds as float / str / bytes / bool) or, in 15 % of them, one object the unchanged "
        "code refuses (float n, float size, str count for a loop, '3.0' for int(), numpy int for random.seed, float / "
        "negative / 2**32 for np.random.seed: the call must raise - correspondence only). A few large requests (n up to "
        "160, 140 hyperedges per size; 22-26 hyperedges of one size for the shuffles). After every inplace=False call the RESULT is mutated (in-place "
        "shuffle, add / remove hyperedge, metadata) and the argument is inspected again. Plus a malformed stream "
        "(both/neither of order and size, p outside [0,1], size larger than the node set, invalid scale-free argument "
        "combinations, activity vector too short, order above N; the number of the ValueError of the validation is compared "
        "with the model's first failing check). For scale_free_hypergraph the COMPLETE sequence of np.random calls is compared "
        "with the trace model; for add_random_edge(s) / random_shuffle(_all_orders) also the node, hypergraph-level and incidence "
        "metadata tables of the argument and of the result. "
        "A case is distinct by routine + arguments + recorded draws; non-trivial: random = a duplicate sample collapsed or "
        ">= 2 sizes; scale-free = >= 2 hyperedges; HOAD = at least one hyperlink emitted; add = a hyperedge was added or "
        "re-inserted on a weighted/metadata input; shuffle = some hyperedge replaced and some kept, or p = 0 on a weighted "
        "input with metadata")
ASSUMPTIONS = [
    "sampler contracts (trusted): random.sample(pop,k) and np.random.choice(pop,k,replace=False) return k distinct members of pop; random.random() in [0,1); seeding a source determines its later draws",
    "requests to the rejection loops are feasible (count <= C(n,size)): C14_saturation proves that a larger request is met by NO draw list and C14_rejection_loop that the loop stops at the first prefix holding k distinct hyperedges; termination with probability one (a statement about the distribution of the draws) is outside, the harness bounds every call by an alarm",
    "labels are mapped to their rank in sorted order (labels of one hypergraph are mutually comparable); weights are small integers; metadata are tokens {'k': t}",
    "HOADmodel: admissible = every activity vector has AT LEAST N entries (surplus ignored) and order <= N; shorter vectors / larger orders are compared with the model's `raised` only; activities are dyadic so that `act > random()` is exact",
    "p is a dyadic float or an exact rational (Fraction / Decimal / bool) so that int(p * num_edges) equals the exact floor",
    "value types: which objects a routine takes and what they mean was measured on the unchanged tree with Python 3.12 / NumPy 2.5 (operator.index, int(), `len < x`, random.seed, np.random.seed are Python's / NumPy's own); the harness recomputes the meaning with plain Python, the Lean model (C14Raw.lean) decides it from a value-typed token",
    "node, hypergraph-level and incidence metadata are tokens in the model HGM (Model/C14Meta.lean); the instances carry a hypergraph-level entry 'k' and incidence entries that are a deterministic function of the spec; the other entries of the hypergraph-level dict ('weighted', 'type') are compared as text by the oracles only",
    "scale_free_hypergraph: the Spearman test and the exponential values are floats outside the model - the trace model fixes the NUMBER and ORDER of the np.random calls (exponential once per size, num_shuffles swaps, Spearman swaps only with a corr_target != 1 after the first size, every choice with its size)",
    "object identity: hg.copy() yields a new object (model: finishObj allocates a fresh id); its depth is checked by mutating the result",
]
TRUSTED = ["recording of draws by attribute patching (hgxv.Recorder): the routines look up random.sample, random.random, "
           "random.seed, np.random.seed, np.random.choice, np.random.exponential at call time"]
BUDGET_S = {"quick": 50, "thorough": 800}


# ------------------------------------------------------------------------------------------------
# helpers

class Timeout(BaseException):
    pass


SF_MESSAGES = {"Cannot shuffle if correlated == False": 1, "Cannot shuffle negative number of times": 2,
               "Correlation must be between 0 and 1": 3, "Cannot provide correlation value if correlated == False": 4,
               "Cannot provide both correlation value and number of shuffles": 5, "Must provide scale for each edge size": 6,
               "Must provide number of edges for each edge size": 7, "Number of edges must be non-negative": 8}
ARG_MESSAGES = {"Order and size cannot be both specified.": 1, "Order or size must be specified.": 2,
                "p must be between 0 and 1.": 3}


def err_code(text, table):
    """number of the documented ValueError of the validation (`sfError` / `argError` of the model), 'none' for any
    other exception (raised later, by the sampler)"""
    kind, _, msg = str(text).partition(": ")
    return str(table[msg.strip()]) if kind == "ValueError" and msg.strip() in table else "none"


def limited(f, secs=8.0):
    """run f() with an alarm; ('ok', value) | ('exc', text) | ('timeout', None)"""
    def handler(sig, frm):
        raise Timeout()
    old = signal.signal(signal.SIGALRM, handler)
    signal.setitimer(signal.ITIMER_REAL, secs)
    try:
        return ("ok", f())
    except Timeout:
        return ("timeout", None)
    except Exception as e:  # noqa: BLE001 - an unexpected exception is an observation
        return ("exc", (type(e).__name__ + ": " + str(e))[:160])
    finally:
        signal.setitimer(signal.ITIMER_REAL, 0)
        signal.signal(signal.SIGALRM, old)


def norm(x):
    """numpy scalars -> python (inside tuple labels too)"""
    try:
        import numpy as np
        if isinstance(x, np.generic):
            return x.item()
    except Exception:
        pass
    if isinstance(x, tuple):
        return tuple(norm(y) for y in x)
    return x


def mk_int(x, kind):
    """an integer argument as the caller may hold it: Python int, numpy int64 / int32"""
    import numpy as np
    if x is None or kind in (None, "py") or abs(x) >= 2 ** 63:
        return x
    if kind == "np32" and abs(x) >= 2 ** 31:
        kind = "np64"
    return {"np64": np.int64, "np32": np.int32}[kind](x)


def mk_count(x, kind):
    """a count as scale_free_hypergraph accepts it (it applies int(..)): int, numpy int, 3.0"""
    if kind == "float":
        return float(x)
    return mk_int(x, kind)


def mk_float(x, kind):
    """a real argument: Python float, int (only for integral values), numpy float64 / float32 (x is dyadic: exact)"""
    import numpy as np
    if x is None:
        return None
    if kind == "int" and float(x) == int(x):
        return int(x)
    if kind == "np64f":
        return np.float64(x)
    if kind == "np32f":
        return np.float32(x)
    return float(x)


def mk_map(items, kind):
    """a size -> value map: dict, OrderedDict, read-only proxy (insertion order = the order of `items`)"""
    import collections
    import types
    d = dict(items)
    if kind == "odict":
        return collections.OrderedDict(items)
    if kind == "proxy":
        return types.MappingProxyType(d)
    return d


# ---- argument VALUE TYPES ----------------------------------------------------------------------------------------
# A case may carry `vals`: slot -> value descriptor.  A slot names one numeric argument ("n", "counts.0", "sizes.1",
# "k", "p", "seed", ..); its descriptor says WHICH PYTHON OBJECT the caller hands in for it.  The canonical integers of
# the case (case["counts"], ..) are the numbers the UNCHANGED code works with for these objects (measured on the tree:
# notes/C14.md, round d); the Lean model (`Hgxv/Model/C14Raw.lean`, driver commands ending in R) receives the objects as
# value-typed tokens and decides itself what they mean or that the call raises.
INTLIKE = ("py", "np64", "np32", "npu8", "arr0")     # Num.int : have __index__
REALS = ("float", "np64f", "np32f", "frac", "dec", "npbool")   # Num.real: no __index__, convert / compare by value
TEXTS = ("str", "bytes")                              # Num.text: int() parses them, `<` with a number raises


def mk_val(vd):
    """value descriptor (JSON-able list) -> a FRESHLY built Python object"""
    import decimal
    import numpy as np
    k = vd[0]
    if k == "py":
        return int(str(vd[1]))
    if k == "np64":
        return np.int64(vd[1])
    if k == "np32":
        return np.int32(vd[1])
    if k == "npu8":
        return np.uint8(vd[1])
    if k == "arr0":
        return np.array(vd[1])
    if k == "bool":
        return bool(vd[1])
    if k == "npbool":
        return np.bool_(vd[1])
    if k == "float":
        return float(repr(float(vd[1])))
    if k == "np64f":
        return np.float64(vd[1])
    if k == "np32f":
        return np.float32(vd[1])
    if k == "frac":
        return Fraction(vd[1], vd[2])
    if k == "dec":
        return decimal.Decimal(vd[1])
    if k == "str":
        return "".join(list(vd[1]))
    if k == "bytes":
        return vd[1].encode()
    if k == "truth":
        return {"True": True, "False": False, "1": 1, "0": 0, "np1": np.bool_(True), "np0": np.bool_(False),
                "yes": "yes", "empty": "", "none": None, "2.5": 2.5, "0.0": 0.0, "list": [0], "nolist": []}[vd[1]]
    raise ValueError("unknown value descriptor " + repr(vd))


def exact(vd):
    """exact rational value of a numeric descriptor (None for text)"""
    import decimal
    import numpy as np
    k = vd[0]
    if k in INTLIKE or k in ("bool", "npbool"):
        return Fraction(int(vd[1]))
    if k == "float" or k == "np64f":
        return Fraction(float(vd[1]))
    if k == "np32f":
        return Fraction(float(np.float32(vd[1])))
    if k == "frac":
        return Fraction(vd[1], vd[2])
    if k == "dec":
        return Fraction(decimal.Decimal(vd[1]))
    return None


def num_tok(vd):
    """the object as the Lean model receives it (`Num`): i<int> | b0/b1 | q<num>/<den> | s<int> / sx.  For text the
    integer literal is read by Python's own int() - the language, not the library."""
    k = vd[0]
    if k in INTLIKE:
        return "i%d" % int(vd[1])
    if k == "bool":
        return "b%d" % int(bool(vd[1]))
    if k in TEXTS:
        try:
            return "s%d" % int(mk_val(vd))
        except ValueError:
            return "sx"
    fr = exact(vd)
    return "q%d/%d" % (fr.numerator, fr.denominator)


def py_index(vd):
    """what range(x) / random.sample(pop, x) / [None] * x see: operator.index (None = TypeError)"""
    import operator
    try:
        return operator.index(mk_val(vd))
    except TypeError:
        return None


def py_int(vd):
    """int(x) (None = it raises)"""
    try:
        return int(mk_val(vd))
    except (TypeError, ValueError, OverflowError):
        return None


def py_loop(vd, cap=200):
    """number of passes of `acc = []; while len(acc) < x: acc.append(..)`, by running exactly that loop (None = the
    test raises or the loop does not stop within `cap` passes)"""
    x = mk_val(vd)
    acc = []
    try:
        while len(acc) < x:
            acc.append(0)
            if len(acc) > cap:
                return None
    except TypeError:
        return None
    return len(acc)


def seed_refused(obj, source):
    """does the seeding function of the source refuse this object?  Asked of a PRIVATE generator of the same kind
    (random.Random / np.random.RandomState), never of the library"""
    import numpy as np
    if obj is None:
        return False
    try:
        if source == "py":
            random.Random().seed(obj)
        else:
            np.random.RandomState().seed(obj)
        return False
    except (TypeError, ValueError):
        return True


def slot_val(case, slot, fallback):
    """the object for an argument slot: from `vals` when the case retypes the slot, else `fallback()`"""
    vd = (case.get("vals") or {}).get(slot)
    return mk_val(vd) if vd is not None else fallback()


def slot_tok(case, slot, canonical):
    vd = (case.get("vals") or {}).get(slot)
    return num_tok(vd) if vd is not None else "i%d" % int(canonical)


def slot_meaning(case, slot, canonical, meaning):
    """the integer the unchanged code works with for this slot, recomputed by plain Python (`meaning`: py_index /
    py_int / py_loop) when the slot is retyped; the canonical value of the case otherwise / when Python refuses"""
    vd = (case.get("vals") or {}).get(slot)
    if vd is None:
        return canonical
    m = meaning(vd)
    return canonical if m is None else m


def toks(case, slot, canon_list):
    return ",".join(slot_tok(case, f"{slot}.{i}", c) for i, c in enumerate(canon_list)) if canon_list else "-"


def real_near(rng, lo, hi, kinds=("float", "float", "np64f", "np32f", "frac", "frac", "dec")):
    """a real-typed descriptor with a value in the half-open interval (lo, hi] (hi an integer)"""
    kind = rng.choice(kinds)
    if kind in ("float", "np64f"):
        d = rng.choice([0.0, 0.0, 0.25, 0.5, 0.3, 0.65, 0.999])
        return [kind, hi - d * (hi - lo)]
    if kind == "np32f":
        return [kind, hi - rng.choice([0.0, 0.25, 0.5, 0.75]) * (hi - lo)]
    if kind == "frac":
        den = rng.choice([1, 2, 3, 7, 10])
        num = hi * den - rng.randint(0, den - 1) * (hi - lo)
        return ["frac", int(num), den]
    d = rng.choice(["0", "0.1", "0.5", "0.75"])
    import decimal
    return ["dec", str(decimal.Decimal(hi) - decimal.Decimal(d) * (hi - lo))]


def pick_val(rng, role, c, rej=False, key=False):
    """a value descriptor for an argument whose MEANING under the unchanged code is the integer `c`
    (rej: a descriptor of the same number that the unchanged code refuses).  key: the object is a dict key (hashable).
    roles: index (range, random.sample), npsize (a NumPy size), loop (`while len(acc) < x`), intconv (`int(x)`),
    samekey (only compared / hashed as a dict key)"""
    ints = [["py", c], ["np64", c], ["np32", c]] + ([["npu8", c]] if 0 <= c < 256 else []) + ([] if key else [["arr0", c]])
    bools = [["bool", c]] if c in (0, 1) else []
    npbools = [["npbool", c]] if c in (0, 1) else []
    # (a Decimal cannot be compared with a numpy integer - TypeError - so it is no dict key next to numpy keys)
    integral_reals = [["float", float(c)], ["np64f", float(c)], ["np32f", float(c)], ["frac", c, 1]] + ([] if key else [["dec", str(c)]])
    if role == "index":
        pool = (integral_reals + npbools + ([] if key else [["str", str(c)]])) if rej else (ints + bools * 3)
    elif role == "npsize":
        pool = (integral_reals + bools * 4 + npbools) if rej else ints
    elif role == "samekey":
        pool = ints + bools + integral_reals
    elif role == "loop":
        if rej:
            pool = [["str", str(c)], ["str", str(c)], ["bytes", str(c)]]
        elif c >= 1:
            pool = ints + bools + npbools + [real_near(rng, c - 1, c) for _ in range(6)]
        else:
            pool = ints + bools + npbools + [["float", 0.0], ["float", -0.0], ["float", -0.5], ["py", -2], ["np64", -1],
                                             ["frac", -7, 2], ["dec", "-0.1"], ["np64f", -3.0], ["np32f", 0.0]]
    elif role == "intconv":
        if rej:
            pool = [["str", f"{c}.0"], ["str", "abc"], ["str", ""], ["str", f"{c}e0"],
                    ["str", f"-{c + 1}"], ["float", -1.0 - c], ["py", -1 - c], ["bytes", "x"]]
        else:
            texts = [["str", str(c)], ["str", f" {c} "], ["str", f"+{c}"], ["str", f"0{c}"], ["str", f"{c}\n"],
                     ["bytes", str(c)]]
            # int() truncates toward zero: every real in [c, c+1) means c; for c = 0 also (-1, 0]
            reals = [real_near(rng, c + 1, c) for _ in range(6)] + [["float", float(c)], ["np64f", c + 0.5]]
            if c == 0:
                reals += [["float", -0.5], ["float", -0.99], ["frac", -1, 3], ["dec", "-0.9"]]
            pool = ints + bools + npbools + texts + reals
    else:
        raise ValueError(role)
    return rng.choice(pool) if pool else None


def lab(x):
    """label of a spec (JSON-able: int, float, str, list for a tuple label) -> a FRESHLY constructed label object:
    no two uses of a label share the object (ints > 256, run-time strings, floats, tuples)"""
    if isinstance(x, (list, tuple)):
        return tuple(lab(y) for y in x)
    if isinstance(x, bool):
        return x
    if isinstance(x, int):
        return int(str(x))
    if isinstance(x, float):
        return float(repr(x))
    if isinstance(x, str):
        return "".join(list(x))
    return x


def plain(xs):
    return [norm(x) for x in xs]


def recorder():
    import numpy as np
    rec = hgxv.Recorder()
    rec.patch(random, "seed", "py")
    rec.patch(random, "sample", "py", conv=lambda r: list(r))
    rec.patch(random, "random", "py")
    for name in ("choice", "choices", "randint", "randrange", "shuffle", "uniform", "getrandbits"):
        rec.patch(random, name, "py-other", conv=lambda r: None)
    rec.patch(np.random, "seed", "np")
    rec.patch(np.random, "choice", "np", conv=lambda r: plain(r) if hasattr(r, "__iter__") else norm(r))
    rec.patch(np.random, "exponential", "np", conv=lambda r: None)
    for name in ("rand", "random", "randint", "permutation", "shuffle", "random_sample", "uniform"):
        rec.patch(np.random, name, "np-other", conv=lambda r: None)
    return rec


def ambient(a, b):
    import numpy as np
    random.seed(a)
    np.random.seed(b)


MD_POOL = 6


def md_of(tok):
    return {} if tok == 0 else {"k": tok}


def tok_of(md):
    if md == {}:
        return 0
    if isinstance(md, dict) and list(md.keys()) == ["k"] and isinstance(md["k"], int):
        return md["k"]
    return 999


def build(spec):
    """spec: dict(labels, weighted, edges=[(nodes, w, tok)], node_md={position of the label: tok}, temp=[nodes..],
    temp_node=label|None) -> Hypergraph.  Every label is a fresh object at every use.  History: the hyperedges of `temp`
    are inserted first and removed at the end, `temp_node` is added (with a hyperedge) and removed again - so that the
    internal ids have gaps and the instance is not a freshly filled one."""
    from hypergraphx import Hypergraph
    h = Hypergraph(weighted=spec["weighted"])
    for pos, x in enumerate(spec["labels"]):
        h.add_node(lab(x), metadata=md_of(spec["node_md"].get(str(pos), 0)) or None)
    final = set(tuple(sorted(lab(n) for n in nodes)) for nodes, w, tok in spec["edges"])
    temps = []
    for t in spec.get("temp", []):
        c = tuple(sorted(lab(n) for n in t))
        if c not in final and c not in [tuple(sorted(u)) for u in temps]:
            temps.append(tuple(lab(n) for n in t))
    for t in temps:
        h.add_edge(tuple(lab(n) for n in t), weight=7 if spec["weighted"] else None, metadata={"k": 5})
    tn = spec.get("temp_node")
    if tn is not None and spec["labels"]:
        h.add_node(lab(tn))
        h.add_edge((lab(tn), lab(spec["labels"][0])), weight=2 if spec["weighted"] else None)
    for nodes, w, tok in spec["edges"]:
        h.add_edge(tuple(lab(n) for n in nodes), weight=w if spec["weighted"] else None, metadata=md_of(tok))
    if tn is not None and spec["labels"]:
        h.remove_node(lab(tn), keep_edges=False)
    for t in temps:
        h.remove_edge(tuple(lab(n) for n in t))
    # hypergraph-level and incidence metadata (a deterministic function of the spec, no draw of the case generator)
    try:
        hm, inc = extra_md(spec)
        if hm:
            h.set_attr_to_hypergraph_metadata("k", hm)
        for j, pos, tok in inc:
            nodes = spec["edges"][j][0]
            h.set_incidence_metadata(tuple(lab(n) for n in nodes), lab(nodes[pos]), {"k": tok})
    except Exception:  # noqa: BLE001 - a changed class may refuse; the instance is then simply without these tables
        pass
    return h


def extra_md(spec):
    import zlib
    x = zlib.crc32(repr((spec["labels"], spec["edges"], spec["weighted"])).encode())
    hm = x % 4
    inc = []
    if (x >> 2) % 3 != 0:
        for j, (nodes, w, tok) in enumerate(spec["edges"][:3]):
            if nodes and (x >> (4 + j)) % 2:
                inc.append((j, (x >> (8 + j)) % len(nodes), 1 + (x >> (12 + 2 * j)) % 5))
    return hm, inc


def meta_view(h, rank):
    """the tables the content does not show: node metadata, hypergraph-level metadata, incidence metadata
    ([node rank, tok] sorted; token of the 'k' entry; [tok, node rank, hyperedge ranks..] sorted; the other entries of the
    hypergraph-level dict as text)"""
    def rk(x):
        x = norm(x)
        try:
            return rank.get(x, 10 ** 6 + (abs(hash(repr(x))) % 1000))
        except TypeError:
            return 10 ** 6 + 999
    try:
        nm = sorted([rk(x), tok_of(h.get_node_metadata(x))] for x in h.get_nodes())
        hmd = h.get_hypergraph_metadata()
        hm = tok_of({"k": hmd["k"]}) if isinstance(hmd, dict) and "k" in hmd else (0 if isinstance(hmd, dict) else 999)
        rest = repr(sorted((repr(k), repr(v)) for k, v in hmd.items() if k != "k")) if isinstance(hmd, dict) else repr(hmd)
        im = sorted([tok_of(v), rk(n)] + sorted(rk(y) for y in e) for (e, n), v in h.get_all_incidences_metadata().items())
    except Exception as ex:  # noqa: BLE001 - an observation
        return ("exc", type(ex).__name__, str(ex)[:80], "")
    return (nm, hm, im, rest)


def show_meta(mv):
    return f"{hgxv.enc_lists(mv[0])} {mv[1]} {hgxv.enc_lists(mv[2])}"


def loadm_line(mv):
    return "loadm " + show_meta(mv)


def call_result_m(arg_after, ret, rank):
    def one(h):
        return show_snap(snapshot(h, rank)) + " M " + show_meta(meta_view(h, rank))
    return "A " + one(arg_after) + " R " + ("none" if ret is None else one(ret))


def check_meta(ctx, case, what, mv_before, hg, ret, rank, inplace, result_too):
    """'leave everything else intact' / 'leave their argument untouched' for the metadata tables"""
    mv_arg = meta_view(hg, rank)
    if not inplace and mv_arg != mv_before:
        ctx.violation(case, f"{what}(inplace=False) changed the metadata tables of its argument (node md, hypergraph md, "
                            f"incidence md, other hypergraph entries): {mv_before} -> {mv_arg}")
    if result_too:
        mv_out = mv_arg if inplace else (meta_view(ret, rank) if ret is not None else None)
        if mv_out is not None and mv_out != mv_before:
            ctx.violation(case, f"{what}: node / hypergraph-level / incidence metadata changed: {mv_before} -> {mv_out}")


def prepare(case):
    """the object the checked call works on: built through its history (`build`), then passed through the generators
    themselves (`prefix`): earlier add_random_edges / random_shuffle(_all_orders) calls, in place (the mutated original)
    or not (then the RETURNED copy is the object under test)"""
    from hypergraphx.generation.random import add_random_edges, random_shuffle, random_shuffle_all_orders
    hg = build(case["hg"])
    for op in case.get("prefix", []):
        ambient(*op["amb"])
        if op["op"] == "adds":
            r = add_random_edges(hg, op["k"], size=op["size"], inplace=op["inplace"])
        elif op["op"] == "shuffle":
            r = random_shuffle(hg, size=op["size"], p=op["p"], inplace=op["inplace"])
        else:
            r = random_shuffle_all_orders(hg, p=op["p"], inplace=op["inplace"])
        if not op["inplace"]:
            hg = r
    return hg


def prepared(case, secs):
    """prepare(case) under the alarm: ('ok', hg) | ('timeout', None); an exception while the object is built through
    the routines is a failing input (reported by `attempt`)"""
    st, hg = limited(lambda: prepare(case), secs)
    if st == "exc":
        raise ValueError("building the argument through " + repr(case.get("prefix")) + " failed: " + str(hg))
    return st, hg


def gen_prefix(rng, spec):
    n = len(spec["labels"])
    ops = []
    if n < 2 or rng.random() > 0.25:
        return ops
    for _ in range(rng.randint(1, 2)):
        kind = rng.choice(["adds", "shuffle", "shuffle_all"])
        op = {"op": kind, "inplace": rng.random() < 0.5, "amb": [rng.randint(0, 10 ** 6), rng.randint(0, 10 ** 6)]}
        if kind == "adds":
            op.update({"k": rng.randint(1, 2), "size": rng.randint(1, min(n - 1, 3))})   # C(n, size) >= 2: feasible
        else:
            op.update({"size": rng.randint(1, min(n, 3)), "p": rng.choice([0.5, 1.0, 1.0])})
        ops.append(op)
    return ops


def snapshot(h, rank):
    """(weighted, sorted node ranks, {edge ranks: (w, tok)}, {node rank: md}) ; unknown labels get rank 10**6+"""
    def rk(x):
        x = norm(x)
        try:
            return rank.get(x, 10 ** 6 + (abs(hash(repr(x))) % 1000))
        except TypeError:
            return 10 ** 6 + 999
    nodes = sorted(rk(x) for x in h.get_nodes())
    edges = {}
    for e in h.get_edges():
        edges[tuple(sorted(rk(x) for x in e))] = (norm(h.get_weight(e)), tok_of(h.get_edge_metadata(e)))
    nmd = {rk(x): repr(h.get_node_metadata(x)) for x in h.get_nodes()}
    return (bool(h.is_weighted()), nodes, edges, nmd)


def incidence_view(h):
    """what every incidence query of the argument answers: per node the sorted incident hyperedges and the degree
    (an exception is an observation) - 'leave the argument untouched' includes its incidence structure"""
    out = {}
    for x in sorted(h.get_nodes(), key=repr):
        try:
            out[repr(x)] = (sorted(tuple(sorted(e, key=repr)) for e in h.get_incident_edges(x)), h.degree(x),
                            sorted(h.get_neighbors(x), key=repr))
        except Exception as ex:
            out[repr(x)] = "exc:" + type(ex).__name__
    return out


def show_snap(s):
    ks = sorted(s[2])
    return " ".join([hgxv.enc_num(s[0]), hgxv.enc_list(s[1]), hgxv.enc_lists(ks),
                     hgxv.enc_list([s[2][k][0] for k in ks]), hgxv.enc_list([s[2][k][1] for k in ks])])


def load_line(s):
    ks = list(s[2])  # insertion order of get_edges
    return "load " + " ".join([hgxv.enc_num(s[0]), hgxv.enc_list(s[1]), hgxv.enc_lists(ks),
                               hgxv.enc_list([s[2][k][0] for k in ks]), hgxv.enc_list([s[2][k][1] for k in ks])])


def opt(x):
    return "-1" if x is None else str(x)


BIG = [2 ** 53 + 1, 2 ** 53 + 2, 2 ** 63 - 1, 2 ** 63, 2 ** 63 + 5, 2 ** 64 - 1, 2 ** 64 + 3, 2 ** 70, -(2 ** 63) - 2, -3, -1, 0, 5, 300]


def gen_labels(rng, n, kind):
    """n (+1 spare) distinct, mutually comparable labels of one kind, JSON-able"""
    m = n + 1
    if kind == "letters":
        return rng.sample([chr(97 + i) * rng.randint(1, 2) for i in range(20)], m)
    if kind == "numstr":
        return [str(x) for x in rng.sample(range(0, 130), m)]
    if kind == "bigint":
        return rng.sample(BIG, m)
    if kind == "float":
        return [x / 4 for x in rng.sample(range(-8, 60), m)]          # 0.25, 2.5, also integral ones like 3.0
    if kind == "mixednum":
        ints = rng.sample(range(0, 20), m)
        return [x if rng.random() < 0.5 else x + rng.choice([0.25, 0.5, 0.75]) for x in ints]
    if kind == "tuple":
        pool = [[a] for a in range(4)] + [[a, b] for a in range(3) for b in range(3)] + [[a, b, 1] for a in range(2) for b in range(3)]
        return rng.sample(pool, m)
    return rng.sample(range(0, 30), m)


LABEL_KINDS = ["int"] * 10 + ["letters", "letters", "numstr", "numstr", "bigint", "bigint", "float", "float", "mixednum", "tuple", "tuple"]


def gen_hg(rng, shuffle_like=False):
    n = rng.choice([0, 1, 2, 2, 3, 3, 4, 4, 5, 5, 6, 6, 7, 8, 9])
    kind = rng.choice(LABEL_KINDS)
    labels = gen_labels(rng, n, kind)
    spare, labels = labels[-1], sorted(labels[:-1], key=lab)
    if rng.random() < 0.3:
        rng.shuffle(labels)                                       # nodes are not inserted in sorted order
    weighted = rng.random() < 0.55
    edges, seen = [], set()
    sizes = rng.sample([1, 2, 2, 3, 3, 4], rng.randint(1, 3)) if shuffle_like else [1, 2, 2, 3, 3, 4]

    def some_edge():
        s = min(n, rng.choice(sizes))
        return sorted(rng.sample(labels, s), key=lab)
    for _ in range(0 if n == 0 else (rng.randint(0, 10) if not shuffle_like else rng.randint(2, 12))):
        e = some_edge()
        if repr(e) in seen:
            continue
        seen.add(repr(e))
        edges.append((e, rng.randint(1, 9) if weighted else 1, rng.choice([0, 0, 1, 2, 3, 4, 5])))
    node_md = {str(pos): rng.randint(1, 5) for pos in range(n) if rng.random() < 0.3}
    spec = {"labels": labels, "weighted": weighted, "edges": edges, "node_md": node_md, "label_kind": kind}
    if n >= 2 and rng.random() < 0.35:
        spec["temp"] = [some_edge() for _ in range(rng.randint(1, 3))]
    if n >= 1 and rng.random() < 0.25:
        spec["temp_node"] = spare
    return spec


def rank_of(spec):
    return {lab(x): i for i, x in enumerate(sorted(spec["labels"], key=lab))}


def check_independent(ctx, case, hg, ret, rank, before, before_inc, what):
    """'with inplace=False leave their argument untouched': the returned hypergraph must be ANOTHER object than the
    argument, and whatever the caller does to the returned hypergraph afterwards (in-place shuffle, add / remove a
    hyperedge, a node, metadata edits) the argument keeps its nodes, hyperedges, weights, metadata and incidence
    structure.  Runs after all other comparisons (the returned object is used up by it)."""
    from hypergraphx.generation.random import random_shuffle_all_orders
    if ret is None:
        return
    if ret is hg:
        ctx.violation(case, f"{what}(inplace=False) returned its argument itself, not a new hypergraph: a later change of "
                            f"the result changes the argument")
        return
    ambient(case["ambient"][0] + 5, case["ambient"][1] + 7)
    edges = list(ret.get_edges())
    nodes = list(ret.get_nodes())
    pokes = [lambda: random_shuffle_all_orders(ret, p=1.0, inplace=True),
             lambda: [ret.get_edge_metadata(e).update({"poked": 1}) for e in list(ret.get_edges())],
             lambda: [ret.get_node_metadata(x).update({"poked": 1}) for x in nodes],
             lambda: [ret.set_weight(e, 11) for e in list(ret.get_edges())[:2]],
             lambda: ret.add_edge(tuple(nodes[:5])) if nodes else None,
             lambda: ret.remove_edge(list(ret.get_edges())[0]),
             lambda: ret.add_node("poke-node"),
             lambda: ret.add_edge(("poke-node", "poke-node-2")),
             lambda: ret.remove_node(nodes[-1], keep_edges=False) if nodes else None,
             lambda: ret.remove_edges(list(ret.get_edges()))]
    for f in pokes:
        limited(f, 4.0)            # a poke that fails is no observation about the routine
    after = snapshot(hg, rank)
    if after != before:
        ctx.violation(case, f"{what}(inplace=False): mutating the RETURNED hypergraph changed the argument: {before} -> {after}")
    elif incidence_view(hg) != before_inc:
        ctx.violation(case, f"{what}(inplace=False): mutating the RETURNED hypergraph changed the incidence structure of "
                            f"the argument: {before_inc} -> {incidence_view(hg)}")


def obj_kind(hg, ret):
    return "none" if ret is None else ("same" if ret is hg else "fresh")


def unexpected_sources(log, allowed):
    return [(src, name) for (src, name, a, k, r) in log if (src, name) not in allowed]


def edge_ok(e, n):
    e = plain(e)
    return all(isinstance(x, int) and 0 <= x < n for x in e) and len(set(e)) == len(e)


# ------------------------------------------------------------------------------------------------
# random_hypergraph / random_uniform_hypergraph

def check_random(ctx, drv, case, secs=8.0):
    from hypergraphx.generation.random import random_hypergraph, random_uniform_hypergraph
    n, sizes, seed, uniform = case["n"], case["sizes"], case["seed"], case["uniform"]
    # the number of samples per size is the number of passes of `while len(edges) < count` (a retyped count: 2.5 -> 3)
    counts = [slot_meaning(case, f"counts.{i}", c, py_loop) for i, c in enumerate(case["counts"])]
    req = dict(zip(sizes, counts))
    kinds = case.get("kinds", {})
    vals = case.get("vals") or {}
    type_rej = bool(case.get("type_rej"))

    def mk_seed():
        return slot_val(case, "seed", lambda: seed)

    def call():
        # the arguments are built anew for every call: ints as Python / numpy ints, the map as dict / OrderedDict / proxy;
        # retyped slots (`vals`) as the object their descriptor names
        nn = slot_val(case, "n", lambda: mk_int(n, kinds.get("n")))
        ks = [slot_val(case, f"sizes.{i}", lambda s=s: mk_int(s, kinds.get("key"))) for i, s in enumerate(sizes)]
        cs = [slot_val(case, f"counts.{i}", lambda c=c: mk_int(c, kinds.get("count"))) for i, c in enumerate(case["counts"])]
        sd = mk_seed()
        if uniform:
            a = (nn, ks[0], cs[0], sd)
            if kinds.get("kw"):
                return random_uniform_hypergraph(num_nodes=a[0], size=a[1], num_edges=a[2], seed=a[3])
            return random_uniform_hypergraph(*a)
        m = mk_map(list(zip(ks, cs)), kinds.get("map"))
        if kinds.get("kw"):
            return random_hypergraph(num_nodes=nn, num_edges_by_size=m, seed=sd)
        if sd is None and kinds.get("omit_seed"):
            return random_hypergraph(nn, m)
        return random_hypergraph(nn, m, sd)

    def observe(h):
        return (sorted(plain(h.get_nodes())), sorted(tuple(plain(e)) for e in h.get_edges()))

    seed = mk_seed()                         # the seed VALUE (an int unless the slot is retyped: float, str, bytes, bool)
    seed_rej = seed_refused(seed, "py")      # Python's own random.seed refuses the type (numpy ints, Fractions)
    type_rej = type_rej or seed_rej
    ambient(*case["ambient"])
    with recorder() as rec:
        st, h = limited(call, secs)
    log = rec.log
    admissible = all(c <= 0 or s <= n for s, c in req.items()) and not type_rej
    rline = f"randomR {slot_tok(case, 'n', n)} {toks(case, 'sizes', sizes)} {toks(case, 'counts', case['counts'])} "
    key = ("random", n, tuple(sizes), tuple(counts), repr(seed), uniform, repr(sorted(kinds.items())), repr(sorted(vals.items())))
    if st == "timeout":
        return "timeout"
    if st == "exc":
        if admissible:
            ctx.violation(case, f"random_hypergraph raised on admissible arguments: {h}")
        ctx.case(key + ("rej",), False, sample=case)
        if drv and not seed_rej:
            a = drv.ask(rline + "-") if vals else drv.ask(f"random {n} {hgxv.enc_list(sizes)} {hgxv.enc_list(counts)} -")
            if a != "rej" and not admissible:
                ctx.disagree(case, f"implementation rejects, model answers {a!r}")
        return
    if seed_rej:
        ctx.disagree(case, f"random.seed refuses a seed of this type, the implementation accepted {seed!r}")
        return
    nodes, edges = observe(h)
    # ---- property oracles
    if not type_rej:
        if nodes != list(range(n)) or not all(type(x) is int for x in nodes):
            ctx.violation(case, f"nodes {nodes} are not exactly 0..{n-1}")
        for e in edges:
            if len(e) not in req or req[len(e)] < 1:
                ctx.violation(case, f"hyperedge {e} has a size that was not requested")
            if not edge_ok(e, n):
                ctx.violation(case, f"hyperedge {e} has repeated nodes or nodes outside 0..{n-1}")
        for s, c in req.items():
            k = sum(1 for e in edges if len(e) == s)
            if k > max(c, 0) or (c >= 1 and k < 1):
                ctx.violation(case, f"{k} hyperedges of size {s}, requested {c}"
                                    + (f" (as {vals})" if vals else ""))
        if seed is not None:
            # the caller goes on working with the first result; the second call with the same seed must not hand out (parts
            # of) the same object again
            limited(lambda: (h.add_node("poke"), h.add_edge(("poke", "poke2")), h.remove_edges(list(h.get_edges())[:1])), 4.0)
            a2 = case["ambient"]
            ambient(a2[0] + 17, a2[1] + 29)
            st2, h2 = limited(call, secs)
            if st2 != "ok" or observe(h2) != (nodes, edges):
                ctx.violation(case, f"same seed {seed!r}, different ambient RNG state: second run gives "
                                    f"{observe(h2) if st2 == 'ok' else st2}, first {(nodes, edges)}")
    # ---- correspondence
    draws = [r for (src, name, a, k, r) in log if (src, name) == ("py", "sample")]
    bad = unexpected_sources(log, {("py", "sample"), ("py", "seed")})
    seeded = [a for (src, name, a, k, r) in log if (src, name) == ("py", "seed")]
    ctx.case(key + (tuple(map(tuple, draws)),), len(sizes) >= 2 or len(edges) < sum(max(c, 0) for c in counts), sample=case)
    ctx.count("random_cases")
    ctx.count("random_seed0", 1 if seed == 0 and type(seed) is int else 0)
    ctx.count("random_numpy_args", 1 if any(str(v).startswith("np") for v in kinds.values()) else 0)
    ctx.count("retyped_" + case["routine"], 1 if vals else 0)
    if drv is None:
        return
    if bad:
        ctx.disagree(case, f"draws from sources the model does not use: {sorted(set(bad))}")
    if (seed is not None and [(type(a[0]), a) for a in seeded] != [(type(seed), (seed,))]) or (seed is None and seeded):
        ctx.disagree(case, f"random.seed calls {seeded} for seed={seed!r}")
    groups, pos = [], 0
    for c in counts:
        groups.append(draws[pos:pos + max(c, 0)])
        pos += max(c, 0)
    want = " ".join(["0", hgxv.enc_list(nodes), hgxv.enc_lists(edges), hgxv.enc_list([1] * len(edges)),
                     hgxv.enc_list([0] * len(edges))])
    if vals:
        # the model receives the objects as the caller holds them and decides what they mean
        a = drv.ask(rline + hgxv.enc_listss(groups))
        if a != want:
            ctx.disagree(case, f"randomR (value-typed arguments {vals}): model {a!r}, implementation {want!r}")
        if type_rej:
            return
    mseed = None if seed is None else (abs(seed) % 10 ** 9 if type(seed) is int else 1)   # the model: seeded / not seeded
    got = drv.batch([f"random {n} {hgxv.enc_list(sizes)} {hgxv.enc_list(counts)} {hgxv.enc_listss(groups)}",
                     f"randomM {n} {hgxv.enc_list(sizes)} {hgxv.enc_list(counts)} {opt(mseed)} {hgxv.enc_lists(draws)}"])
    if got[0] != want:
        ctx.disagree(case, f"random: model {got[0]!r}, implementation {want!r}")
    if got[1] != want + " left 0":
        ctx.disagree(case, f"randomM (program over named sources): model {got[1]!r}, implementation {want + ' left 0'!r}")


INT_KINDS = ["py", "py", "py", "np64", "np32"]


def gen_random(rng, malformed=False):
    n = rng.choice([0, 1, 1, 2, 2, 3, 4, 5, 5, 6, 6, 7, 8, 9])
    uniform = rng.random() < 0.3
    k = 1 if uniform else rng.randint(1, 3)
    hi = max(1, min(n, 5))
    sizes = rng.sample(range(1, hi + 1), min(k, hi))
    counts = [rng.choice([0, 1, 1, 2, 3, 4, 6]) for _ in sizes]
    if n == 0:
        counts = [0 for _ in sizes]
    if not malformed and rng.random() < 0.02:
        # SIZE: a large request
        n = rng.randint(40, 160)
        sizes = rng.sample([1, 2, 3, 4, 7], 1 if uniform else rng.randint(1, 3))
        counts = [rng.randint(20, 140) for _ in sizes]
    if malformed:
        sizes[0] = n + rng.randint(1, 2)
        counts[0] = max(1, counts[0])
        sizes = list(dict.fromkeys(sizes))
        counts = counts[:len(sizes)]
    seed = rng.choice([None, None, 0, 0, 1, rng.randint(0, 10 ** 6), rng.randint(0, 50), 2 ** 64 + rng.randint(0, 9), -7])
    kinds = {"n": rng.choice(INT_KINDS), "key": rng.choice(INT_KINDS), "count": rng.choice(INT_KINDS),
             "map": rng.choice(["dict", "dict", "odict", "proxy"]), "kw": rng.random() < 0.2,
             "omit_seed": rng.random() < 0.5}
    return {"routine": "random", "n": n, "sizes": sizes, "counts": counts, "seed": seed, "uniform": uniform,
            "kinds": kinds, "ambient": [rng.randint(0, 10 ** 6), rng.randint(0, 10 ** 6)]}


# ------------------------------------------------------------------------------------------------
# scale_free_hypergraph

def check_scale_free(ctx, drv, case, secs=8.0):
    import numpy as np
    from hypergraphx.generation.scale_free import scale_free_hypergraph
    n, sizes, skeys, scales = case["n"], case["sizes"], case["scale_keys"], case["scales"]
    # "exactly the requested number" is int(count): line 55 of the routine stores int(edges_by_size[k]) back
    counts = [slot_meaning(case, f"counts.{i}", c, py_int) for i, c in enumerate(case["counts"])]
    kinds = case.get("kinds", {})
    vals = case.get("vals") or {}
    type_rej = bool(case.get("type_rej"))
    kw0 = dict(case["kwargs"])
    ebs = dict(zip(sizes, counts))

    def call():
        # arguments built anew: sizes / counts / n as Python or numpy ints (counts also 3.0 / '3': the routine applies
        # int(..)), the scale map with its keys in ITS OWN order and int / float / numpy scales; retyped slots (`vals`)
        # as the object their descriptor names
        e = mk_map([(slot_val(case, f"sizes.{i}", lambda s=s: mk_int(s, kinds.get("key"))),
                     slot_val(case, f"counts.{i}", lambda c=c: mk_count(c, kinds.get("count"))))
                    for i, (s, c) in enumerate(zip(sizes, case["counts"]))], kinds.get("map"))
        sc = mk_map([(slot_val(case, f"skeys.{j}", lambda k=k: mk_int(k, kinds.get("skey"))),
                      slot_val(case, f"scales.{j}", lambda v=v: mk_float(v, kinds.get("scale"))))
                     for j, (k, v) in enumerate(zip(skeys, scales))], kinds.get("smap"))
        kw = dict(kw0)
        if kw.get("corr_target") is not None:
            kw["corr_target"] = slot_val(case, "target", lambda: mk_float(kw["corr_target"], kinds.get("target")))
        if "num_shuffles" in kw:
            kw["num_shuffles"] = slot_val(case, "shuffles", lambda: mk_int(kw["num_shuffles"], kinds.get("shuffles")))
        if "correlated" in kw:
            kw["correlated"] = slot_val(case, "correlated", lambda: kw["correlated"])
        nn = slot_val(case, "n", lambda: mk_int(n, kinds.get("n")))
        if kinds.get("positional") and set(kw) == {"correlated", "corr_target", "num_shuffles"}:
            return scale_free_hypergraph(nn, e, sc, kw["correlated"], kw["corr_target"], kw["num_shuffles"])
        return scale_free_hypergraph(nn, e, sc, **kw)

    kw = kw0
    ambient(*case["ambient"])
    with recorder() as rec:
        st, h = limited(call, secs)
    log = rec.log
    correlated = kw.get("correlated", True)
    target = kw.get("corr_target", None)
    shuffles = kw.get("num_shuffles", 0)
    valid = case["valid"] and not type_rej
    tail = (f"{hgxv.enc_list(skeys)} {int(correlated)} {'none' if target is None else hgxv.enc_num(Fraction(target))} ")
    if vals:
        # the model receives the objects as the caller holds them and decides what they mean / that the call raises
        line = (f"scalefreeR {slot_tok(case, 'n', n)} {toks(case, 'sizes', sizes)} {toks(case, 'counts', case['counts'])} "
                + tail + f"{slot_tok(case, 'shuffles', shuffles)} ")
    else:
        line = f"scalefree {n} {hgxv.enc_list(sizes)} {hgxv.enc_list(counts)} " + tail + f"{shuffles} "
    key = ("sf", n, tuple(sizes), tuple(counts), tuple(skeys), correlated, target, shuffles, repr(sorted(kinds.items())),
           repr(sorted(vals.items())))
    if st == "timeout":
        return "timeout"
    if st == "exc":
        if valid:
            ctx.violation(case, f"scale_free_hypergraph raised on admissible arguments"
                                f"{' (defaults)' if not kw else ''}{f' (as {vals})' if vals else ''}: {h}")
        ctx.case(key + ("rej",), False, sample=case)
        if drv and not valid:
            a = drv.ask(line + "-")
            if a != "rej":
                ctx.disagree(case, f"implementation rejects, model answers {a!r}")
            if not vals:
                # WHICH check of the validation refuses (the checks in the order of the code)
                e = drv.ask(f"sferr {hgxv.enc_list(sizes)} {hgxv.enc_list(counts)} " + tail + f"{int(shuffles)}")
                ctx.count("validation_paths_compared")
                if e != err_code(h, SF_MESSAGES):
                    ctx.disagree(case, f"validation: the model's first failing check is {e!r}, the implementation raised {h!r}")
        return
    nodes = sorted(plain(h.get_nodes()))
    edges = sorted(tuple(plain(e)) for e in h.get_edges())
    if not valid:
        # the property does not speak of rejection; the model does (correspondence only)
        if drv:
            a = drv.ask(line + "-")
            if a == "rej":
                ctx.disagree(case, "model rejects the arguments, implementation accepted them")
        ctx.case(key + ("acc",), False)
        return
    if len(nodes) != n or nodes != list(range(n)):
        ctx.violation(case, f"{len(nodes)} nodes {nodes}, requested {n}")
    for i, (s, c) in enumerate(ebs.items()):
        k = sum(1 for e in edges if len(e) == s)
        if k != c:
            asked = vals.get(f"counts.{i}")
            ctx.violation(case, f"{k} distinct hyperedges of size {s}, requested {c}"
                                + (f" (= int() of the requested {mk_val(asked)!r})" if asked else ""))
    for e in edges:
        if len(e) not in ebs or not edge_ok(e, n):
            ctx.violation(case, f"hyperedge {e}: size not requested, repeated nodes or nodes outside 0..{n-1}")
    groups = []
    for (src, name, a, k, r) in log:
        if (src, name) == ("np", "exponential"):
            groups.append([])
        elif (src, name) == ("np", "choice") and not isinstance(a[0], (int, np.integer)) \
                and not (isinstance(a[0], np.ndarray) and a[0].ndim == 0) and groups:
            groups[-1].append(r)
    bad = unexpected_sources(log, {("np", "exponential"), ("np", "choice")})
    ctx.case(key + (repr(groups),), len(edges) >= 2, sample=case)
    ctx.count("scale_free_cases")
    ctx.count("scale_free_defaults", 0 if kw else 1)
    ctx.count("scale_free_scale_keys_in_other_order", 1 if list(skeys) != list(sizes) else 0)
    ctx.count("retyped_scale_free", 1 if vals else 0)
    ctx.count("scale_free_count_not_an_int", 1 if any(vals.get(f"counts.{i}", ["py"])[0] not in INTLIKE for i in range(len(sizes))) else 0)
    if drv is None:
        return
    if bad:
        ctx.disagree(case, f"draws from sources the model does not use: {sorted(set(bad))}")
    want = " ".join(["0", hgxv.enc_list(nodes), hgxv.enc_lists(edges), hgxv.enc_list([1] * len(edges)),
                     hgxv.enc_list([0] * len(edges))]) + " ret 1"
    a = drv.ask(line + hgxv.enc_listss(groups))
    if a != want:
        ctx.disagree(case, f"{line.split()[0]}: model {a!r}, implementation {want!r}")
    # the COMPLETE sequence of np.random calls (exponential once per size, the swap choices of num_shuffles / of the
    # Spearman loop, every hyperedge choice with the size it was asked with) against the trace model `scaleFreeTrace`
    try:
        events, n_swaps, n_choices = [], 0, 0
        for (src, name, a_, k_, r) in log:
            if (src, name) == ("np", "exponential"):
                events.append([0, int(a_[1] if len(a_) > 1 else k_["size"])])
            elif (src, name) == ("np", "choice"):
                sz = int(k_["size"] if "size" in k_ else a_[1])
                if isinstance(a_[0], (int, np.integer)) or (isinstance(a_[0], np.ndarray) and a_[0].ndim == 0):
                    events.append([1] + [int(x) for x in r])
                    n_swaps += 1
                    if sz != 2 or int(a_[0]) != n:
                        events[-1] = [9]
                else:
                    events.append([2, sz] + [int(x) for x in r])
                    n_choices += 1
    except Exception as ex:     # an argument of a recorded call the trace cannot express
        ctx.disagree(case, f"np.random call with unexpected arguments: {type(ex).__name__}: {ex}")
        return
    tline = (f"sftrace {n} {hgxv.enc_list(sizes)} {hgxv.enc_list(counts)} " + tail + f"{int(shuffles)} "
             + hgxv.enc_lists(events))
    twant = want[:-len(" ret 1")] + f" ex {len(sizes)} sw {n_swaps} ch {n_choices}"
    ta = drv.ask(tline)
    ctx.count("scale_free_trace_lines")
    ctx.count("scale_free_swap_calls", n_swaps)
    if ta != twant:
        ctx.disagree(case, f"sftrace (np.random calls {events}): model {ta!r}, implementation {twant!r}")


def gen_scale_free(rng, malformed=False):
    n = rng.choice([0, 1, 2, 3, 3, 4, 4, 5, 5, 6, 6, 7, 8, 9, 10])
    k = rng.randint(1, 3)
    hi = max(1, min(4, n))
    lo = 1 if (n <= 2 or rng.random() < 0.3) else 2
    sizes = rng.sample(range(lo, hi + 1), min(k, hi - lo + 1))
    counts = [rng.randint(0, min(4, math.comb(n, s) // 2)) if rng.random() < 0.8 else min(1, math.comb(n, s))
              for s in sizes]
    near_sat = False
    if rng.random() < 0.25 and 3 <= n <= 7:
        # near saturation: between half and all of the possible hyperedges of a size (feasible, but the rejection loop
        # needs many draws)
        counts = [rng.randint(math.comb(n, s) // 2, min(max(math.comb(n, s) // 2, (17 * math.comb(n, s)) // 20), 21))
                  for s in sizes]
        near_sat = True
    if rng.random() < 0.02:
        # SIZE: a large request, far from saturation
        n = rng.randint(30, 90)
        sizes = rng.sample([1, 2, 3, 4, 6], rng.randint(1, 3))
        counts = [rng.randint(5, min(60, math.comb(n, s_) // 3)) for s_ in sizes]
        near_sat = False
    scales = [rng.choice([0.5, 1.0, 2.0, 3.5]) for _ in sizes]
    skeys = list(sizes)
    if rng.random() < 0.5:
        # the scale map lists the sizes in its own order
        perm = list(range(len(sizes)))
        rng.shuffle(perm)
        skeys, scales = [skeys[i] for i in perm], [scales[i] for i in perm]
    mode = rng.choice(["default", "default", "uncorr", "target", "target", "shuffles", "corr_plain"])
    if n < 2 and mode in ("target", "shuffles"):
        mode = "uncorr"         # the swaps need two nodes
    kw = {}
    if mode == "uncorr":
        kw = {"correlated": False}
    elif mode == "target":
        kw = {"correlated": True, "corr_target": rng.choice([0.0, 0.25, 0.5, 0.75, 1.0, 1, 0])}
    elif mode == "shuffles":
        kw = {"num_shuffles": rng.randint(1, 6)}
    elif mode == "corr_plain":
        kw = {"correlated": True, "corr_target": None, "num_shuffles": 0}
    valid = True
    if malformed:
        valid = False
        bad = rng.choice(["target_range", "target_uncorr", "both", "neg_shuffles", "shuffle_uncorr", "missing_scale",
                          "extra_scale", "neg_count"])
        if bad == "target_range":
            kw = {"corr_target": rng.choice([-0.5, 1.5, 2])}
        elif bad == "target_uncorr":
            kw = {"correlated": False, "corr_target": 0.5}
        elif bad == "both":
            kw = {"corr_target": 0.5, "num_shuffles": 2}
        elif bad == "neg_shuffles":
            kw = {"num_shuffles": -1}
        elif bad == "shuffle_uncorr":
            kw = {"correlated": False, "num_shuffles": 2}
        elif bad == "missing_scale":
            skeys, scales = skeys[:-1], scales[:-1]
        elif bad == "extra_scale":
            skeys, scales = skeys + [7], scales + [1.0]
        elif bad == "neg_count":
            counts[0] = -1
    kinds = {"n": rng.choice(INT_KINDS), "key": rng.choice(INT_KINDS), "skey": rng.choice(INT_KINDS),
             "count": rng.choice(["py", "py", "py", "np64", "np32", "float"]),
             "scale": rng.choice(["float", "float", "int", "np64f", "np32f"]), "target": rng.choice(["float", "int", "np64f"]),
             "shuffles": rng.choice(INT_KINDS), "map": rng.choice(["dict", "dict", "odict"]),
             "smap": rng.choice(["dict", "dict", "odict", "proxy"]), "positional": rng.random() < 0.3}
    return {"routine": "scale_free", "n": n, "sizes": sizes, "counts": counts, "scale_keys": skeys, "scales": scales,
            "kwargs": kw, "valid": valid, "near_saturation": near_sat and valid, "kinds": kinds,
            "ambient": [rng.randint(0, 10 ** 6), rng.randint(0, 10 ** 6)]}


# ------------------------------------------------------------------------------------------------
# HOADmodel

def mk_vector(v16, kind, perm_seed=0):
    """an activity vector (sixteenths) as the caller may hold it.  list / tuple of floats (0 and 1 also as ints),
    numpy float64 array (not float32: numpy would compare the coin in float32 precision), numpy int array (only 0/1 activities), dict node -> activity with its keys in any
    order, list of Fractions"""
    import numpy as np
    vals = [Fraction(a, 16) for a in v16]
    fl = [float(a) for a in vals]
    if kind == "tuple":
        return tuple(fl)
    if kind == "list01":
        return [int(a) if a in (0, 1) else float(a) for a in vals]
    if kind == "np64":
        return np.array(fl, dtype=np.float64)
    if kind == "npint" and all(a in (0, 1) for a in vals):
        return np.array([int(a) for a in vals], dtype=np.int64)
    if kind == "dict":
        idx = list(range(len(fl)))
        random.Random(perm_seed).shuffle(idx)
        return {i: fl[i] for i in idx}
    if kind == "frac":
        return list(vals)
    if kind == "bool01" and all(a in (0, 1) for a in vals):
        return [bool(a) for a in vals]                      # True > random() always, False never
    if kind == "dec":
        import decimal
        return [decimal.Decimal(a.numerator) / decimal.Decimal(a.denominator) for a in vals]   # sixteenths: exact
    if kind == "np64s":
        return [np.float64(a) for a in fl]                  # a list of numpy scalars
    if kind == "mixed":
        import decimal
        r = random.Random(perm_seed)
        return [r.choice([float, np.float64, lambda a: Fraction(a), lambda a: decimal.Decimal(a),
                          lambda a: int(a) if a in (0, 1) else float(a), lambda a: bool(a) if a in (0, 1) else float(a)])(a)
                for a in fl]
    return fl


def check_hoad(ctx, drv, case, secs=8.0):
    from hypergraphx.generation.activity_driven import HOADmodel
    N, orders, time = case["N"], case["orders"], case["time"]
    kinds = case.get("kinds", {})
    vals = case.get("vals") or {}
    type_rej = bool(case.get("type_rej"))
    vkinds = kinds.get("vec", ["list"] * len(orders))
    acts = [[Fraction(a, 16) for a in v] for v in case["acts16"]]
    t_eff = 100 if time is None else time           # time=None: the default of the routine

    def call():
        # the activity vectors may be LONGER than N (the routine reads the entries 0..N-1 only) or shorter (IndexError)
        apo = mk_map([(slot_val(case, f"orders.{i}", lambda o=o: mk_int(o, kinds.get("key"))),
                       mk_vector(v, vk, case["ambient"][0]))
                      for i, (o, v, vk) in enumerate(zip(orders, case["acts16"], vkinds))], kinds.get("map"))
        nn = slot_val(case, "N", lambda: mk_int(N, kinds.get("n")))
        if time is None:
            return HOADmodel(nn, apo)
        tt = slot_val(case, "time", lambda: mk_int(time, kinds.get("time")))
        if kinds.get("positional"):
            return HOADmodel(nn, apo, tt)
        return HOADmodel(nn, apo, time=tt)

    ambient(*case["ambient"])
    with recorder() as rec:
        st, T = limited(call, secs)
    log = rec.log
    # admissible: every vector has at least N entries, every order is at most N, every number is of a type the routine
    # takes (an index: int / numpy int / bool)
    valid = all(len(v) >= N for v in acts) and all(o <= N for o in orders) and not type_rej
    key = ("hoad", N, tuple(orders), time, repr(case["acts16"]), repr(sorted(kinds.items(), key=repr)), repr(sorted(vals.items())))
    if st == "timeout":
        return "timeout"
    if st != "ok" and valid:
        ctx.violation(case, f"HOADmodel raised on admissible arguments{f' (as {vals})' if vals else ''}: {T}")
        return
    recs = []
    if st == "ok":
        recs = [(norm(t), tuple(plain(e))) for (t, e) in T.get_edges()]
        for t, e in recs:
            if not any(len(e) - 1 == o for o in orders):
                ctx.violation(case, f"hyperlink {(t, e)} has size {len(e)}, orders are {orders}")
            if not edge_ok(e, N):
                ctx.violation(case, f"hyperlink {(t, e)} has repeated nodes or nodes outside 0..{N-1}")
            if not (isinstance(t, int) and 0 <= t < t_eff):
                ctx.violation(case, f"hyperlink {(t, e)} has a time outside [0, {t_eff})")
        if not set(plain(T.get_nodes())) <= set(range(N)):
            ctx.violation(case, f"nodes {sorted(plain(T.get_nodes()), key=repr)} not below {N}")
    # ---- correspondence
    entries, okpat = [], True
    for (src, name, a, k, r) in log:
        if (src, name) == ("py", "random"):
            entries.append([Fraction(r), 0, []])
        elif (src, name) == ("py", "sample") and entries and entries[-1][1] == 0:
            entries[-1][1] = 1
            entries[-1][2] = list(r)
        else:
            okpat = False
    emitted = sum(1 for e in entries if e[1])
    ctx.case(key + (repr(entries),), len(recs) >= 1, sample=case)
    ctx.count("hoad_cases")
    ctx.count("hoad_activations", emitted)
    ctx.count("hoad_longer_vectors", 1 if any(len(v) > N for v in acts) else 0)
    ctx.count("hoad_raised", 1 if st != "ok" else 0)
    ctx.count("retyped_hoad", 1 if vals else 0)
    if drv is None:
        return
    if not okpat:
        ctx.disagree(case, "draw pattern is not (random.random() [random.sample])*: "
                     + repr(sorted(set((s, nm) for (s, nm, a, k, r) in log))))
    want = hgxv.enc_lists(sorted([t] + list(e) for t, e in recs)) if st == "ok" else "raised"
    tail = (f"{hgxv.enc_lists(acts)} {hgxv.enc_list([e[0] for e in entries])} "
            f"{hgxv.enc_list([e[1] for e in entries])} {hgxv.enc_lists([e[2] for e in entries])}")
    if vals:
        cmd = f"hoadR {slot_tok(case, 'N', N)} {slot_tok(case, 'time', t_eff)} {toks(case, 'orders', orders)} "
    else:
        cmd = f"hoad {N} {t_eff} {hgxv.enc_list(orders)} "
    a = drv.ask(cmd + tail)
    if a != want:
        ctx.disagree(case, f"{cmd.split()[0]}: model {a[:300]!r}, implementation {want[:300]!r}"
                           + (f" ({T})" if st != "ok" else ""))


VEC_KINDS = ["list", "list", "list01", "tuple", "np64", "np64", "npint", "dict", "frac", "bool01", "dec", "np64s", "mixed"]


def gen_hoad(rng):
    N = rng.choice([0, 1, 2, 2, 3, 3, 4, 4, 5, 6, 7])
    maxo = min(3, N)
    orders = rng.sample(range(0, maxo + 1), min(rng.choice([0, 1, 1, 1, 2, 2, 2]), maxo + 1))
    if orders and rng.random() < 0.04:
        orders[0] = N + rng.randint(1, 2)                        # malformed: order above N
        orders = list(dict.fromkeys(orders))
    acts16 = []
    for _ in orders:
        shape = rng.choice(["exact", "exact", "longer", "longer", "longer", "shorter"]) if rng.random() < 0.7 else "exact"
        v = [rng.choice([0, 0, 2, 4, 8, 12, 16, 16]) for _ in range(N)]
        if shape == "longer":
            # surplus entries: the routine must never look at them; they are mostly active
            v = v + [rng.choice([0, 8, 16, 16, 16]) for _ in range(rng.randint(1, 4))]
        elif shape == "shorter" and N > 0 and rng.random() < 0.35:
            v = v[:rng.randint(0, N - 1)]                        # malformed: IndexError when the loop gets there
        acts16.append(v)
    time = rng.choice([0, 1, 1, 2, 3, 4, 6])
    if N <= 3 and rng.random() < 0.03:
        time = None
    kinds = {"n": rng.choice(INT_KINDS), "key": rng.choice(INT_KINDS), "time": rng.choice(INT_KINDS),
             "map": rng.choice(["dict", "dict", "odict", "proxy"]), "vec": [rng.choice(VEC_KINDS) for _ in orders],
             "positional": rng.random() < 0.3}
    return {"routine": "hoad", "N": N, "orders": orders, "acts16": acts16, "time": time, "kinds": kinds,
            "ambient": [rng.randint(0, 10 ** 6), rng.randint(0, 10 ** 6)]}


# ------------------------------------------------------------------------------------------------
# add_random_edge / add_random_edges

def call_result(arg_after, ret, rank):
    return "A " + show_snap(snapshot(arg_after, rank)) + " R " + ("none" if ret is None else show_snap(snapshot(ret, rank)))


def seed_calls(log, src):
    return [a for (sr, name, a, k, r) in log if (sr, name) == (src, "seed")]


def split_at_seed(log, src, draw_name, rank):
    """the draws of one source, split at its (first) `seed` call: (handed out by the AMBIENT state, handed out by the
    seeded state); an unseeded run has everything in the first part"""
    amb, seeded, seen = [], [], False
    for (sr, name, a, k, r) in log:
        if sr != src:
            continue
        if name == "seed":
            seen = True
        elif name == draw_name:
            (seeded if seen else amb).append([rank.get(norm(x), 10 ** 6) for x in r])
    return amb, seeded


def check_add(ctx, drv, case, secs=8.0):
    from hypergraphx.generation.random import add_random_edge, add_random_edges
    spec = case["hg"]
    rank = rank_of(spec)
    st0, hg = prepared(case, secs)
    if st0 == "timeout":
        return "timeout"
    before = snapshot(hg, rank)
    mv_before = meta_view(hg, rank)
    before_inc = incidence_view(hg)
    kw0 = dict(case["kwargs"])
    kinds = case.get("kinds", {})
    vals = case.get("vals") or {}
    many = case["k"] is not None
    # (the number of hyperedges to add is the number of passes of `while len(edges) < num_edges`: 2.5 -> 3; the model
    # receives the object itself)
    seed_obj = slot_val(case, "seed", lambda: kw0.get("seed"))
    seed_rej = seed_refused(seed_obj, "py")
    type_rej = bool(case.get("type_rej")) or seed_rej

    def call():
        kw = dict(kw0)
        for name in ("order", "size"):
            if name in kw:
                kw[name] = slot_val(case, name, lambda: mk_int(kw[name], kinds.get("size")))
        if "seed" in kw:
            kw["seed"] = slot_val(case, "seed", lambda: kw["seed"])
        if "inplace" in kw:
            kw["inplace"] = slot_val(case, "inplace", lambda: kw["inplace"])
        if many:
            return add_random_edges(hg, slot_val(case, "k", lambda: mk_int(case["k"], kinds.get("k"))), **kw)
        return add_random_edge(hg, **kw)

    kw = kw0
    ambient(*case["ambient"])
    with recorder() as rec:
        st, ret = limited(call, secs)
    log = rec.log
    order, size, inplace = kw.get("order"), kw.get("size"), kw.get("inplace", True)
    s = size if size is not None else (order + 1 if order is not None else None)
    valid = case["valid"] and not type_rej
    what = "add_random_edges" if many else "add_random_edge"
    if vals:
        # the model receives the objects as the caller holds them
        otok = "-" if order is None else slot_tok(case, "order", order)
        stok = "-" if size is None else slot_tok(case, "size", size)
        cmd = (f"addedgesR {int(inplace)} {slot_tok(case, 'k', case['k'])} {otok} {stok} " if many
               else f"addedgeR {int(inplace)} {otok} {stok} ")
    else:
        cmd = (f"addedges {int(inplace)} {case['k']} {opt(order)} {opt(size)} " if many
               else f"addedge {int(inplace)} {opt(order)} {opt(size)} ")
    key = ("add", repr(spec), case["k"], repr(sorted(kw.items(), key=repr)), repr(sorted(kinds.items())), repr(case.get("prefix")),
           repr(sorted(vals.items())))
    if st == "timeout":
        return "timeout"
    if st == "exc":
        if valid:
            ctx.violation(case, f"{what} raised on admissible arguments{f' (as {vals})' if vals else ''}: {ret}")
        ctx.case(key + ("rej",), False, sample=case)
        if drv and not valid and not seed_rej:
            a = drv.batch([load_line(before), cmd + "-"])[1]
            if not a.startswith("rej"):
                ctx.disagree(case, f"implementation rejects, model answers {a!r}")
            if not vals:
                e = drv.ask(f"argerr {opt(order)} {opt(size)} 0 0")
                ctx.count("validation_paths_compared")
                if e != err_code(ret, ARG_MESSAGES):
                    ctx.disagree(case, f"validation: the model's first failing check is {e!r}, the implementation raised {ret!r}")
        return
    if seed_rej:
        ctx.disagree(case, f"random.seed refuses a seed of this type, the implementation accepted {seed_obj!r}")
        return
    if not valid:
        if drv:
            a = drv.batch([load_line(before), cmd + "-"])[1]
            if a.startswith("rej"):
                ctx.disagree(case, "model rejects the arguments, implementation accepted them")
        ctx.case(key + ("acc",), False)
        return
    after_arg = snapshot(hg, rank)
    out = after_arg if inplace else (snapshot(ret, rank) if ret is not None else None)
    # ---- property oracles
    if inplace and ret is not None:
        ctx.violation(case, "inplace=True returned an object")
    if not inplace:
        if ret is None:
            ctx.violation(case, "inplace=False returned nothing")
        if after_arg != before:
            ctx.violation(case, f"inplace=False changed its argument: {before} -> {after_arg}")
        elif incidence_view(hg) != before_inc:
            ctx.violation(case, f"inplace=False changed the incidence structure of its argument: {before_inc} -> {incidence_view(hg)}")
    changed = False
    if out is not None:
        if out[1] != before[1] or out[3] != before[3]:
            ctx.violation(case, f"node set / node metadata changed: {before[1]} -> {out[1]}")
        if out[0] != before[0]:
            ctx.violation(case, "weighted flag changed")
        for e, r in out[2].items():
            if e not in before[2]:
                changed = True
                if len(e) != s:
                    ctx.violation(case, f"added hyperedge {e} has size {len(e)}, requested {s}")
                if not set(e) <= set(before[1]) or len(set(e)) != len(e):
                    ctx.violation(case, f"added hyperedge {e} is not over existing distinct nodes")
        for e, r in before[2].items():
            if e not in out[2]:
                ctx.violation(case, f"hyperedge {e} disappeared")
            elif out[2][e] != r:
                # re-insertion of an existing hyperedge of the requested size follows add_edge (DESIGN reading)
                w_ok = out[2][e][0] == r[0] or (before[0] and out[2][e][0] > r[0])
                if len(e) != s or not w_ok or out[2][e][1] != 0:
                    ctx.violation(case, f"hyperedge {e} was {r}, now {out[2][e]} (not a re-insertion of a size-{s} hyperedge)")
                else:
                    changed = changed or before[0] or r[1] != 0
    check_meta(ctx, case, what, mv_before, hg, ret, rank, inplace, True)
    ctx.count("instances_with_hypergraph_md", 1 if mv_before[0] != "exc" and mv_before[1] else 0)
    ctx.count("instances_with_incidence_md", 1 if mv_before[0] != "exc" and mv_before[2] else 0)
    # ---- correspondence
    draws = [[rank.get(norm(x), 10 ** 6) for x in r] for (src, name, a, k, r) in log if (src, name) == ("py", "sample")]
    bad = unexpected_sources(log, {("py", "sample"), ("py", "seed")})
    ctx.case(key + (repr(draws),), changed, sample=case)
    ctx.count("add_cases")
    ctx.count("retyped_add", 1 if vals else 0)
    ctx.count("labels_" + spec.get("label_kind", "int"))
    if drv is not None:
        if bad:
            ctx.disagree(case, f"draws from sources the model does not use: {sorted(set(bad))}")
        sd = seed_obj
        if [(type(a[0]), a) for a in seed_calls(log, "py")] != ([(type(sd), (sd,))] if sd is not None else []):
            ctx.disagree(case, f"random.seed calls {seed_calls(log, 'py')} for seed={sd!r}")
        want = call_result(hg, ret, rank)
        if many:
            a, o = drv.batch([load_line(before), cmd + hgxv.enc_lists(draws), f"obj 0 {int(inplace)}"])[1:]
            want += " ret 1"
            # draw accounting (`collectUsed`): on the recorded draws FOLLOWED by further ones the loop `while len(edges) <
            # k` of the model stops exactly where the implementation stopped, with k hyperedges in its set
            kc = slot_meaning(case, "k", case["k"], py_loop)
            if isinstance(kc, int) and not isinstance(kc, bool) and 0 <= kc <= 200:
                extra = [list(reversed(d)) for d in draws[:2]] + [sorted(rank.values())[:s]]
                u = drv.ask(f"used {kc} " + hgxv.enc_lists(draws + extra))
                if u != f"{len(draws)} {kc}":
                    ctx.disagree(case, f"used: model takes/collects {u!r}, implementation took {len(draws)} draws for {kc} hyperedges")
        else:
            a, o = drv.batch([load_line(before), cmd + (hgxv.enc_list(draws[0]) if len(draws) == 1 else "-"),
                              f"obj 0 {int(inplace)}"])[1:]
            if len(draws) != 1:
                ctx.disagree(case, f"add_random_edge made {len(draws)} random.sample calls")
        if a != want:
            ctx.disagree(case, f"{cmd.split()[0]}: model {a!r}, implementation {want!r}")
        if o != obj_kind(hg, ret):
            ctx.disagree(case, f"{what}: the model hands the result back in a {o!r} object, the implementation in {obj_kind(hg, ret)!r}")
        # the model WITH the metadata tables (`HGM`): content and tables of the argument afterwards and of the result
        if mv_before[0] != "exc" and (many or len(draws) == 1):
            kc = slot_meaning(case, "k", case["k"], py_loop) if many else None
            mcmd = (f"addedgesM {int(inplace)} {kc} {opt(order)} {opt(size)} {hgxv.enc_lists(draws)}" if many
                    else f"addedgeM {int(inplace)} {opt(order)} {opt(size)} {hgxv.enc_list(draws[0])}")
            # (second extension round) the SEEDED PROGRAM over the named sources on the replay generator: a seeded run
            # finds the recording behind `seed` (seed 0 like any other) and nothing in the ambient queue; for
            # add_random_edges the recording is FOLLOWED by further draws the loop must not take; `objM`: the object
            # with all its tables that carries the result, and what later writes into it do to the argument
            mseed = None if sd is None else (abs(sd) % 10 ** 9 if type(sd) is int else 1)
            amb_q, seed_q = split_at_seed(log, "py", "sample", rank)
            if many:
                extra_s = [list(reversed(d)) for d in draws[:2]] + [sorted(rank.values())[:s]]
                if sd is None:
                    amb_q = amb_q + extra_s
                else:
                    seed_q = seed_q + extra_s
                scmd = (f"addedgesS {int(inplace)} {kc} {opt(order)} {opt(size)} {opt(mseed)} "
                        + hgxv.enc_lists(amb_q) + " " + hgxv.enc_lists(seed_q))
            else:
                extra_s = []
                scmd = (f"addedgeS {int(inplace)} {opt(order)} {opt(size)} {opt(mseed)} {hgxv.enc_lists(amb_q)} "
                        + hgxv.enc_lists(seed_q))
            am, asd, ao = drv.batch([load_line(before), loadm_line(mv_before), mcmd, scmd,
                                     f"objM 0 {int(inplace)}"])[2:]
            wm = call_result_m(hg, ret, rank)
            ctx.count("metadata_model_lines")
            if am != wm:
                ctx.disagree(case, f"{mcmd.split()[0]}: model {am!r}, implementation {wm!r}")
            ctx.count("seeded_program_lines")
            ctx.count("seeded_program_seed0", 1 if mseed == 0 else 0)
            ws = call_result(hg, ret, rank) + f" left {len(extra_s)}"
            if asd != ws and (not many or isinstance(kc, int)):
                ctx.disagree(case, f"{scmd.split()[0]} (program over named sources, seed={sd!r}): model {asd!r}, "
                                   f"implementation {ws!r}")
            wo = obj_kind(hg, ret) + (" 1" if obj_kind(hg, ret) == "fresh" else "")
            if ao != wo:
                ctx.disagree(case, f"{what}: object with tables - model {ao!r}, implementation {wo!r}")
    if not inplace:
        check_independent(ctx, case, hg, ret, rank, before, before_inc, what)


def gen_add(rng, malformed=False):
    spec = gen_hg(rng)
    n = len(spec["labels"])
    many = rng.random() < 0.55
    s = rng.randint(1, max(1, min(n, 4)))
    kw = {"size": s} if rng.random() < 0.5 else {"order": s - 1}
    if not malformed and rng.random() < 0.05:
        s, kw = 0, {"size": 0}           # the boundary size 0: the empty hyperedge
    if rng.random() < 0.7:
        kw["inplace"] = rng.random() < 0.5
    if rng.random() < 0.5:
        kw["seed"] = rng.choice([0, 0, 1, rng.randint(0, 1000), 2 ** 64 + 1])
    k = rng.randint(0, min(4, math.comb(n, s))) if many else None
    valid = s <= n or (many and k == 0)
    if malformed:
        valid = False
        m = rng.choice(["both", "neither", "toolarge"])
        kw.pop("size", None)
        kw.pop("order", None)
        if m == "both":
            kw.update({"size": s, "order": s - 1})
        elif m == "toolarge":
            kw["size"] = n + 1
            if many:
                k = max(k, 1)
    kinds = {"k": rng.choice(INT_KINDS), "size": rng.choice(INT_KINDS)}
    return {"routine": "add", "hg": spec, "k": k, "kwargs": kw, "valid": valid, "kinds": kinds, "prefix": gen_prefix(rng, spec),
            "ambient": [rng.randint(0, 10 ** 6), rng.randint(0, 10 ** 6)]}


# ------------------------------------------------------------------------------------------------
# random_shuffle / random_shuffle_all_orders

def pfloat(pn, pd):
    if pd == 1 and pn in (0, 1):
        return pn  # python int 0 / 1
    return pn / pd


def check_shuffle(ctx, drv, case, secs=8.0):
    import numpy as np
    from hypergraphx.generation.random import random_shuffle, random_shuffle_all_orders
    spec = case["hg"]
    rank = rank_of(spec)
    st0, hg = prepared(case, secs)
    if st0 == "timeout":
        return "timeout"
    before = snapshot(hg, rank)
    mv_before = meta_view(hg, rank)
    before_inc = incidence_view(hg)
    kw = dict(case["kwargs"])
    kinds = case.get("kinds", {})
    vals = case.get("vals") or {}
    pn, pd = case["p"]
    allo = case["all_orders"]
    if case.get("p_given", True):
        kw["p"] = float(pn / pd) if case.get("p_float") else pfloat(pn, pd)
    if "p" in vals and exact(vals["p"]) is not None:
        # p as a Fraction / Decimal / numpy scalar / bool: `0 <= p <= 1` and int(p * m) work on its exact value
        fr = exact(vals["p"])
        pn, pd = fr.numerator, fr.denominator
    seed_obj = slot_val(case, "seed", lambda: kw.get("seed"))
    sizes_order = [int(x) for x in set(hg.get_sizes())]
    # np.random.seed: integers in [0, 2**32) only (random_shuffle_all_orders seeds once per size: never without hyperedges)
    seed_rej = seed_refused(seed_obj, "np") and (not allo or bool(sizes_order))
    type_rej = (bool(case.get("type_rej")) and not (allo and not sizes_order and "seed" in vals and len(vals) == 1)) or seed_rej
    cur_by_size = {s: [tuple(sorted(rank[norm(x)] for x in e)) for e in hg.get_edges(size=s)] for s in sizes_order}

    def call():
        k2 = dict(kw)
        for name in ("order", "size"):
            if name in k2:
                k2[name] = slot_val(case, name, lambda: mk_int(k2[name], kinds.get("size")))
        if "p" in k2 and kinds.get("p") in ("np64f", "np32f"):
            k2["p"] = mk_float(k2["p"], kinds.get("p"))         # dyadic: exact in float32 too
        if "p" in vals:
            k2["p"] = mk_val(vals["p"])
        if "seed" in k2:
            k2["seed"] = slot_val(case, "seed", lambda: mk_int(k2["seed"], kinds.get("seed")))
        for name in ("inplace", "preserve_degree"):
            if name in k2:
                k2[name] = slot_val(case, name, lambda: k2[name])
        if allo:
            return random_shuffle_all_orders(hg, **k2)
        return random_shuffle(hg, **k2)

    what = "random_shuffle_all_orders" if allo else "random_shuffle"
    ambient(*case["ambient"])
    with recorder() as rec:
        st, ret = limited(call, secs)
    log = rec.log
    order, size, inplace = kw.get("order"), kw.get("size"), kw.get("inplace", True)
    pres = kw.get("preserve_degree", False)
    valid = case["valid"] and not type_rej
    if allo:
        cmd = f"shuffleall {int(inplace)} {pn} {pd} {hgxv.enc_list(sizes_order)} "
    elif "p" in vals:
        cmd = f"shuffleR {int(inplace)} {opt(order)} {opt(size)} {num_tok(vals['p'])} {int(pres)} "
    else:
        cmd = f"shuffle {int(inplace)} {opt(order)} {opt(size)} {pn} {pd} {int(pres)} "
    key = ("shuffle", allo, repr(spec), repr(sorted(kw.items(), key=repr)), repr(sorted(kinds.items())), repr(case.get("prefix")),
           repr(sorted(vals.items())))
    if st == "timeout":
        return "timeout"
    if seed_rej:
        if st != "exc":
            ctx.disagree(case, f"np.random.seed refuses this seed, the implementation accepted {seed_obj!r}")
        ctx.case(key + (st,), False, sample=case)
        return
    if st == "exc" or not valid:
        if valid:
            ctx.violation(case, f"random_shuffle{'_all_orders' if allo else ''} raised on admissible arguments"
                                f"{f' (as {vals})' if vals else ''}: {ret}")
        ctx.case(key + (st,), False, sample=case)
        if drv and not valid and not (allo and "p" in vals and exact(vals["p"]) is None):
            a = drv.batch([load_line(before), cmd + "- -"])[1]
            if a.startswith("rej") != (st == "exc"):
                ctx.disagree(case, f"implementation {'rejects' if st == 'exc' else 'accepts'}, model answers {a[:80]!r}")
            if st == "exc" and not allo and not vals:
                e = drv.ask(f"argerr {opt(order)} {opt(size)} {pn} {pd}")
                ctx.count("validation_paths_compared")
                if e != err_code(ret, ARG_MESSAGES):
                    ctx.disagree(case, f"validation: the model's first failing check is {e!r}, the implementation raised {ret!r}")
        return
    after_arg = snapshot(hg, rank)
    out = after_arg if inplace else (snapshot(ret, rank) if ret is not None else None)
    # ---- recorded draws, split per shuffled size
    parts = []
    okpat = True
    for (src, name, a, k, r) in log:
        if (src, name) == ("py", "sample"):
            parts.append({"m": len(a[0]), "k": a[1], "idx": list(r), "choices": [], "pools": []})
        elif (src, name) == ("np", "choice") and parts:
            parts[-1]["choices"].append([rank.get(norm(x), 10 ** 6) for x in r])
            parts[-1]["pools"].append(([rank.get(norm(x), 10 ** 6) for x in a[0]], a[1], np.array(k.get("p")), k.get("replace")))
        elif (src, name) != ("np", "seed"):
            okpat = False
    targets = sizes_order if allo else [size if size is not None else order + 1]
    # ---- property oracles
    if not allo and inplace and ret is not None:
        ctx.violation(case, "inplace=True returned an object")
    if allo and inplace and ret is not hg:
        ctx.violation(case, "random_shuffle_all_orders(inplace=True) did not return its argument")
    if not inplace:
        if ret is None:
            ctx.violation(case, "inplace=False returned nothing")
        if after_arg != before:
            ctx.violation(case, f"inplace=False changed its argument: {before} -> {after_arg}")
        elif incidence_view(hg) != before_inc:
            ctx.violation(case, f"inplace=False changed the incidence structure of its argument: {before_inc} -> {incidence_view(hg)}")
    replaced_some = kept_some = False
    if out is not None:
        if out[1] != before[1] or out[3] != before[3]:
            ctx.violation(case, f"node set / node metadata changed: {before[1]} -> {out[1]}")
        for e, r in before[2].items():
            if len(e) not in targets and out[2].get(e) != r:
                ctx.violation(case, f"hyperedge {e} of size {len(e)} (not shuffled) was {r}, now {out[2].get(e)}")
        for e in out[2]:
            if e not in before[2] and len(e) not in targets:
                ctx.violation(case, f"new hyperedge {e} has a size that was not shuffled")
            if len(set(e)) != len(e):
                ctx.violation(case, f"hyperedge {e} has repeated nodes")
        if pn == 0 and (out[0], out[2]) != (before[0], before[2]):
            diff = {e: (before[2].get(e), out[2].get(e)) for e in set(before[2]) | set(out[2])
                    if before[2].get(e) != out[2].get(e)}
            ctx.violation(case, f"p = 0 changed the hypergraph (hyperedge: (weight, metadata) before, after): {diff}")
        # replacement nodes come from the rewired hyperedges (selection read from the recording)
        if len(parts) == len(targets) and okpat:
            for s, part in zip(targets, parts):
                cur = cur_by_size.get(s, [])
                sel = [cur[i] for i in part["idx"] if i < len(cur)]
                pool_nodes = set(x for e in sel for x in e)
                kept = set(e for i, e in enumerate(cur) if i not in part["idx"])
                replaced_some = replaced_some or bool(sel)
                kept_some = kept_some or bool(kept)
                for e in out[2]:
                    if len(e) == s and e not in kept and not set(e) <= pool_nodes:
                        ctx.violation(case, f"replacement hyperedge {e} uses nodes outside the rewired hyperedges {sorted(pool_nodes)}")
        # the same without the recording: a new hyperedge of a shuffled size only uses nodes of the argument's hyperedges
        # of that size, and the number of hyperedges of that size does not grow (every rewired hyperedge keeps its size)
        for s in targets:
            old_nodes = set(x for e in before[2] if len(e) == s for x in e)
            for e in out[2]:
                if len(e) == s and e not in before[2] and not set(e) <= old_nodes:
                    ctx.violation(case, f"new hyperedge {e} uses nodes that are in no size-{s} hyperedge of the argument")
            n_old, n_new = sum(1 for e in before[2] if len(e) == s), sum(1 for e in out[2] if len(e) == s)
            if n_new > n_old:
                ctx.violation(case, f"{n_new} hyperedges of size {s} after the shuffle, {n_old} before")
    nontrivial = (replaced_some and kept_some) or (pn == 0 and before[0] and any(r[1] for r in before[2].values()))
    ctx.case(key + (repr([(p["idx"], p["choices"]) for p in parts]),), nontrivial, sample=case)
    ctx.count("shuffle_cases")
    ctx.count("shuffle_p0", 1 if pn == 0 else 0)
    ctx.count("retyped_shuffle", 1 if vals else 0)
    ctx.count("labels_" + spec.get("label_kind", "int"))
    # the metadata tables: the property only speaks of the ARGUMENT here ("with inplace=False leave their argument
    # untouched"); the tables of the result are compared with the model
    check_meta(ctx, case, what, mv_before, hg, ret, rank, inplace, False)
    ctx.count("instances_with_hypergraph_md", 1 if mv_before[0] != "exc" and mv_before[1] else 0)
    ctx.count("instances_with_incidence_md", 1 if mv_before[0] != "exc" and mv_before[2] else 0)
    if drv is not None:
        shuffle_correspondence(ctx, drv, case, hg, ret, rank, before, log, parts, okpat, cmd, kw, allo, inplace,
                               sizes_order, cur_by_size, targets, what)
        if okpat and mv_before[0] != "exc" and len(parts) == (len(sizes_order) if allo else 1):
            if allo:
                mcmd = (f"shuffleallM {int(inplace)} {pn} {pd} {hgxv.enc_list(sizes_order)} "
                        + hgxv.enc_lists([p_["idx"] for p_ in parts]) + " " + hgxv.enc_listss([p_["choices"] for p_ in parts]))
            else:
                mcmd = (f"shuffleM {int(inplace)} {opt(order)} {opt(size)} {pn} {pd} "
                        + hgxv.enc_list(parts[0]["idx"]) + " " + hgxv.enc_lists(parts[0]["choices"]))
            lines = [load_line(before), loadm_line(mv_before), mcmd, f"objM {int(allo)} {int(inplace)}"]
            sd_s = seed_obj
            if not allo and cmd.startswith("shuffle "):
                # (second extension round) random_shuffle as a program over the named sources: np.random is seeded (queue
                # behind the seed, seed 0 included), the positions come from the AMBIENT random queue
                mseed = None if seed_obj is None else (0 if (type(seed_obj) is int and seed_obj == 0) else 1)
                amb_q, seed_q = split_at_seed(log, "np", "choice", rank)
                lines.append("shuffleS " + cmd[len("shuffle "):] + f"{opt(mseed)} " + hgxv.enc_lists([parts[0]["idx"]])
                             + " " + hgxv.enc_lists(amb_q) + " " + hgxv.enc_lists(seed_q))
            res = drv.batch(lines)
            am, ao = res[2], res[3]
            wm = call_result_m(hg, ret, rank)
            ctx.count("metadata_model_lines")
            if am != wm:
                ctx.disagree(case, f"{mcmd.split()[0]}: model {am!r}, implementation {wm!r}")
            wo = obj_kind(hg, ret) + (" 1" if obj_kind(hg, ret) == "fresh" else "")
            if ao != wo:
                ctx.disagree(case, f"{what}: object with tables - model {ao!r}, implementation {wo!r}")
            if len(lines) == 5:
                ctx.count("seeded_program_lines")
                ctx.count("seeded_program_seed0", 1 if mseed == 0 else 0)
                ws = call_result(hg, ret, rank) + " left 0 0"
                if res[4] != ws:
                    ctx.disagree(case, f"shuffleS (program over named sources, seed={sd_s!r}): model {res[4]!r}, "
                                       f"implementation {ws!r}")
    if not inplace:
        check_independent(ctx, case, hg, ret, rank, before, before_inc, what)


def shuffle_correspondence(ctx, drv, case, hg, ret, rank, before, log, parts, okpat, cmd, kw, allo, inplace, sizes_order,
                           cur_by_size, targets, what):
    if not okpat:
        ctx.disagree(case, "draw pattern is not (random.sample np.random.choice*)*: "
                     + repr(sorted(set((s_, nm) for (s_, nm, a, k, r) in log))))
    sd = kw.get("seed")
    want_seeds = ([(sd,)] * (len(sizes_order) if allo else 1)) if sd is not None else []
    if [tuple(norm(x) for x in a) for a in seed_calls(log, "np")] != want_seeds:
        ctx.disagree(case, f"np.random.seed calls {seed_calls(log, 'np')} for seed={sd} ({len(want_seeds)} expected)")
    want = call_result(hg, ret, rank)
    o = drv.batch([load_line(before), f"obj {int(allo)} {int(inplace)}"])[1]
    if o != obj_kind(hg, ret):
        ctx.disagree(case, f"{what}: the model hands the result back in a {o!r} object, the implementation in {obj_kind(hg, ret)!r}")
    if allo:
        if len(parts) != len(sizes_order):
            ctx.disagree(case, f"{len(parts)} index draws for {len(sizes_order)} sizes")
            return
        a = drv.batch([load_line(before), cmd + hgxv.enc_lists([p["idx"] for p in parts]) + " "
                       + hgxv.enc_listss([p["choices"] for p in parts])])[1]
        if a != want:
            ctx.disagree(case, f"shuffleall: model {a!r}, implementation {want!r}")
        return
    if len(parts) != 1:
        ctx.disagree(case, f"random_shuffle made {len(parts)} random.sample calls")
        return
    part = parts[0]
    a = drv.batch([load_line(before), cmd + hgxv.enc_list(part["idx"]) + " " + hgxv.enc_lists(part["choices"])])[1]
    if " P " not in a:
        ctx.disagree(case, f"shuffle: model {a!r}, implementation {want!r}")
        return
    a_call, a_pool = a.split(" P ")
    if a_call != want:
        ctx.disagree(case, f"shuffle: model {a_call!r}, implementation {want!r}")
    mp, mw, mk = a_pool.split(" ")
    if int(mk) != part["k"] or part["m"] != len(cur_by_size.get(targets[0], [])):
        ctx.disagree(case, f"number of hyperedges to randomize: model {mk}, implementation sampled {part['k']} of {part['m']}")
    mp, mw = hgxv.dec_list(mp), hgxv.dec_list(mw)
    tot = sum(mw)
    for pool, ksz, probs, repl in part["pools"]:
        want_p = dict(zip(mp, [w / tot for w in mw])) if tot else {}
        got_p = dict(zip(pool, [float(x) for x in probs]))
        if sorted(pool) != sorted(mp) or ksz != targets[0] or repl is not False or \
                any(abs(got_p[x] - want_p[x]) > 1e-12 for x in want_p):
            ctx.disagree(case, f"np.random.choice arguments: pool {pool} k={ksz} replace={repl} p={list(probs)}; "
                               f"model pool {mp} weights {mw}")
            break


def gen_dense(rng):
    """MANY hyperedges of one size (22 / 23 / 26 pairs on 8-9 nodes) plus a few triples: int(p * m) for p = a/m is
    exact only when p is not pushed through a float (15/22 * 22, 13/23 * 23, 15/26 * 26 are 14.999.., 12.99.., 14.99..
    in floats)"""
    n = rng.choice([8, 9, 9])
    m = rng.choice([22, 23, 26])
    labels = sorted(rng.sample(range(0, 30), n))
    weighted = rng.random() < 0.5
    pairs = rng.sample(list(itertools.combinations(labels, 2)), m)
    triples = rng.sample(list(itertools.combinations(labels, 3)), rng.randint(0, 3))
    edges = [(list(e), rng.randint(1, 9) if weighted else 1, rng.choice([0, 0, 1, 2])) for e in pairs + triples]
    rng.shuffle(edges)
    return {"labels": labels, "weighted": weighted, "edges": edges, "node_md": {}, "label_kind": "int"}, m


def gen_shuffle(rng, malformed=False):
    if not malformed and rng.random() < 0.03:
        spec, m = gen_dense(rng)
        allo = rng.random() < 0.25
        a, b = rng.choice([{22: (15, 22), 23: (13, 23), 26: (15, 26)}[m], (rng.randint(0, m), m), (rng.randint(1, m - 1), m)])
        fr = Fraction(a, b)
        kw = {} if allo else rng.choice([{"size": 2}, {"order": 1}])
        kw["inplace"] = rng.random() < 0.5
        return {"routine": "shuffle", "hg": spec, "all_orders": allo, "kwargs": kw, "p": [fr.numerator, fr.denominator],
                "valid": True, "p_given": True, "p_float": True, "kinds": {}, "prefix": [], "dense": True,
                "vals": {"p": ["frac", fr.numerator, fr.denominator]},
                "ambient": [rng.randint(0, 10 ** 6), rng.randint(0, 10 ** 6)]}
    spec = gen_hg(rng, shuffle_like=True)
    allo = rng.random() < 0.3
    sizes = sorted(set(len(e[0]) for e in spec["edges"])) or [2]
    s = rng.choice(sizes + [rng.randint(1, 4)])
    kw = {}
    if not allo:
        kw = {"size": s} if rng.random() < 0.5 else {"order": s - 1}
    if rng.random() < 0.8:
        kw["inplace"] = rng.random() < 0.5
    if rng.random() < 0.4:
        kw["preserve_degree"] = rng.random() < 0.7
    if rng.random() < 0.5:
        kw["seed"] = rng.choice([0, 0, 1, rng.randint(0, 1000), 2 ** 32 - 1])
    p = rng.choice([(0, 1), (0, 1), (0, 1), (1, 16), (1, 8), (1, 4), (1, 2), (1, 2), (3, 4), (7, 8), (1, 1), (1, 1)])
    kinds = {"size": rng.choice(INT_KINDS), "seed": rng.choice(INT_KINDS), "p": rng.choice(["py", "py", "np64f", "np32f"])}
    case = {"routine": "shuffle", "hg": spec, "all_orders": allo, "kwargs": kw, "p": list(p), "valid": True,
            "p_given": not (p == (1, 1) and rng.random() < 0.5), "p_float": rng.random() < 0.5, "kinds": kinds,
            "prefix": gen_prefix(rng, spec), "ambient": [rng.randint(0, 10 ** 6), rng.randint(0, 10 ** 6)]}
    if malformed:
        case["valid"] = False
        m = rng.choice(["both", "neither", "p"]) if not allo else "p"
        if m == "both":
            kw.pop("order", None)
            kw.update({"size": s, "order": s - 1})
        elif m == "neither":
            kw.pop("order", None)
            kw.pop("size", None)
        else:
            case["p"] = list(rng.choice([(-1, 4), (5, 4), (2, 1)]))
            case["p_given"] = True
    return case


# ------------------------------------------------------------------------------------------------

# ---- retyping: the same request, some arguments handed in as objects of another VALUE TYPE ---------------------------

PY_SEEDS = [["float", 1.5], ["float", 0.0], ["float", -2.25], ["float", 1e100], ["np64f", 3.7], ["str", "abc"], ["str", "3"],
            ["str", ""], ["bytes", "k"], ["bool", 1], ["bool", 0], ["py", 2 ** 70 + 1], ["py", -5]]
PY_SEEDS_REFUSED = [["np64", 3], ["np32", 0], ["npu8", 7], ["frac", 3, 1], ["npbool", 1], ["np32f", 3.0], ["dec", "3"]]
NP_SEEDS = [["bool", 1], ["bool", 0], ["np64", 5], ["npu8", 200], ["py", 2 ** 32 - 1], ["arr0", 12]]
NP_SEEDS_REFUSED = [["float", 3.0], ["py", -1], ["py", 2 ** 32], ["str", "3"], ["np64f", 2.0], ["frac", 3, 1], ["np64", -1]]
TRUTHY = ["True", "1", "np1", "yes", "2.5", "list"]
FALSY = ["False", "0", "np0", "empty", "none", "0.0", "nolist"]


def truth(rng, b):
    return ["truth", rng.choice(TRUTHY if b else FALSY)]


def choose_slots(rng, slots):
    return rng.sample(slots, min(len(slots), rng.choice([1, 1, 2, 3])))


def retype_random(rng, case):
    n, sizes, counts = case["n"], case["sizes"], case["counts"]
    slots = ["n"] + [f"sizes.{i}" for i in range(len(sizes))] + [f"counts.{i}" for i in range(len(counts))] * 2 + ["seed"]
    chosen = list(dict.fromkeys(choose_slots(rng, slots)))
    rej = chosen[0] if rng.random() < 0.15 else None
    vals = {}
    for slot in chosen:
        if slot == "seed":
            vals[slot] = rng.choice(PY_SEEDS_REFUSED if slot == rej else PY_SEEDS)
        elif slot == "n":
            vals[slot] = pick_val(rng, "index", n, rej=(slot == rej))
        elif slot.startswith("sizes."):
            vals[slot] = pick_val(rng, "index", sizes[int(slot[6:])], rej=(slot == rej), key=True)
        else:
            vals[slot] = pick_val(rng, "loop", counts[int(slot[7:])], rej=(slot == rej))
    return finish_retype(case, vals, rej)


def finish_retype(case, vals, rej):
    vals = {k: v for k, v in vals.items() if v is not None}
    if not vals:
        return case
    case["vals"] = vals
    if rej in vals:
        case["type_rej"] = True
    return case


def retype_scale_free(rng, case):
    n, sizes, counts, skeys = case["n"], case["sizes"], case["counts"], case["scale_keys"]
    kw = case["kwargs"]
    slots = (["n"] + [f"sizes.{i}" for i in range(len(sizes))] + [f"counts.{i}" for i in range(len(counts))] * 3
             + [f"skeys.{j}" for j in range(len(skeys))] + [f"scales.{j}" for j in range(len(skeys))])
    slots += [x for x, name in (("target", "corr_target"), ("shuffles", "num_shuffles"), ("correlated", "correlated"))
              if kw.get(name) is not None]
    chosen = list(dict.fromkeys(choose_slots(rng, slots)))
    rej = chosen[0] if rng.random() < 0.15 else None
    vals = {}
    for slot in chosen:
        if slot == "n":
            vals[slot] = pick_val(rng, "npsize", n, rej=(slot == rej))
        elif slot.startswith("sizes."):
            vals[slot] = pick_val(rng, "npsize", sizes[int(slot[6:])], rej=(slot == rej), key=True)
        elif slot.startswith("counts."):
            vals[slot] = pick_val(rng, "intconv", counts[int(slot[7:])], rej=(slot == rej))
        elif slot.startswith("skeys."):
            vals[slot] = pick_val(rng, "samekey", skeys[int(slot[6:])], key=True)     # only compared with the other map's keys
        elif slot.startswith("scales."):
            v = Fraction(case["scales"][int(slot[7:])])                                 # 0.5, 1, 2, 3.5
            vals[slot] = rng.choice([["frac", v.numerator, v.denominator], ["dec", str(float(v))], ["np64f", float(v)]]
                                    + ([["bool", 1], ["npbool", 1], ["py", 1]] if v == 1 else []))
        elif slot == "target":
            v = Fraction(kw["corr_target"])                                             # 0, 1/4, 1/2, 3/4, 1
            vals[slot] = rng.choice([["frac", v.numerator, v.denominator], ["dec", str(float(v))], ["np64f", float(v)],
                                     ["np32f", float(v)]] + ([["bool", int(v)], ["npbool", int(v)]] if v in (0, 1) else []))
        elif slot == "shuffles":
            if kw.get("correlated", True):
                vals[slot] = pick_val(rng, "index", kw["num_shuffles"], rej=(slot == rej))
            else:
                # uncorrelated: num_shuffles is only compared with 0 (it must be 0) and never handed to range()
                vals[slot] = rng.choice([["float", 0.0], ["float", -0.0], ["bool", 0], ["frac", 0, 1], ["np64", 0], ["npbool", 0]])
        elif slot == "correlated":
            vals[slot] = truth(rng, kw["correlated"])
    if rej is not None and rej not in ("n", "shuffles") and not rej.startswith(("sizes.", "counts.")):
        rej = None
    if rej == "shuffles" and not kw.get("correlated", True):
        rej = None
    return finish_retype(case, vals, rej)


def retype_hoad(rng, case):
    N, orders, time = case["N"], case["orders"], case["time"]
    slots = ["N"] + ([] if time is None else ["time"]) + [f"orders.{i}" for i in range(len(orders))]
    chosen = list(dict.fromkeys(choose_slots(rng, slots)))
    rej = chosen[0] if rng.random() < 0.2 else None
    vals = {}
    for slot in chosen:
        c = N if slot == "N" else (time if slot == "time" else orders[int(slot[7:])])
        vals[slot] = pick_val(rng, "index", c, rej=(slot == rej), key=slot.startswith("orders."))
    return finish_retype(case, vals, rej)


def retype_add(rng, case):
    kw = case["kwargs"]
    slots = (["k", "k"] if case["k"] is not None else []) + [x for x in ("size", "order", "seed", "inplace") if x in kw]
    chosen = list(dict.fromkeys(choose_slots(rng, slots)))
    rej = chosen[0] if rng.random() < 0.15 else None
    vals = {}
    for slot in chosen:
        if slot == "k":
            vals[slot] = pick_val(rng, "loop", case["k"], rej=(slot == rej))
        elif slot in ("size", "order"):
            vals[slot] = pick_val(rng, "index", kw[slot], rej=(slot == rej), key=True)   # random.sample(nodes, k): [None] * k
            if slot == "order" and vals[slot][0] == "npbool":
                vals[slot] = ["frac", kw[slot], 1]       # np.True_ + 1 is the integer 2: accepted, unlike Fraction(1) + 1
        elif slot == "seed":
            vals[slot] = rng.choice(PY_SEEDS_REFUSED if slot == rej else PY_SEEDS)
        else:
            vals[slot] = truth(rng, kw["inplace"])
    if rej == "inplace":
        rej = None
    return finish_retype(case, vals, rej)


def retype_shuffle(rng, case):
    kw = case["kwargs"]
    slots = (["p", "p"] if case.get("p_given", True) else []) + [x for x in ("seed", "inplace", "preserve_degree", "order") if x in kw]
    if not slots:
        return case
    chosen = list(dict.fromkeys(choose_slots(rng, slots)))
    rej = chosen[0] if rng.random() < 0.12 else None
    vals = {}
    for slot in chosen:
        if slot == "p":
            if slot == rej and not case["all_orders"]:
                vals[slot] = rng.choice([["str", "0.5"], ["str", "1"], ["bytes", "1"]])
            else:
                rej = None if slot == rej else rej
                # any rational p is exact as a Fraction / Decimal; dyadic ones also as numpy scalars
                v = rng.choice([Fraction(1, 3), Fraction(2, 3), Fraction(1, 5), Fraction(3, 10), Fraction(7, 10), Fraction(29, 100),
                                Fraction(9, 10), Fraction(1, 7), Fraction(0), Fraction(1), Fraction(1, 2), Fraction(1, 4)])
                tgt = kw.get("size", kw.get("order", 0) + 1)
                m = sum(1 for e in case["hg"]["edges"] if len(e[0]) == tgt)
                if m >= 2 and rng.random() < 0.3:
                    v = Fraction(rng.randint(1, m - 1), m)          # p * m is an integer: the boundary of int(p * m)
                opts = [["frac", v.numerator, v.denominator], ["frac", v.numerator, v.denominator]]
                if v.denominator in (1, 2, 4, 5, 10, 100):
                    opts.append(["dec", str(v.numerator / v.denominator)])
                if v.denominator in (1, 2, 4):
                    opts += [["np64f", float(v)], ["np32f", float(v)]]
                if v in (0, 1):
                    opts += [["bool", int(v)], ["npbool", int(v)], ["np64", int(v)], ["arr0", int(v)]]
                vals[slot] = rng.choice(opts)
                case["p"] = [v.numerator, v.denominator]
        elif slot == "seed":
            if slot == rej:
                vals[slot] = rng.choice(NP_SEEDS_REFUSED)
            else:
                vals[slot] = rng.choice(NP_SEEDS)
                kw["seed"] = int(vals[slot][1])
        elif slot == "order":
            if kw["order"] in (0, 1) and rng.random() < 0.7:
                vals[slot] = ["bool", kw["order"]]          # order=True -> size = True + 1 = 2
            else:
                vals[slot] = pick_val(rng, "index", kw["order"], key=True)
                if vals[slot][0] == "bool":
                    vals[slot] = ["py", kw["order"]]
        else:
            vals[slot] = truth(rng, kw[slot])
    if rej not in ("p", "seed"):
        rej = None
    return finish_retype(case, vals, rej)


RETYPE = {"random": retype_random, "scale_free": retype_scale_free, "hoad": retype_hoad, "add": retype_add,
          "shuffle": retype_shuffle}

CHECKS = {"random": check_random, "scale_free": check_scale_free, "hoad": check_hoad, "add": check_add,
          "shuffle": check_shuffle}
GENS = {"random": gen_random, "scale_free": gen_scale_free, "hoad": gen_hoad, "add": gen_add, "shuffle": gen_shuffle}


def fixed_cases():
    """the inputs of DESIGN section 2 (D26, D27) - always run first"""
    amb = [1, 2]
    yield {"routine": "scale_free", "n": 10, "sizes": [2], "counts": [3], "scale_keys": [2], "scales": [1.0],
           "kwargs": {}, "valid": True, "ambient": amb}
    yield {"routine": "scale_free", "n": 10, "sizes": [2, 3], "counts": [3, 2], "scale_keys": [2, 3], "scales": [1.0, 2.0],
           "kwargs": {}, "valid": True, "ambient": amb}
    hg = {"labels": [0, 1, 2, 3, 4], "weighted": True, "node_md": {"1": 2},
          "edges": [[[0, 1], 2, 1], [[1, 2], 3, 2], [[2, 3, 4], 4, 3]]}
    yield {"routine": "shuffle", "hg": hg, "all_orders": False, "kwargs": {"size": 2, "seed": 3}, "p": [0, 1],
           "valid": True, "p_given": True, "p_float": True, "ambient": amb}
    yield {"routine": "shuffle", "hg": hg, "all_orders": True, "kwargs": {"inplace": False}, "p": [0, 1],
           "valid": True, "p_given": True, "p_float": False, "ambient": amb}
    # D53: labels that numpy does not keep as they are (tuples; integers beyond int64 next to small / negative ones)
    for labels in ([[0, 1], [1, 2], [2], [0, 0, 1]], [-3, 5, 2 ** 63 + 1, 2 ** 63 + 2]):
        hg2 = {"labels": labels, "weighted": False, "node_md": {},
               "edges": [[[labels[0], labels[1]], 1, 0], [[labels[1], labels[2]], 1, 1], [[labels[2], labels[3]], 1, 0],
                         [[labels[0], labels[1], labels[2]], 1, 0]]}
        yield {"routine": "shuffle", "hg": hg2, "all_orders": False, "kwargs": {"size": 2, "inplace": False, "seed": 1},
               "p": [1, 1], "valid": True, "p_given": True, "p_float": True, "ambient": amb}
    # an activity vector that describes more individuals than the N simulated ones (the surplus is never read)
    yield {"routine": "hoad", "N": 3, "orders": [1], "acts16": [[12, 12, 4, 16, 16]], "time": 3, "ambient": amb}
    # requested numbers that are not ints: scale_free_hypergraph means int(count), the loops of random_hypergraph and
    # add_random_edges run while len(..) < count
    yield {"routine": "scale_free", "n": 12, "sizes": [2, 4], "counts": [3, 2], "scale_keys": [2, 4], "scales": [1.0, 1.0],
           "kwargs": {"corr_target": 0.5}, "valid": True, "ambient": amb,
           "vals": {"counts.0": ["float", 3.7], "counts.1": ["float", 2.2]}}
    yield {"routine": "scale_free", "n": 12, "sizes": [2, 3], "counts": [4, 2], "scale_keys": [2, 3], "scales": [1.0, 1.0],
           "kwargs": {}, "valid": True, "ambient": amb, "vals": {"counts.0": ["str", "4"], "counts.1": ["str", " 2 "]}}
    yield {"routine": "random", "n": 6, "sizes": [2, 3], "counts": [3, 1], "seed": None, "uniform": False, "ambient": amb,
           "vals": {"counts.0": ["float", 2.5], "counts.1": ["frac", 1, 3], "seed": ["float", 1.5]}}


def attempt(ctx, drv, case, secs):
    """the outputs are observed through the public API of the returned objects; if that raises (e.g. a generator left
    dangling ids behind) the case is a failing input, not a crash of the tool"""
    try:
        return CHECKS[case["routine"]](ctx, drv, case, secs)
    except (RuntimeError, BrokenPipeError):
        raise  # the Lean driver died: tool failure
    except Exception as e:  # noqa: BLE001
        ctx.violation(case, f"{case['routine']}: the returned object / the argument cannot be observed any more: "
                            f"{type(e).__name__}: {str(e)[:120]}")
        return None


def run_case(ctx, drv, case):
    """a call that exceeds the alarm is repeated once with a four times longer limit before it counts as
    'does not return' (all generated requests are feasible and small: a healthy call takes milliseconds)"""
    if case.get("near_saturation"):
        # the rejection loop of a near-saturated request may legitimately need very many draws (termination is only
        # probabilistic): a slow call here is "no output", counted, never a violation
        if attempt(ctx, drv, case, 3.0) == "timeout":
            ctx.count("near_saturation_calls_abandoned")
        return
    if attempt(ctx, drv, case, 5.0) == "timeout":
        ctx.count("slow_calls_repeated")
        if attempt(ctx, drv, case, 20.0) == "timeout":
            ctx.violation(case, f"{case['routine']}: the call did not return within 20 s on a small feasible request")
            ctx.extra["nonreturning_call"] = True  # stop the run: every further case may cost 25 s


def run(ctx):
    drv = ctx.driver() if ctx.model_available else None
    import os
    if not os.environ.get("C14_NOFIXED"):
        for case in fixed_cases():
            if not ctx.extra.get("nonreturning_call"):
                run_case(ctx, drv, case)
    n = 0 if ctx.extra.get("nonreturning_call") else ctx.scale(6000, 300000)
    routines = ["random", "random", "scale_free", "scale_free", "hoad", "add", "add", "shuffle", "shuffle", "shuffle"]
    first_dis = None
    for i in range(n):
        r = routines[i % len(routines)]
        malformed = r != "hoad" and ctx.rng.random() < 0.12
        case = GENS[r](ctx.rng, malformed) if r != "hoad" else GENS[r](ctx.rng)
        if not malformed and case.get("valid", True) and "vals" not in case and ctx.rng.random() < 0.3:
            # the same request with some arguments handed in as objects of another value type
            case = RETYPE[r](ctx.rng, case)
        run_case(ctx, drv, case)
        if ctx.extra.get("nonreturning_call") or (ctx.time_left() is not None and ctx.time_left() < 8):
            break
        if len(ctx.violations) >= 5:
            break
        if len(ctx.disagreements) >= 5:
            # the correspondence is broken; keep the first five reports and go on for a while looking for an input on
            # which the PROPERTY fails (a failing input says more than 'the code is not the modelled code any more')
            del ctx.disagreements[5:]
            first_dis = i if first_dis is None else first_dis
            if ctx.violations or i - first_dis >= 1500:
                break


def replay(ctx, case):
    drv = ctx.driver() if ctx.model_available else None
    run_case(ctx, drv, case)
