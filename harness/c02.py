"""C02 - DirectedHypergraph faithfully stores (source set, target set) hyperedges.

Three parties answer every generated history, operation by operation and query by query:
  * the REAL `hypergraphx.DirectedHypergraph` (+ measures.degree, measures.directed.degree, utils.cc),
  * the Lean model `lean/Hgxv/Model/C02.lean` through `lean/Driver/C02.lean` (concrete store; the driver also runs
    the abstract `Spec` in lock-step and flags `!spec:` when the two Lean levels differ),
  * `PySpec` below: an independent few-lines-per-method Python reference of the abstract object the property
    names (dict of nodes + dict {(frozenset S, frozenset T): [weight, metadata]}), i.e. the property's own words.
implementation != PySpec on an observable  -> ctx.violation (failing input = the history up to that operation)
implementation != Lean model only          -> ctx.disagree  (correspondence broken)
plus direct oracles for the named claims (direction, once per role, removed node gone, node metadata survives
add_edge, listing order irrelevant, label equivariance).

Strengthening round c: (1) aliasing OUT - after the answers were compared, the harness empties and refills every
list / dict / set a query returned and asks again (`scribble_out`); (2) every node set / node list / hyperedge list is
handed over in every collection type the unchanged code accepts, in every entry point (`Builder`); (3) a new equal label
object for every call, universes with ints above the small-int cache, run-time strings, tuple labels (`Labeling.lab`);
(4) aliasing IN - the harness changes the objects it handed to a call after the call (`scribble_in`); (5) filter x up_to
x metadata/asdict combinations incl. falsy `order=0, size=0` given together.

Strengthening round e: metadata VALUES of every JSON kind with its falsy member, inside dicts and - as the metadata of a
node / hyperedge / the hypergraph itself - instead of a dict (0, '', [], None, False, 0.0, True, 'x', 7, [1, 2], 2.5; wire
form `9:<value token>`, Lean `[(nonDict, v)]`), through every call that stores or carries metadata (constructor, add_node,
add_edge(s), the three setters, remove_node(keep_edges=True), copy) and every call that implicitly re-adds nodes; item
assignment on a non-dict value is a rejected call inside the history; the node-metadata-survives oracle runs for every
call that must leave node metadata alone; `get_edges(subhypergraph=True)` objects are asked every query."""
import contextlib
import io
import json
import zlib
from fractions import Fraction

import hgxv

RULE = ("random histories of 1-40 public mutating calls (constructor with/without edge_list/weights/metadata, add_node(s), "
        "add_edge(s), remove_edge(s), remove_node(s) with both keep_edges, set_weight, the nine metadata setters, clear, "
        "copy into a second object that is then mutated independently) over 3-6 labels of six order-isomorphic universes "
        "(0..U, shifted ints, strings incl. '' and two-letter ones, ints above the small-int cache, run-time strings, tuple "
        "labels; a NEW equal label object for every single call), hyperedges with disjoint non-empty sides of total size 2-5 "
        "drawn mostly from a pool of 2-5 favourites re-listed in shuffled node order; every node set / node list / hyperedge "
        "list is handed over in a collection type chosen per argument from tuple, list, set, frozenset, generator, dict keys, "
        "dict, range, numpy array (bare-node sides for integer labels), in every entry point; weights k/4, weighted and "
        "unweighted, 10-15% malformed calls (absent node/edge, weight on unweighted, short lists, bare node outside add_edge, "
        "order and size together incl. falsy values, missing attribute, attribute of a non-dict metadata value, node listed twice "
        "in remove_nodes); node / hyperedge metadata of every JSON kind incl. falsy non-dict values, 35% of the histories annotate "
        "nodes before the hyperedges touching them arrive; after EVERY "
        "operation (a) the caller changes the objects it handed to the call, (b) every query of DESIGN 3b is compared for every "
        "node of the universe + one absent node and filters none / random size / random order / both (all sizes 0-6, orders "
        "0-5 at the end of the history) x up_to x metadata/asdict flags, (c) the caller empties and refills every list / dict / "
        "set the queries RETURNED and asks again, (d) [extension round] the RAW tables (expose_data_structures, get_edge_list, "
        "get_adj_dict, len, iter, str, is_weighted) are compared with the model's Store entry by entry and in their order, "
        "get_edges is called with every combination of subhypergraph / keep_isolated_nodes / metadata / up_to (the returned "
        "hypergraph is digested with every query; the Lean driver runs the routine as a program of public calls on the tables "
        "and on the abstract object and checks both against the closed form), and with probability 0.3 "
        "set_incidence_metadata (present hyperedge in permuted listing / absent / bare-node side, any node, any metadata) "
        "followed by get_all_incidences_metadata and two get_incidence_metadata. "
        "distinct = canonical rank-level text of the history; non-trivial = at least one accepted removal AND one insertion of a "
        "(source,target) pair that is or was present; plus the EXHAUSTIVE set of all histories of <= 2 (quick) / <= 3 (thorough) "
        "calls over a 19-call alphabet on 3 nodes, weighted and unweighted (bounded exploration supporting the tie)")
ASSUMPTIONS = ["hyperedges have disjoint, duplicate-free, non-empty source and target sets (the property's quantifier)",
               "labels are mutually comparable and reach the model as their rank in the sorted universe",
               "weights are multiples of 1/4 (exact in binary64); metadata is a dict over six field names (incl. '') whose values come "
               "from a pool with every JSON kind and its falsy member (False True 'x' '' 7 0 2.5 0.0 [1,2] [] {'a':1} {} None), or a "
               "value that is NOT a dict (0 '' [] None False 0.0 True 'x' 7 [1,2] 2.5: the setters and add_node / add_edge store any "
               "object; item assignment on it raises); None as a metadata ARGUMENT of add_node / add_edge / add_edges / the constructor "
               "means 'not given' = {} (so does the metadata None of a hyperedge shrunk by remove_node(keep_edges=True)); the "
               "constructor takes a dict or a falsy value (= {}) as hypergraph metadata, set_hypergraph_metadata any value",
               "batched calls (add_edges, remove_edges, remove_nodes, add_nodes) that raise keep the effects of the elements "
               "before the failing one - modelled as the Python loops behave, the property does not speak about atomicity",
               "exception classes are not compared (raised / not raised); listings are compared as multisets",
               "a collection stands for the set / sequence of its elements; a bare string or a bare tuple label as a whole "
               "side is ambiguous in Python (it IS an iterable of characters / components) and is not generated",
               "the metadata dictionary of ONE node / hyperedge / hypergraph is stored and returned by reference (library "
               "idiom, unchanged code): whether a change the caller makes to such a dictionary afterwards is seen by the "
               "object is left open, but it must not be seen in any other entry, in another object, or twice; every other "
               "returned or handed-in list / dict / set belongs to the caller alone",
               "get_edge_list / get_adj_dict / expose_data_structures hand out the tables on purpose (paired with setters): "
               "that they are the object's own tables is outside the property, their CONTENT is compared with the model's tables; "
               "a difference in the raw tables alone is reported as a broken correspondence only if no public query shows it",
               "_incidences_metadata is keyed by the canonical hyperedge and the node, the node is not checked, removals do not "
               "prune it (an entry shows again when the hyperedge is re-inserted), clear() empties it - modelled as the code behaves"]
TRUSTED = ["harness/c02.py renderers and PySpec (independent reference of the abstract object)",
           "copy.deepcopy gives an independent object (exercised: both objects are queried after every later operation)",
           "Python's iteration protocol: tuple(x) / sorted(x) of any of the collection types yields its elements"]
BUDGET_S = {"quick": 64, "thorough": 1500}

# ------------------------------------------------------------------------------------------------------------
# tokens <-> python values

ATTR = {0: "weighted", 1: "type", 2: "k2", 3: "k3", 4: "k4", 5: ""}
ATTR_R = {v: k for k, v in ATTR.items()}
# every JSON kind, each with its falsy member: bool, string, int, list, dict, float, null
VALS = {0: False, 1: True, 2: "DirectedHypergraph", 3: "x", 4: 7, 5: [1, 2], 6: {"a": 1}, 7: 2.5,
        8: 0, 9: "", 10: [], 11: None, 12: {}, 13: 0.0}
VALS_R = {json.dumps(v): k for k, v in VALS.items()}
assert len(VALS_R) == len(VALS)
# A metadata value that is NOT a dict (set_*_metadata / add_node / add_edge store whatever object they are given) is written
# [[NOND, value token]] - the reserved attribute token of lean/Hgxv/Model/C02.lean (`nonDict`); never a dict key.
NOND = 9
FALSY_NONDICT = [8, 9, 10, 11, 0, 13]             # 0 '' [] None False 0.0
TRUTHY_NONDICT = [1, 3, 4, 5, 7]                  # True 'x' 7 [1, 2] 2.5
NONE_MD = [[NOND, 11]]
DICT_VALUES = [3, 4, 5, 6, 7, 1, 0, 8, 9, 10, 11, 12]
ATTR_NAMES = [2, 3, 4, 5]


def is_nondict(md):
    return md is not None and len(md) == 1 and md[0][0] == NOND


def arg_md(md):
    """metadata as the ARGUMENT of add_node / add_edge / add_edges / the constructor: Python's None means "not given" and
    is stored as {} (`if metadata is None: metadata = {}`); every other value, falsy or not, is stored as it is"""
    return [] if md is not None and [list(x) for x in md] == NONE_MD else md


def py_val(v):
    x = VALS[v]
    return json.loads(json.dumps(x))        # fresh object every time (no aliasing through the harness)


def py_meta(md):
    """md: list of [attr, value] pairs or None"""
    if md is None:
        return None
    if is_nondict(md):
        return py_val(md[0][1])
    return {ATTR[a]: py_val(v) for a, v in md}


INT_KINDS = ("int", "shift", "big")         # label kinds for which a bare node can stand for a one-element side
STABLE_HASH_KINDS = ("int", "shift", "big")  # iteration order of a set of such labels does not depend on PYTHONHASHSEED
KINDS = ("int", "shift", "str", "big", "rstr", "tup")


class Labeling:
    """rank <-> label. `lab(r)` builds a NEW, equal label object on every call wherever CPython allows it (ints above the
    small-int cache, strings of length >= 2 joined at run time, tuples): code that compares labels with `is` instead of
    `==`, or keeps a label object and compares identities later, is then visible."""

    def __init__(self, kind, U):
        self.kind = kind
        if kind == "int":
            self.labels = list(range(U + 1))
        elif kind == "shift":
            self.labels = [10 + 7 * i for i in range(U + 1)]
        elif kind == "big":
            self.labels = [10 ** 6 + 257 * i for i in range(U + 1)]
        elif kind == "rstr":
            self.labels = ["n%02d" % (3 * i) for i in range(U + 1)]
        elif kind == "tup":
            self.labels = [(i // 2, "xy"[i % 2]) for i in range(U + 1)]
        else:
            self.labels = ["", "a", "ab", "b", "ba", "c", "d", "e"][:U + 1]
        assert self.labels == sorted(self.labels)
        self.rank = {x: i for i, x in enumerate(self.labels)}

    def lab(self, r):
        x = self.labels[r]
        if isinstance(x, int):
            return int(str(x))
        if isinstance(x, str):
            return "".join(list(x))
        return tuple(list(x))

    def side(self, s):
        return self.lab(s) if isinstance(s, int) else tuple(self.lab(r) for r in s)

    def edge(self, e):
        return (self.side(e[0]), self.side(e[1]))


# ------------------------------------------------------------------------------------------------------------
# rendering (mirror of lean/Driver/C02.lean)

def j(sep, empty, items):
    items = list(items)
    return sep.join(items) if items else empty


def r_meta_tok(md):
    """metadata given as {attr token: value token}"""
    return j(",", "_", sorted(f"{a}:{v}" for a, v in md.items()))


def r_meta_py(md):
    """metadata as the implementation returns it"""
    if not isinstance(md, dict):
        try:
            tok = VALS_R[json.dumps(md)]
            if tok in FALSY_NONDICT or tok in TRUTHY_NONDICT:
                return f"{NOND}:{tok}"
        except Exception:
            pass
        return "?" + repr(md)
    out = []
    for k, v in md.items():
        try:
            out.append(f"{ATTR_R[k]}:{VALS_R[json.dumps(v)]}")
        except Exception:
            out.append("?" + repr((k, v)))
    return j(",", "_", sorted(out))


def r_w(w):
    try:
        if isinstance(w, bool):
            return "?" + repr(w)
        q = Fraction(w) * 4
        return str(q.numerator) if q.denominator == 1 else "?" + repr(w)
    except Exception:
        return "?" + repr(w)


class ImplView:
    """renders answers of the real object with ranks instead of labels"""

    def __init__(self, lab):
        self.lab = lab

    def n(self, x):
        try:
            return str(self.lab.rank[x])
        except Exception:
            return "?" + repr(x)

    def nodes(self, xs):
        try:
            return j(",", "-", [str(r) for r in sorted(self.lab.rank[x] for x in xs)])
        except Exception:
            return "?" + repr(xs)

    def side(self, xs):
        if not isinstance(xs, tuple):
            return "?" + repr(xs)
        return j(",", "_", [self.n(x) for x in xs])

    def key(self, e):
        if not (isinstance(e, tuple) and len(e) == 2):
            return "?" + repr(e)
        return self.side(e[0]) + ">" + self.side(e[1])

    def keys(self, es):
        return j(";", "-", sorted(self.key(e) for e in es))


def r_pairs(items):
    return j(",", "-", sorted(f"{a}:{b}" for a, b in items))


def show_filt(f):
    return "a" if f is None else "b" if f == "b" else f"{f[0]}{f[1]}"


BOTH = [(1, 2), (0, 0), (0, 1), (2, 0), (3, 4), (0, 2)]     # (order, size) given together: always rejected, also when falsy


def filt_kwargs(f, bsel=0):
    if f is None:
        return {}
    if f == "b":
        o, z = BOTH[bsel % len(BOTH)]
        return {"order": o, "size": z}
    return {"size": f[1]} if f[0] == "s" else {"order": f[1]}


def filt_size(f):
    """target size of a filter (None = no filter)"""
    if f is None:
        return None
    return f[1] if f[0] == "s" else f[1] + 1


# ------------------------------------------------------------------------------------------------------------
# digest of the real object

def call(fn, *a, **k):
    try:
        with contextlib.redirect_stdout(io.StringIO()):
            return True, fn(*a, **k)
    except Exception:
        return False, None


def digest_impl(h, lab, U, filters, bsel=0, rets=None):
    with contextlib.redirect_stdout(io.StringIO()):
        return _digest_impl(h, lab, U, filters, bsel, rets)


def _digest_impl(h, lab, U, filters, bsel, rets):
    """every query of the property on the real object, rendered rank-level. `rets` (optional list) receives
    (label, returned object) of every answered query so that the caller can scribble on the returned containers."""
    from hypergraphx.measures.directed import in_degree, out_degree, in_degree_sequence, out_degree_sequence
    V = ImplView(lab)
    d = {}

    def put(label, fn, render, *a, **k):
        try:
            r = fn(*a, **k)
        except Exception:
            d[label] = "rej"
            return
        try:
            d[label] = render(r)
        except Exception:
            d[label] = "?" + repr(r)[:80]
        if rets is not None:
            rets.append((label, r))

    def r_bool(b):
        return "1" if b is True else "0" if b is False else "?" + repr(b)[:60]

    def r_int(x):
        return str(x) if isinstance(x, int) and not isinstance(x, bool) else "?" + repr(x)

    def r_list(f):
        return lambda r: f(r) if isinstance(r, list) else "?" + repr(r)[:80]

    def r_dict(f):
        return lambda r: f(r) if isinstance(r, dict) else "?" + repr(r)[:80]

    put("nodes", h.get_nodes, r_list(V.nodes))
    put("nodesmeta", h.get_nodes, r_dict(lambda r: j("|", "-", sorted(V.n(x) + "=" + r_meta_py(m) for x, m in r.items()))), metadata=True)
    put("numnodes", h.num_nodes, r_int)
    put("numedges", h.num_edges, r_int)
    put("sources", h.get_sources, r_list(lambda r: j(";", "-", sorted(V.side(x) for x in r))))
    put("targets", h.get_targets, r_list(lambda r: j(";", "-", sorted(V.side(x) for x in r))))
    put("sizes", h.get_sizes, r_list(lambda r: j(",", "-", [str(x) for x in sorted(r)])))
    put("orders", h.get_orders, r_list(lambda r: j(",", "-", sorted(str(x) for x in r))))
    put("distsizes", h.distribution_sizes, lambda r: r_pairs(r.items()))
    put("maxsize", h.max_size, r_int)
    put("maxorder", h.max_order, r_int)
    put("uniform", h.is_uniform, r_bool)
    put("weighted", h.is_weighted, r_bool)
    put("allnm", h.get_all_nodes_metadata, lambda r: j("|", "-", sorted(r_meta_py(m) for m in (r.values() if isinstance(r, dict) else r))))
    put("allem", h.get_all_edges_metadata, lambda r: j("|", "-", sorted(r_meta_py(m) for m in (r.values() if isinstance(r, dict) else r))))
    put("hmeta", h.get_hypergraph_metadata, r_meta_py)
    for f in filters:
        t = show_filt(f)
        kw = filt_kwargs(f, bsel)
        for up in (0, 1):
            put(f"edges.{t}.{up}", h.get_edges, r_list(V.keys), up_to=bool(up), **kw)
            put(f"emeta.{t}.{up}", h.get_edges, r_dict(lambda r: j(";", "-", sorted(V.key(e) + "=" + r_meta_py(m) for e, m in r.items()))),
                up_to=bool(up), metadata=True, **kw)
            put(f"wdict.{t}.{up}", h.get_weights, r_dict(lambda r: j(";", "-", sorted(V.key(e) + "=" + r_w(w) for e, w in r.items()))),
                up_to=bool(up), asdict=True, **kw)
            put(f"wlist.{t}.{up}", h.get_weights, r_list(lambda r: j(",", "-", sorted(r_w(w) for w in r))),
                **({"up_to": True} if up else {}), **kw)
        put(f"degseq.{t}", h.degree_sequence, lambda r: r_pairs((V.n(x), dg) for x, dg in r.items()), **kw)
        put(f"degdist.{t}", h.degree_distribution, lambda r: r_pairs(r.items()), **kw)
        put(f"indegseq.{t}", in_degree_sequence, lambda r: r_pairs((V.n(x), dg) for x, dg in r.items()), h, **kw)
        put(f"outdegseq.{t}", out_degree_sequence, lambda r: r_pairs((V.n(x), dg) for x, dg in r.items()), h, **kw)
        put(f"isolated.{t}", h.isolated_nodes, V.nodes, **kw)
    for rnk in range(U + 1):
        put(f"has.{rnk}", h.check_node, r_bool, lab.lab(rnk))                 # a new label object for every single call
        put(f"nm.{rnk}", h.get_node_metadata, r_meta_py, lab.lab(rnk))
        for f in filters:
            t = f"{rnk}.{show_filt(f)}"
            kw = filt_kwargs(f, bsel + rnk)
            put("src." + t, h.get_source_edges, r_list(V.keys), lab.lab(rnk), **kw)
            put("tgt." + t, h.get_target_edges, r_list(V.keys), lab.lab(rnk), **kw)
            put("inc." + t, h.get_incident_edges, r_list(V.keys), lab.lab(rnk), **kw)
            put("nb." + t, h.get_neighbors, lambda r: V.nodes(r) if isinstance(r, (set, frozenset)) else "?" + repr(r), lab.lab(rnk), **kw)
            put("deg." + t, h.degree, r_int, lab.lab(rnk), **kw)
            put("indeg." + t, in_degree, r_int, h, lab.lab(rnk), **kw)
            put("outdeg." + t, out_degree, r_int, h, lab.lab(rnk), **kw)
            put("isiso." + t, h.is_isolated, r_bool, lab.lab(rnk), **kw)
    return d


def qe_impl(h, b, e, rets=None):
    """check_edge | get_weight | get_edge_metadata of one hyperedge; `b` (a Builder) writes the hyperedge in a new
    container type for each of the three calls"""
    V = ImplView(b.lab)
    out = []
    for fn, render in ((h.check_edge, lambda x: "1" if x is True else "0" if x is False else "?" + repr(x)),
                       (h.get_weight, r_w), (h.get_edge_metadata, r_meta_py)):
        ok, r = call(fn, b.edge(e))
        out.append(render(r) if ok else "rej")
        if ok and rets is not None and fn == h.get_edge_metadata:
            rets.append(("qe", r, b.ekey(e)))
    return "|".join(out)


# ------------------------------------------------------------------------------------------------------------
# PySpec: the abstract object of the property (rank level), written from the property's words

# ------------------------------------------------------------------------------------------------------------
# extension round: raw tables and get_edges(subhypergraph=True) AS CALLS of the Lean model

def raw_impl(h, lab):
    """`expose_data_structures()`, `get_edge_list()`, `get_adj_dict()`, `len`, `iter`, `str`, `is_weighted` rendered rank-level IN
    THE ORDER of the tables (dict insertion order, list order): mirror of the `raw` line of lean/Driver/C02.lean.  Nothing is
    sorted: the model's `Store` is compared with the attributes of the object entry by entry (ids, positions)."""
    V = ImplView(lab)

    def r_id(x):
        return str(x) if isinstance(x, int) and not isinstance(x, bool) else "?" + repr(x)

    def r_adj(a):
        return j("|", "-", [V.n(x) + "=" + j(",", "-", [r_id(i) for i in ids]) for x, ids in a.items()])

    def r_el(d):
        return j(";", "-", [V.key(e) + "=" + r_id(i) for e, i in d.items()])

    try:
        with contextlib.redirect_stdout(io.StringIO()):
            t = h.expose_data_structures()
            parts = [
                "w=" + ("1" if t["_weighted"] is True else "0" if t["_weighted"] is False else "?"),
                "next=" + r_id(t["next_edge_id"]),
                "el=" + r_el(t["_edge_list"]),
                "rev=" + j(";", "-", [r_id(i) + "=" + V.key(e) for i, e in t["reverse_edge_list"].items()]),
                "wt=" + j(";", "-", [r_id(i) + "=" + r_w(w) for i, w in t["_weights"].items()]),
                "em=" + j(";", "-", [r_id(i) + "=" + r_meta_py(m) for i, m in t["edge_metadata"].items()]),
                "as=" + r_adj(t["_adj_source"]), "at=" + r_adj(t["_adj_target"]),
                "nm=" + j("|", "-", [V.n(x) + "=" + r_meta_py(m) for x, m in t["node_metadata"].items()]),
                "hm=" + r_meta_py(t["hypergraph_metadata"]),
                "gel=" + r_el(h.get_edge_list()),
                "gas=" + r_adj(h.get_adj_dict("source")), "gat=" + r_adj(h.get_adj_dict("target")),
                "len=" + r_id(len(h)),
                "isw=" + ("1" if h.is_weighted() is True else "0" if h.is_weighted() is False else "?"),
                "iter=" + r_el(dict(iter(h))),
            ]
            text = str(h)
            want = "Hypergraph with {} nodes and {} edges.\nDistribution of hyperedge sizes: {}"
            ds = h.distribution_sizes()
            nn, ne = h.num_nodes(), h.num_edges()
            parts.append("str=" + (f"{nn}/{ne}/{r_pairs(ds.items())}" if text == want.format(nn, ne, ds) else "?" + text[:60]))
            if t.get("type") != "DirectedHypergraph":
                parts.append("type=?")
            return " ".join(p.replace(" ", "") for p in parts)
    except Exception as ex:
        return "exc:" + type(ex).__name__


SUB_OPTIONS = [  # (subhypergraph, keep_isolated_nodes, metadata)
    (True, True, False), (True, False, False), (True, True, True), (True, False, True),
    (False, True, False), (False, False, True), (False, False, False), (False, True, True)]


def sub_impl(h, lab, U, f, up, sub, keep, md, bsel):
    """the real `get_edges(order, size, up_to, subhypergraph, keep_isolated_nodes, metadata)` -> ('out', text) | ('dig', digest)"""
    V = ImplView(lab)
    kw = dict(filt_kwargs(f, bsel))
    # every option given explicitly or left at its default when falsy (both spellings occur)
    if up or bsel % 2:
        kw["up_to"] = up
    if sub or bsel % 3 == 0:
        kw["subhypergraph"] = sub
    if keep or bsel % 5 == 0:
        kw["keep_isolated_nodes"] = keep
    if md or bsel % 7 == 0:
        kw["metadata"] = md
    ok, r = call(h.get_edges, **kw)
    if not ok:
        return ("out", "rej"), None
    if sub:
        if type(r).__name__ != "DirectedHypergraph" or r is h:
            return ("out", "?" + repr(r)[:60]), None
        try:
            return ("dig", digest_impl(r, lab, U, [None])), r
        except Exception as ex:
            return ("out", "exc:" + type(ex).__name__), None
    try:
        if md:
            return ("out", "emeta=" + j(";", "-", sorted(V.key(e) + "=" + r_meta_py(m) for e, m in r.items()))), None
        return ("out", "keys=" + (V.keys(r) if isinstance(r, list) else "?" + repr(r)[:60])), None
    except Exception as ex:
        return ("out", "exc:" + type(ex).__name__), None


def b01(x):
    return "1" if x else "0"


class Rej(Exception):
    pass


def strict_key(e):
    if isinstance(e[0], int) or isinstance(e[1], int):
        raise Rej("bare node")
    return (frozenset(e[0]), frozenset(e[1]))


class PySpec:
    def __init__(self, weighted=False, hm=None, nm=None, es=None, ws=None, mds=None):
        self.weighted = weighted
        self.nodes = {}                      # node -> {attr: value}
        self.edges = {}                      # (frozenset S, frozenset T) -> [weight quanta, {attr: value}]
        self.hmeta = {} if is_nondict(hm) else dict(hm or [])        # `hypergraph_metadata or {}`: a falsy value of any type is {}
        self.hmeta[0] = 1 if weighted else 0
        self.hmeta[1] = 2
        for n, md in (nm or []):
            self.add_node(n, md)
        if es is not None:
            if weighted and ws is not None and len(es) != len(ws):
                raise Rej()
            self.add_edges(es, ws, mds)

    def clone(self):
        c = PySpec.__new__(PySpec)
        c.weighted = self.weighted
        c.nodes = {n: dict(m) for n, m in self.nodes.items()}
        c.edges = {k: [w, dict(m)] for k, (w, m) in self.edges.items()}
        c.hmeta = dict(self.hmeta)
        return c

    # -- mutators
    def add_node(self, n, md=None):
        if n not in self.nodes or self.nodes[n] == {}:          # {NOND: v} stands for a non-dict value: never equal to {}
            self.nodes[n] = dict(arg_md(md) or [])

    def add_nodes(self, ns):
        for n in ns:
            self.add_node(n)

    def add_edge(self, e, w=None, md=None):
        S = [e[0]] if isinstance(e[0], int) else list(e[0])
        T = [e[1]] if isinstance(e[1], int) else list(e[1])
        if not self.weighted and w not in (None, 4):
            raise Rej()
        key = (frozenset(S), frozenset(T))
        if key not in self.edges:
            for n in S + T:
                self.add_node(n)
            self.edges[key] = [(4 if w is None else w) if self.weighted else 4, dict(arg_md(md) or [])]
        else:
            if self.weighted:
                self.edges[key][0] += 4 if w is None else w
            self.edges[key][1] = dict(arg_md(md) or [])

    def add_edges(self, es, ws=None, mds=None):
        if ws is not None:
            self.weighted = True
            if len(es) != len(ws):
                raise Rej()
        for i, e in enumerate(es):
            if mds and i >= len(mds):
                raise Rej()
            self.add_edge(e, ws[i] if ws else None, mds[i] if mds else None)

    def remove_edge(self, e):
        k = strict_key(e)
        if k not in self.edges:
            raise Rej()
        del self.edges[k]

    def remove_edges(self, es):
        for e in es:
            self.remove_edge(e)

    def remove_node(self, n, keep):
        if n not in self.nodes:
            raise Rej()
        inc = [k for k in self.edges if n in k[0]] + [k for k in self.edges if n in k[1]]
        if keep:
            for k in inc:
                S, T = k[0] - {n}, k[1] - {n}
                if S and T:
                    w, md = self.edges[k]
                    self.add_edge((sorted(S), sorted(T)), w, [list(x) for x in md.items()])
        for k in inc:
            del self.edges[k]
        del self.nodes[n]

    def remove_nodes(self, ns, keep):
        for n in ns:
            self.remove_node(n, keep)

    def set_weight(self, e, w):
        if not self.weighted and w != 4:
            raise Rej()
        k = strict_key(e)
        if k not in self.edges:
            raise Rej()
        self.edges[k][0] = w

    def node_md(self, n):
        if n not in self.nodes:
            raise Rej()
        return self.nodes[n]

    def edge_rec(self, e):
        k = strict_key(e)
        if k not in self.edges:
            raise Rej()
        return self.edges[k]

    def apply(self, c):
        op = c[0]
        if op == "addnode":
            self.add_node(c[2], c[3])
        elif op == "addnodes":
            self.add_nodes(c[2])
        elif op == "addedge":
            self.add_edge(c[2], c[3], c[4])
        elif op == "addedges":
            self.add_edges(c[2], c[3], c[4])
        elif op == "rmedge":
            self.remove_edge(c[2])
        elif op == "rmedges":
            self.remove_edges(c[2])
        elif op == "rmnode":
            self.remove_node(c[2], c[3])
        elif op == "rmnodes":
            self.remove_nodes(c[2], c[3])
        elif op == "setw":
            self.set_weight(c[2], c[3])
        elif op == "setnm":
            self.node_md(c[2])
            self.nodes[c[2]] = dict(c[3])
        elif op == "setem":
            self.edge_rec(c[2])[1] = dict(c[3])
        elif op == "sethm":
            self.hmeta = dict(c[2])
        elif op == "attrh":
            if NOND in self.hmeta:
                raise Rej()
            self.hmeta[c[2]] = c[3]
        elif op in ("attrn", "attre", "deln", "dele"):
            md = self.node_md(c[2]) if op[-1] == "n" else self.edge_rec(c[2])[1]
            if NOND in md:                  # item assignment / deletion on 0, '', [], None, [1, 2], ...: TypeError
                raise Rej()
            if op.startswith("attr"):
                md[c[3]] = c[4]
            else:
                if c[3] not in md:
                    raise Rej()
                del md[c[3]]
        elif op == "clear":
            self.nodes = {}
            self.edges = {}
        else:
            raise AssertionError(op)

    # -- queries, all from the two dicts
    @staticmethod
    def rkey(k):
        return j(",", "_", [str(x) for x in sorted(k[0])]) + ">" + j(",", "_", [str(x) for x in sorted(k[1])])

    def digest(self, U, filters):
        d = {}
        E = list(self.edges)
        sz = {k: len(k[0]) + len(k[1]) for k in E}
        rk = self.rkey
        d["nodes"] = j(",", "-", [str(n) for n in sorted(self.nodes)])
        d["nodesmeta"] = j("|", "-", sorted(f"{n}={r_meta_tok(m)}" for n, m in self.nodes.items()))
        d["numnodes"] = str(len(self.nodes))
        d["numedges"] = str(len(E))
        d["sources"] = j(";", "-", sorted(j(",", "_", [str(x) for x in sorted(k[0])]) for k in E))
        d["targets"] = j(";", "-", sorted(j(",", "_", [str(x) for x in sorted(k[1])]) for k in E))
        d["sizes"] = j(",", "-", [str(x) for x in sorted(sz.values())])
        d["orders"] = j(",", "-", sorted(str(x - 1) for x in sz.values()))
        hist = {}
        for x in sz.values():
            hist[x] = hist.get(x, 0) + 1
        d["distsizes"] = r_pairs(hist.items())
        d["maxsize"] = str(max(sz.values())) if E else "rej"
        d["maxorder"] = str(max(sz.values()) - 1) if E else "rej"
        d["uniform"] = "1" if len(set(sz.values())) <= 1 else "0"
        d["weighted"] = "1" if self.weighted else "0"
        d["allnm"] = j("|", "-", sorted(r_meta_tok(m) for m in self.nodes.values()))
        d["allem"] = j("|", "-", sorted(r_meta_tok(m) for _, m in self.edges.values()))
        d["hmeta"] = r_meta_tok(self.hmeta)
        for f in filters:
            t = show_filt(f)
            if f == "b":
                for lbl in ("edges", "emeta", "wdict"):
                    d[f"{lbl}.b.0"] = d[f"{lbl}.b.1"] = "rej"
                for lbl in ("wlist.b.0", "wlist.b.1", "degseq.b", "degdist.b", "isolated.b"):
                    d[lbl] = "rej"
                # dict comprehension over the nodes: raises only if there is a node
                d["indegseq.b"] = d["outdegseq.b"] = "rej" if self.nodes else "-"
                continue
            m = filt_size(f)
            for up in (0, 1):
                sel = [k for k in E if m is None or (sz[k] <= m if up else sz[k] == m)]
                d[f"edges.{t}.{up}"] = j(";", "-", sorted(rk(k) for k in sel))
                d[f"emeta.{t}.{up}"] = j(";", "-", sorted(rk(k) + "=" + r_meta_tok(self.edges[k][1]) for k in sel))
                d[f"wdict.{t}.{up}"] = j(";", "-", sorted(rk(k) + "=" + str(self.edges[k][0]) for k in sel))
                d[f"wlist.{t}.{up}"] = j(",", "-", sorted(str(self.edges[k][0]) for k in sel))
            sel = [k for k in E if m is None or sz[k] == m]
            indeg = {n: sum(1 for k in sel if n in k[0]) for n in self.nodes}
            outdeg = {n: sum(1 for k in sel if n in k[1]) for n in self.nodes}
            deg = {n: indeg[n] + outdeg[n] for n in self.nodes}
            d[f"degseq.{t}"] = r_pairs(deg.items())
            hist = {}
            for x in deg.values():
                hist[x] = hist.get(x, 0) + 1
            d[f"degdist.{t}"] = r_pairs(hist.items())
            d[f"indegseq.{t}"] = r_pairs(indeg.items())
            d[f"outdegseq.{t}"] = r_pairs(outdeg.items())
            d[f"isolated.{t}"] = j(",", "-", [str(n) for n in sorted(self.nodes) if deg[n] == 0])
        for n in range(U + 1):
            present = n in self.nodes
            d[f"has.{n}"] = "1" if present else "0"
            d[f"nm.{n}"] = r_meta_tok(self.nodes[n]) if present else "rej"
            for f in filters:
                t = f"{n}.{show_filt(f)}"
                names = ("src", "tgt", "inc", "nb", "deg", "indeg", "outdeg", "isiso")
                if f == "b" or not present:
                    for nm_ in names:
                        d[f"{nm_}.{t}"] = "rej"
                    continue
                m = filt_size(f)
                sel = [k for k in E if m is None or sz[k] == m]
                src = [k for k in sel if n in k[0]]
                tgt = [k for k in sel if n in k[1]]
                nb = set()
                for k in src + tgt:
                    nb |= k[0] | k[1]
                nb.discard(n)
                d["src." + t] = j(";", "-", sorted(rk(k) for k in src))
                d["tgt." + t] = j(";", "-", sorted(rk(k) for k in tgt))
                d["inc." + t] = j(";", "-", sorted(rk(k) for k in src + tgt))
                d["nb." + t] = j(",", "-", [str(x) for x in sorted(nb)])
                d["deg." + t] = str(len(src) + len(tgt))
                d["indeg." + t] = str(len(src))
                d["outdeg." + t] = str(len(tgt))
                d["isiso." + t] = "1" if not nb else "0"
        return d

    def qe(self, e):
        try:
            k = strict_key(e)
        except Rej:
            return "rej|rej|rej"
        if k in self.edges:
            return f"1|{self.edges[k][0]}|{r_meta_tok(self.edges[k][1])}"
        return "0|rej|rej"


# ------------------------------------------------------------------------------------------------------------
# wire encoding of abstract commands (rank level)

def e_meta(md):
    if md is None:
        return "N"
    return j(",", "-", [f"{a}:{v}" for a, v in md])


def e_side(s):
    if isinstance(s, int):
        return f"s{s}"
    return j(",", "_", [str(x) for x in s])


def e_edge(e):
    return e_side(e[0]) + ">" + e_side(e[1])


def e_edges(es):
    return "N" if es is None else j(";", "-", [e_edge(e) for e in es])


def e_ints(ws):
    return "N" if ws is None else j(",", "-", [str(w) for w in ws])


def e_metas(mds):
    if mds is None:
        return "N"
    return j("|", "-", [j(",", "_", [f"{a}:{v}" for a, v in md]) for md in mds])


def e_nodemetas(nm):
    if nm is None:
        return "N"
    return j("|", "-", [f"{n}=" + j(",", "_", [f"{a}:{v}" for a, v in md]) for n, md in nm])


def e_nodes(ns):
    return j(",", "-", [str(n) for n in ns])


def encode_model(c):
    """the line the Lean driver reads: as `encode`, but Python's None (and, for the constructor's hypergraph_metadata, any
    falsy value) in a metadata ARGUMENT position is written as what the call does with it - {}"""
    op = c[0]
    if op == "new":
        _, sl, w, hm, nm, es, ws, mds = c
        c = [op, sl, w, None if is_nondict(hm) else hm, None if nm is None else [[n, arg_md(md)] for n, md in nm], es, ws,
             None if mds is None else [arg_md(md) for md in mds]]
    elif op == "addnode":
        c = c[:3] + [arg_md(c[3])]
    elif op == "addedge":
        c = c[:4] + [arg_md(c[4])]
    elif op == "addedges":
        c = c[:4] + [None if c[4] is None else [arg_md(md) for md in c[4]]]
    return encode(c)


def encode(c):
    op = c[0]
    if op == "new":
        _, sl, w, hm, nm, es, ws, mds = c
        return f"new {sl} {int(w)} {e_meta(hm)} {e_nodemetas(nm)} {e_edges(es)} {e_ints(ws)} {e_metas(mds)}"
    if op == "copy":
        return f"copy {c[1]} {c[2]}"
    sl = c[1]
    if op == "addnode":
        return f"addnode {sl} {c[2]} {e_meta(c[3])}"
    if op == "addnodes":
        return f"addnodes {sl} {e_nodes(c[2])}"
    if op == "addedge":
        return f"addedge {sl} {e_edge(c[2])} {'N' if c[3] is None else c[3]} {e_meta(c[4])}"
    if op == "addedges":
        return f"addedges {sl} {e_edges(c[2])} {e_ints(c[3])} {e_metas(c[4])}"
    if op == "rmedge":
        return f"rmedge {sl} {e_edge(c[2])}"
    if op == "rmedges":
        return f"rmedges {sl} {e_edges(c[2])}"
    if op == "rmnode":
        return f"rmnode {sl} {c[2]} {int(c[3])}"
    if op == "rmnodes":
        return f"rmnodes {sl} {e_nodes(c[2])} {int(c[3])}"
    if op == "setw":
        return f"setw {sl} {e_edge(c[2])} {c[3]}"
    if op == "setnm":
        return f"setnm {sl} {c[2]} {e_meta(c[3])}"
    if op == "setem":
        return f"setem {sl} {e_edge(c[2])} {e_meta(c[3])}"
    if op == "sethm":
        return f"sethm {sl} {e_meta(c[2])}"
    if op == "attrh":
        return f"attrh {sl} {c[2]} {c[3]}"
    if op == "attrn":
        return f"attrn {sl} {c[2]} {c[3]} {c[4]}"
    if op == "attre":
        return f"attre {sl} {e_edge(c[2])} {c[3]} {c[4]}"
    if op == "deln":
        return f"deln {sl} {c[2]} {c[3]}"
    if op == "dele":
        return f"dele {sl} {e_edge(c[2])} {c[3]}"
    if op == "clear":
        return f"clear {sl}"
    raise AssertionError(op)


# ------------------------------------------------------------------------------------------------------------
# running a command on the real objects

def py_w(w):
    """quanta -> python number: k/4 as a float (exact); whole numbers are passed as int half of the time
    (1 vs 1.0, 0 vs 0.0, 2 vs 2.0), chosen by a fixed rule so that replays are deterministic"""
    if w is None:
        return None
    if w % 4 == 0 and (w // 4 + py_w.flip) % 2 == 0:
        py_w.flip += 1
        return w // 4
    py_w.flip += 1
    return w / 4


py_w.flip = 0


# ---- argument containers, and what the caller does with its own objects after a call -------------------------

JUNK = "__written_by_the_CALLER_into_its_own_object_after_the_call__"

SIDE_STYLES = ("tuple", "list", "set", "frozenset", "gen", "keys", "dict", "range", "array", "frozenset", "list", "tuple")
NODES_STYLES = ("list", "tuple", "gen", "set", "frozenset", "keys", "range", "array", "list")
SEQ_STYLES = ("list", "tuple")
EDGES_STYLES = ("list", "tuple", "gen", "list")


STYLE_COUNT = {}
RAW_COUNT = [0]
DEFERRED_RAW = []
INC_COUNT = {"set_incidence_metadata_ok": 0, "set_incidence_metadata_rej": 0, "get_incidence_metadata": 0}
Y_COUNT = {"raw_echo_calls": 0, "populate_of_expose": 0, "get_mapping": 0, "mapping_transform": 0, "constructor_probes_rejected": 0,
           "constructor_probes_accepted": 0}
SUB_COUNT = {"extraction_in_model": 0, "get_edges_rejected": 0, "get_edges_options": 0}
ALIAS_COUNT = {"caller_changes_to_handed_in_objects": 0, "caller_changes_to_returned_objects": 0, "metadata_dictionaries_probed": 0}


class Builder:
    """builds the arguments of ONE call. Every collection the unchanged code accepts as a node set / node list / hyperedge
    list is used: tuple, list, set, frozenset, generator, dict keys view, dict, range, numpy array (the container type of
    argument number j of the call with wire text `text` is crc32(salt|text|j): replays and shrunk histories repeat it;
    salt None = tuples and lists only). Remembers the mutable objects it handed over so that the caller can change them
    after the call."""

    def __init__(self, lab, salt, text, sl=None):
        self.lab, self.salt, self.text, self.sl, self.j = lab, salt, text, sl, 0
        self.outer = []       # mutable collections handed over (lists, sets, dicts used as collections)
        self.mds = []         # (entry, dict): metadata dictionaries handed over, with the entry they describe

    def pick(self, options):
        self.j += 1
        if self.salt is None:
            return options[0]
        return options[zlib.crc32(f"{self.salt}|{self.text}|{self.j}".encode()) % len(options)]

    def _container(self, style, labs):
        kind = self.lab.kind
        if style == "range":
            v = sorted(labs) if kind in INT_KINDS and labs else []
            step = (v[1] - v[0]) if len(v) > 1 else 1
            if v and step > 0 and all(y - x == step for x, y in zip(v, v[1:])):
                STYLE_COUNT["range"] = STYLE_COUNT.get("range", 0) + 1
                return range(v[0], v[-1] + 1, step)
            style = "tuple"
        if style == "array":
            if kind != "tup" and labs:
                import numpy as np
                STYLE_COUNT["array"] = STYLE_COUNT.get("array", 0) + 1
                return np.array(labs)
            style = "list"
        STYLE_COUNT[style] = STYLE_COUNT.get(style, 0) + 1
        if style == "tuple":
            return tuple(labs)
        if style == "frozenset":
            return frozenset(labs)
        if style == "gen":
            return (x for x in labs)
        if style == "set":
            o = set(labs)
        elif style in ("keys", "dict"):
            o = {x: None for x in labs}
        else:
            o = list(labs)
        self.outer.append(o)
        return o.keys() if style == "keys" else o

    def side(self, s):
        if isinstance(s, int):
            self.j += 1
            return self.lab.lab(s)                      # a bare node
        return self._container(self.pick(SIDE_STYLES), [self.lab.lab(r) for r in s])

    def edge(self, e):
        S, T = self.side(e[0]), self.side(e[1])
        if self.pick(("tuple", "list")) == "list":
            o = [S, T]
            self.outer.append(o)
            return o
        return (S, T)

    def ekey(self, e):
        """the entry a hyperedge argument names: (slot, 'e', canonical key in labels)"""
        S = [e[0]] if isinstance(e[0], int) else e[0]
        T = [e[1]] if isinstance(e[1], int) else e[1]
        return (self.sl, "e", (tuple(self.lab.labels[r] for r in sorted(S)), tuple(self.lab.labels[r] for r in sorted(T))))

    def nkey(self, n):
        return (self.sl, "n", self.lab.labels[n]) if 0 <= n < len(self.lab.labels) else None

    def nodes(self, ranks):
        """-> (collection, the ranks in the order in which the collection yields them)"""
        style = self.pick(NODES_STYLES)
        if style in ("set", "frozenset", "keys") and self.lab.kind not in STABLE_HASH_KINDS:
            style = "list"
        if any(not 0 <= r < len(self.lab.labels) for r in ranks):
            style = "list"
        o = self._container(style, [self.lab.lab(r) for r in ranks])
        if style == "gen":
            return o, list(ranks)
        return o, [self.lab.rank[x] for x in o]

    def _seq(self, style, items):
        if style == "tuple":
            return tuple(items)
        if style == "gen":
            return (x for x in items)
        o = list(items)
        self.outer.append(o)
        return o

    def edges(self, es, allow_gen):
        style = self.pick(EDGES_STYLES if allow_gen else SEQ_STYLES)
        return self._seq(style, [self.edge(e) for e in es])

    def seq(self, items):
        return self._seq(self.pick(SEQ_STYLES), items)

    def meta(self, md, entry):
        d = py_meta(md)
        if d is not None:
            self.mds.append((entry, d))
        return d


def wipe(o):
    """what a caller may do with a collection that is its own: empty it and put something else in"""
    try:
        if isinstance(o, dict):
            o.clear()
            o[JUNK] = {JUNK: 1}
        elif isinstance(o, list):
            o.clear()
            o.append(JUNK)
        elif isinstance(o, set):
            o.clear()
            o.add(JUNK)
    except Exception:
        pass


def sightings(objs):
    """{junk key: [entries whose metadata shows it]} over all live objects; entry = (slot, 'n', node) | (slot, 'e', key) | (slot, 'h')"""
    out = {}

    def look(md, entry):
        if isinstance(md, dict):
            found = set()
            for k, v in list(md.items()):
                for x in [k] + (list(v) if isinstance(v, (list, dict)) else []):
                    if isinstance(x, str) and x.startswith(JUNK):
                        found.add(x)
            for x in found:
                out.setdefault(x, []).append(entry)

    for sl, h in objs.items():
        ok, r = call(h.get_nodes, metadata=True)
        if ok and isinstance(r, dict):
            for x, md in list(r.items()):
                look(md, (sl, "n", x))
        ok, r = call(h.get_edges, metadata=True)
        if ok and isinstance(r, dict):
            for e, md in list(r.items()):
                look(md, (sl, "e", e))
        ok, r = call(h.get_hypergraph_metadata)
        if ok:
            look(r, (sl, "h"))
    return out


def probe(objs, probes, what):
    """probes: (entry or None, metadata dict that the caller holds - it handed it in or got it from a getter).
    The library stores and returns the metadata dictionary of ONE node / hyperedge / hypergraph by reference (as the
    unchanged code does); whether a change the caller makes to such a dictionary is seen by the object is left open
    here - but it may be seen in the metadata of THAT entry only, never in another entry, another object or twice.
    The change is undone before returning."""
    keys = []
    for idx, (entry, d) in enumerate(probes):
        if isinstance(d, dict):
            k = f"{JUNK}{idx}"
            try:
                for v in list(d.values()):            # values that are themselves lists / dicts: one level deeper
                    if isinstance(v, list):
                        v.append(k)
                    elif isinstance(v, dict):
                        v[k] = idx
                d[k] = idx
                keys.append((k, entry, d))
            except Exception:
                pass
    bad = []
    ALIAS_COUNT["metadata_dictionaries_probed"] += len(keys)
    if keys:
        seen = sightings(objs)
        for k, entry, d in keys:
            where = seen.get(k, [])
            try:
                wrong = len(where) > 1 or (where and entry is not None and not where[0] == entry)
            except Exception:
                wrong = True
            if wrong:
                bad.append(f"{what}: a key the caller then put into the metadata dictionary of {entry if entry is not None else 'one entry'} "
                           f"shows up in the metadata of {where}")
                break
        for k, entry, d in keys:
            d.pop(k, None)
            for v in list(d.values()):
                if isinstance(v, list):
                    while k in v:
                        v.remove(k)
                elif isinstance(v, dict):
                    v.pop(k, None)
    return bad


ENTRY_LABELS = ("hmeta", "qe")


def scribble_out(objs, sl, lab, rets):
    """the caller changes what the queries RETURNED: one key into every returned metadata dictionary (see `probe`), then
    every returned list / dict / set emptied and refilled with junk. Returns failure texts of the probe; the caller of
    this function asks all queries again afterwards."""
    probes = []
    for item in rets:
        lbl, r = item[0], item[1]
        if lbl == "hmeta":
            probes.append(((sl, "h"), r))
        elif lbl == "qe":
            probes.append((item[2], r))
        elif lbl.startswith("nm."):
            probes.append(((sl, "n", lab.labels[int(lbl[3:])]), r))
        elif lbl == "nodesmeta" and isinstance(r, dict):
            probes += [((sl, "n", x), m) for x, m in r.items()]
        elif lbl.startswith("emeta.") and isinstance(r, dict):
            probes += [((sl, "e", e), m) for e, m in r.items()]
        elif lbl in ("allnm", "allem"):
            probes += [(None, m) for m in (r.values() if isinstance(r, dict) else r if isinstance(r, list) else [])]
    bad = probe(objs, probes, "a metadata dictionary returned by a query")
    for item in rets:
        if not (item[0] in ENTRY_LABELS or item[0].startswith("nm.")):
            wipe(item[1])
            ALIAS_COUNT["caller_changes_to_returned_objects"] += isinstance(item[1], (list, dict, set))
    return bad


def scribble_in(objs, b):
    """the caller changes the objects it handed to a call, after the call returned (or raised)"""
    bad = probe(objs, b.mds, f"a metadata dictionary handed to `{b.text}`")
    for o in b.outer:
        wipe(o)
    ALIAS_COUNT["caller_changes_to_handed_in_objects"] += len(b.outer)
    return bad


def apply_impl(objs, lab, c, salt=None, notes=None):
    """returns ('ok' | 'rej', the command as the object saw it). The second component differs from `c` only for node
    lists handed over as an unordered collection: they are listed in the order in which that collection yields them.
    `notes` (a list) receives failure texts of the caller-side changes made after the call."""
    from hypergraphx import DirectedHypergraph
    op = c[0]
    text = encode(c)
    b = Builder(lab, salt, text, c[2] if op == "copy" else c[1])
    ceff = c
    out = "ok"
    try:
        with contextlib.redirect_stdout(io.StringIO()):
            if op == "new":
                _, sl, w, hm, nm, es, ws, mds = c
                kw = {"weighted": bool(w)}
                if hm is not None:
                    kw["hypergraph_metadata"] = b.meta(hm, (sl, "h"))
                if nm is not None:
                    d = {lab.lab(n): b.meta(md, b.nkey(n)) for n, md in nm}
                    b.outer.append(d)
                    kw["node_metadata"] = d
                if es is not None:
                    kw["edge_list"] = b.edges(es, allow_gen=ws is None)
                if ws is not None:
                    kw["weights"] = b.seq([py_w(x) for x in ws])
                if mds is not None:
                    kw["edge_metadata"] = b.seq([b.meta(m, b.ekey(es[k]) if es is not None and k < len(es) else None)
                                                 for k, m in enumerate(mds)])
                objs[sl] = DirectedHypergraph(**kw)
            elif c[1] not in objs:
                return "rej", c                   # no object in that slot (its constructor raised)
            elif op == "copy":
                objs[c[2]] = objs[c[1]].copy()
            else:
                h = objs[c[1]]
                if op == "addnode":
                    h.add_node(lab.lab(c[2]), b.meta(c[3], b.nkey(c[2]))) if c[3] is not None else h.add_node(lab.lab(c[2]))
                elif op == "addnodes":
                    o, eff = b.nodes(c[2])
                    ceff = c[:2] + [eff] + c[3:]
                    h.add_nodes(o)
                elif op == "addedge":
                    kw = {}
                    if c[3] is not None:
                        kw["weight"] = py_w(c[3])
                    if c[4] is not None:
                        kw["metadata"] = b.meta(c[4], b.ekey(c[2]))
                    h.add_edge(b.edge(c[2]), **kw)
                elif op == "addedges":
                    kw = {}
                    if c[3] is not None:
                        kw["weights"] = b.seq([py_w(x) for x in c[3]])
                    if c[4] is not None:
                        kw["metadata"] = b.seq([b.meta(m, b.ekey(c[2][k]) if k < len(c[2]) else None) for k, m in enumerate(c[4])])
                    h.add_edges(b.edges(c[2], allow_gen=c[3] is None), **kw)
                elif op == "rmedge":
                    h.remove_edge(b.edge(c[2]))
                elif op == "rmedges":
                    h.remove_edges(b.edges(c[2], allow_gen=True))
                elif op == "rmnode":
                    h.remove_node(lab.lab(c[2]), keep_edges=bool(c[3]))
                elif op == "rmnodes":
                    o, eff = b.nodes(c[2])
                    ceff = c[:2] + [eff] + c[3:]
                    h.remove_nodes(o, keep_edges=bool(c[3]))
                elif op == "setw":
                    h.set_weight(b.edge(c[2]), py_w(c[3]))
                elif op == "setnm":
                    h.set_node_metadata(lab.lab(c[2]), b.meta(c[3], b.nkey(c[2])))
                elif op == "setem":
                    h.set_edge_metadata(b.edge(c[2]), b.meta(c[3], b.ekey(c[2])))
                elif op == "sethm":
                    h.set_hypergraph_metadata(b.meta(c[2], (c[1], "h")))
                elif op == "attrh":
                    h.set_attr_to_hypergraph_metadata(ATTR[c[2]], py_val(c[3]))
                elif op == "attrn":
                    h.set_attr_to_node_metadata(lab.lab(c[2]), ATTR[c[3]], py_val(c[4]))
                elif op == "attre":
                    h.set_attr_to_edge_metadata(b.edge(c[2]), ATTR[c[3]], py_val(c[4]))
                elif op == "deln":
                    h.remove_attr_from_node_metadata(lab.lab(c[2]), ATTR[c[3]])
                elif op == "dele":
                    h.remove_attr_from_edge_metadata(b.edge(c[2]), ATTR[c[3]])
                elif op == "clear":
                    h.clear()
                else:
                    raise AssertionError(op)
    except AssertionError:
        raise
    except Exception:
        out = "rej"
    if salt is not None:
        bad = scribble_in(objs, b)
        if notes is not None:
            notes.extend(bad)
    return out, ceff


def apply_spec(specs, c):
    op = c[0]
    try:
        if op == "new":
            _, sl, w, hm, nm, es, ws, mds = c
            specs[sl] = PySpec(bool(w), hm, nm, es, ws, mds)
        elif op == "copy":
            if c[1] not in specs:
                return "rej"
            specs[c[2]] = specs[c[1]].clone()
        else:
            if c[1] not in specs:
                return "rej"
            specs[c[1]].apply(c)
        return "ok"
    except Rej:
        return "rej"


# ------------------------------------------------------------------------------------------------------------
# direct oracles for the named claims (implementation only, no model, no PySpec)

def named_oracles(h, lab, U):
    """returns a list of failure texts"""
    bad = []
    try:
        with contextlib.redirect_stdout(io.StringIO()):
            E = list(h.get_edges())
            nodes = list(h.get_nodes())
            if len(set(E)) != len(E):
                bad.append(f"get_edges lists a hyperedge twice: {E}")
            if len(h) != len(E) or h.num_edges() != len(E) or [k for k, _ in h] != E:
                bad.append("len / num_edges / iteration disagree with get_edges")
            want = "Hypergraph with {} nodes and {} edges.\nDistribution of hyperedge sizes: {}".format(
                len(nodes), len(E), h.distribution_sizes())
            if str(h) != want:
                bad.append("str(h) does not show the node and hyperedge counts")
            for (S, T) in E:
                if tuple(sorted(S)) != S or tuple(sorted(T)) != T:
                    bad.append(f"stored hyperedge {(S, T)} is not canonical")
                # direction: (T,S) is a different hyperedge
                if set(S) != set(T) and h.check_edge((T, S)) != ((T, S) in E):
                    bad.append(f"direction: check_edge of the reverse of {(S, T)} is {h.check_edge((T, S))}")
                for x in set(S) | set(T):
                    if x not in nodes:
                        bad.append(f"hyperedge {(S, T)} mentions {x!r}, which get_nodes() does not list")
            for x in nodes:
                se = h.get_source_edges(x)
                te = h.get_target_edges(x)
                inc = h.get_incident_edges(x)
                if sorted(se) != sorted(e for e in E if x in e[0]):
                    bad.append(f"get_source_edges({x!r}) = {se}: not exactly once each hyperedge with {x!r} among its sources")
                if sorted(te) != sorted(e for e in E if x in e[1]):
                    bad.append(f"get_target_edges({x!r}) = {te}: not exactly once each hyperedge with {x!r} among its targets")
                if sorted(inc) != sorted(se + te):
                    bad.append(f"get_incident_edges({x!r}) is not source edges + target edges")
            md = h.get_nodes(metadata=True)
            if sorted(md, key=repr) != sorted(nodes, key=repr):
                bad.append("get_nodes(metadata=True) lists other nodes than get_nodes()")
            if len(h.get_all_nodes_metadata()) != len(nodes):
                bad.append(f"get_all_nodes_metadata has {len(h.get_all_nodes_metadata())} entries for {len(nodes)} nodes")
            if len(h.get_all_edges_metadata()) != len(E):
                bad.append(f"get_all_edges_metadata has {len(h.get_all_edges_metadata())} entries for {len(E)} hyperedges")
    except Exception as ex:
        bad.append(f"a query that must succeed raised {type(ex).__name__}: {ex}")
    return bad


def subhypergraph_oracle(h, spec, lab, U, i):
    """`get_edges(..., subhypergraph=True)` hands the selected hyperedges back as a DirectedHypergraph: it holds exactly the
    hyperedges of that size / order with their weights and metadata, and the nodes (all of them with
    keep_isolated_nodes=True, else the endpoints) with THEIR metadata - an object made by the library's own add_nodes /
    add_edges / set_*_metadata, asked with every query"""
    bad = []
    for f, keep in ((None, True), (("s", 2 + i % 3), True), (("o", 1 + i % 2), False)):
        ok, sub = call(h.get_edges, subhypergraph=True, keep_isolated_nodes=keep, **filt_kwargs(f))
        what = f"get_edges({filt_kwargs(f)}, subhypergraph=True, keep_isolated_nodes={keep})"
        if not ok:
            bad.append(f"{what} raised")
            continue
        c = spec.clone()
        m = filt_size(f)
        c.edges = {k: v for k, v in c.edges.items() if m is None or len(k[0]) + len(k[1]) == m}
        if not keep:
            c.nodes = {n: md for n, md in c.nodes.items() if any(n in k[0] or n in k[1] for k in c.edges)}
        want = c.digest(U, [None])
        try:
            got = digest_impl(sub, lab, U, [None])
        except Exception as ex:
            bad.append(f"{what}: the returned object cannot be queried ({type(ex).__name__})")
            continue
        for lbl, v in want.items():
            if lbl != "hmeta" and got.get(lbl) != v:
                bad.append(f"{what}: query {lbl} on the returned hypergraph answers {got.get(lbl)!r}, the selected part of the abstract object {v!r}")
                break
    return bad


def removed_node_oracle(h, x):
    """after an accepted remove_node(x)"""
    bad = []
    try:
        with contextlib.redirect_stdout(io.StringIO()):
            if x in h.get_nodes() or x in h.get_nodes(metadata=True):
                bad.append(f"removed node {x!r} still listed by get_nodes")
            if h.check_node(x) is not False:
                bad.append(f"check_node({x!r}) = {h.check_node(x)!r} after remove_node")
            for (S, T) in h.get_edges():
                if x in S or x in T:
                    bad.append(f"removed node {x!r} still in hyperedge {(S, T)}")
            for srcs in (h.get_sources(), h.get_targets()):
                if any(x in s for s in srcs):
                    bad.append(f"removed node {x!r} still in get_sources/get_targets")
            for y in h.get_nodes():
                if x in h.get_neighbors(y):
                    bad.append(f"removed node {x!r} still a neighbour of {y!r}")
            for fn in (h.get_source_edges, h.get_target_edges, h.get_incident_edges, h.get_node_metadata, h.get_neighbors):
                ok, r = call(fn, x)
                if ok:
                    bad.append(f"{fn.__name__}({x!r}) answers {r!r} for a removed node")
            if x in h.degree_sequence():
                bad.append(f"removed node {x!r} in degree_sequence")
    except Exception as ex:
        bad.append(f"a query that must succeed raised {type(ex).__name__}: {ex}")
    return bad


# ------------------------------------------------------------------------------------------------------------
# generator

ALL_FILTERS = [None] + [("s", k) for k in range(0, 7)] + [("o", k) for k in range(0, 6)] + ["b"]


def gen_meta(rng, allow_none=True, dict_only=False):
    """None = argument not given | {} | a dict whose values are of every JSON kind incl. the falsy ones | a value that is
    not a dict at all (0, '', [], None, False, 0.0 twice as often as True, 'x', 7, [1, 2], 2.5)"""
    r = rng.random()
    if allow_none and r < 0.3:
        return None
    if r < 0.42:
        return []
    if not dict_only and r < 0.68:
        return [[NOND, rng.choice(FALSY_NONDICT + FALSY_NONDICT + TRUTHY_NONDICT)]]
    attrs = rng.sample(ATTR_NAMES, rng.randint(1, 2))
    return [[a, rng.choice(DICT_VALUES)] for a in attrs]


def gen_edge(rng, U, maxsize=5):
    size = min(U, rng.choice([2, 2, 2, 3, 3, 3, 4, 4, maxsize]))
    ns = rng.sample(range(U), size)
    k = rng.randint(1, size - 1)
    return [ns[:k], ns[k:]]


def relist(rng, e, scalars):
    """the same hyperedge written differently: shuffled sides, a singleton side as a bare node"""
    out = []
    for side in e:
        side = [side] if isinstance(side, int) else list(side)
        rng.shuffle(side)
        if scalars and len(side) == 1 and rng.random() < 0.3:
            out.append(side[0])
        else:
            out.append(side)
    return out


def gen_history(rng):
    U = rng.randint(3, 6)
    kind = rng.choice(["int", "int", "shift", "str", "str", "big", "rstr", "tup"])
    scalars = kind in INT_KINDS and rng.random() < 0.5
    weighted = rng.random() < 0.5
    n_ops = rng.choice([1, 2, 3, 5, 8, 12, 16, 20, 25, 30, 40])
    pool = [gen_edge(rng, U) for _ in range(rng.randint(2, 5))]
    if rng.random() < 0.5:          # a hyperedge and its reverse, and a partial overlap
        e = rng.choice(pool)
        pool.append([list(e[1]), list(e[0])])
    if rng.random() < 0.4:          # two hyperedges that merge when a node is removed
        e = rng.choice(pool)
        others = [x for x in range(U) if x not in e[0] and x not in e[1]]
        if others:
            pool.append([list(e[0]) + [others[0]], list(e[1])])
            pool.append([list(e[0]), list(e[1]) + [others[0]]])

    def W(for_weighted):
        if for_weighted:
            return rng.choice([None, 2, 4, 4, 6, 8, 3, 0])
        return rng.choice([None, None, 4, 4])

    def an_edge(add=False):
        e = rng.choice(pool) if rng.random() < 0.85 else gen_edge(rng, U)
        return relist(rng, e, scalars and (add or rng.random() < 0.08))     # a bare node outside add_edge: rejected

    cmds = []
    # constructor
    w_now = {0: weighted}
    if rng.random() < 0.5:
        cmds.append(["new", 0, weighted, None, None, None, None, None])
    else:
        es = [an_edge(True) for _ in range(rng.randint(0, 4))] if rng.random() < 0.8 else None
        ws = None
        if es is not None and rng.random() < (0.7 if weighted else 0.15):
            ws = [rng.choice([0, 2, 4, 6, 8]) for _ in es]
            if rng.random() < 0.1:
                ws = ws[:-1] if ws else [4]
        mds = None
        if es is not None and rng.random() < 0.4:
            mds = [gen_meta(rng, False) for _ in es]
            if mds and rng.random() < 0.1:
                mds = mds[:-1]
        nm = [[n, gen_meta(rng, False)] for n in rng.sample(range(U), rng.randint(0, 3))] if rng.random() < 0.5 else None
        hm = gen_meta(rng, False, dict_only=True) if rng.random() < 0.4 else None
        if hm is not None and rng.random() < 0.2:
            hm = [[NOND, rng.choice(FALSY_NONDICT)]]          # `hypergraph_metadata or {}`
        cmds.append(["new", 0, weighted, hm, nm, es, ws, mds])
        # a rejected constructor leaves no object: make sure there is one
        cmds.append(["new", 0, weighted, None, None, None, None, None]) if rng.random() < 0.0 else None
        cmds = [c for c in cmds if c]
    if rng.random() < 0.35:          # nodes (and a hyperedge) annotated before the hyperedges that touch them arrive
        for n in rng.sample(range(U), rng.randint(1, 3)):
            md = gen_meta(rng, False)
            cmds.append(["addnode", 0, n, md] if rng.random() < 0.5 else ["setnm", 0, n, md])
        if rng.random() < 0.5:
            e = rng.choice(pool)
            cmds.append(["addedge", 0, relist(rng, e, False), None, None])
            cmds.append(["setem", 0, relist(rng, e, False), gen_meta(rng, False)])
    slots = [0]
    have_copy = False
    for _ in range(n_ops):
        sl = rng.choice(slots)
        r = rng.random()
        mal = rng.random() < 0.12
        wtd = w_now.get(sl, weighted)
        if r < 0.30:
            w = W(wtd)
            if mal and not wtd:
                w = 8
            cmds.append(["addedge", sl, an_edge(True), w, gen_meta(rng)])
        elif r < 0.36:
            es = [an_edge(True) for _ in range(rng.randint(0, 3))]
            ws = None
            if rng.random() < (0.6 if wtd else 0.2):
                ws = [rng.choice([0, 2, 4, 6, 8]) for _ in es]
                if mal:
                    ws = ws + [4]
                w_now[sl] = True
            mds = [gen_meta(rng, False) for _ in es] if rng.random() < 0.4 else None
            if mds and mal and rng.random() < 0.5:
                mds = mds[:-1]
            cmds.append(["addedges", sl, es, ws, mds])
        elif r < 0.48:
            e = an_edge(False)
            if mal and scalars and not isinstance(e[0], int) and len(e[0]) == 1:
                e = [e[0][0], e[1]]
            cmds.append(["rmedge", sl, e])
        elif r < 0.51:
            cmds.append(["rmedges", sl, [an_edge(False) for _ in range(rng.randint(0, 3))]])
        elif r < 0.61:
            cmds.append(["rmnode", sl, rng.randrange(U if not mal else U + 1), rng.random() < 0.5])
        elif r < 0.64:
            ns = rng.sample(range(U), rng.randint(0, 3))
            if ns and (mal or rng.random() < 0.15):           # a node listed twice / an absent node: raises at that element
                ns.insert(rng.randint(1, len(ns)), rng.choice(ns + [U]))
            cmds.append(["rmnodes", sl, ns, rng.random() < 0.5])
        elif r < 0.70:
            cmds.append(["addnode", sl, rng.randrange(U), gen_meta(rng)])
        elif r < 0.72:
            cmds.append(["addnodes", sl, [rng.randrange(U) for _ in range(rng.randint(0, 3))]])
        elif r < 0.77:
            w = rng.choice([0, 2, 4, 6, 8]) if wtd or mal or rng.random() < 0.3 else 4
            cmds.append(["setw", sl, an_edge(False), w])
        elif r < 0.80:
            cmds.append(["setnm", sl, rng.randrange(U), gen_meta(rng, False)])
        elif r < 0.83:
            cmds.append(["setem", sl, an_edge(False), gen_meta(rng, False)])
        elif r < 0.845:
            cmds.append(["sethm", sl, gen_meta(rng, False)])
        elif r < 0.86:
            cmds.append(["attrh", sl, rng.choice(ATTR_NAMES), rng.choice(DICT_VALUES)])
        elif r < 0.89:
            cmds.append(["attrn", sl, rng.randrange(U), rng.choice(ATTR_NAMES), rng.choice(DICT_VALUES)])
        elif r < 0.92:
            cmds.append(["attre", sl, an_edge(False), rng.choice(ATTR_NAMES), rng.choice(DICT_VALUES)])
        elif r < 0.94:
            cmds.append(["deln", sl, rng.randrange(U), rng.choice(ATTR_NAMES)])
        elif r < 0.96:
            cmds.append(["dele", sl, an_edge(False), rng.choice(ATTR_NAMES)])
        elif r < 0.975:
            cmds.append(["clear", sl])
        else:
            if not have_copy:
                cmds.append(["copy", 0, 1])
                slots = [0, 1]
                w_now[1] = w_now.get(0, weighted)
                have_copy = True
            else:
                a = rng.choice([0, 1])
                cmds.append(["copy", a, 1 - a])
                w_now[1 - a] = w_now.get(a, weighted)
    return {"U": U, "kind": kind, "cmds": cmds, "pool": pool, "salt": rng.randrange(1 << 30)}


# ------------------------------------------------------------------------------------------------------------
# executing one history against the three parties

# calls that must leave the metadata of every node that is still there as it was (type and value): the implicit add_node of
# add_edge / add_edges / remove_node(keep_edges=True) and add_nodes on a present node never overwrite
KEEPS_NODE_METADATA = ("addedge", "addedges", "addnodes", "rmnode", "rmnodes", "rmedge", "rmedges", "setw", "setem", "attre", "dele")


def pick_filters(rng, final):
    """no filter + three filters drawn uniformly from ALL of size 0..6 / order 0..5 / both (boundary values such as
    order=0, size=0, size=1 and values above the maximum size are as likely as the others); everything at the end"""
    if final:
        return list(ALL_FILTERS)
    fs = [None]
    for f in rng.sample(ALL_FILTERS[1:], 3):
        fs.append(f)
    return fs


def fkey(f):
    return show_filt(f)


def run_history(ctx, drv, hist, rng, every=True):
    """returns (problems, stats); problems = list of (kind, what, upto) with kind in violation|disagree"""
    U, cmds = hist["U"], hist["cmds"]
    lab = Labeling(hist["kind"], U)
    salt = hist.get("salt")
    py_w.flip = 0
    objs, specs = {}, {}
    problems = []
    stats = {"accepted_removal": False, "reinsertion": False, "rejected": 0, "ops": 0, "merge": False}
    seen_keys = set()
    inc_tabs = {}                      # slot -> {((frozenset S, frozenset T), node rank): metadata tokens}
    model_lines, model_expect = ["reset"], [("out", -1, "ok")]   # (line, kind, payload)

    def ck(e):
        S = [e[0]] if isinstance(e[0], int) else e[0]
        T = [e[1]] if isinstance(e[1], int) else e[1]
        return (frozenset(S), frozenset(T))

    for i, c in enumerate(cmds):
        final = i == len(cmds) - 1
        stats["ops"] += 1
        before_md = None
        targets = [c[1]] if c[0] not in ("copy",) else [c[2]]
        h_before = objs.get(c[1]) if c[0] in KEEPS_NODE_METADATA else None
        if h_before is not None:
            ok, before_md = call(lambda: {x: json.dumps(m, sort_keys=True) for x, m in h_before.get_nodes(metadata=True).items()})
            if not ok:
                before_md = None
        n_edges_before = len(specs[c[1]].edges) if c[0] in ("rmnode",) and c[1] in specs else None
        notes = []
        a_impl, c = apply_impl(objs, lab, c, salt, notes)
        a_spec = apply_spec(specs, c)
        line = encode(c)
        model_lines.append(encode_model(c))
        model_expect.append(("out", i, a_impl))
        if a_impl != a_spec:
            problems.append(("violation", f"operation {i} `{line}`: implementation {'raised' if a_impl == 'rej' else 'accepted'}, "
                                          f"the abstract object says {a_spec}", i))
        for w in notes:
            problems.append(("violation", f"after operation {i} `{line}`: {w}", i))
        # bookkeeping for the non-triviality rule
        if a_impl == "ok":
            if c[0] in ("rmedge", "rmnode", "rmedges", "rmnodes", "clear"):
                stats["accepted_removal"] = True
            if c[0] == "addedge":
                k = ck(c[2])
                if k in seen_keys:
                    stats["reinsertion"] = True
                seen_keys.add(k)
            if c[0] in ("addedges", "new") and c[0 if c[0] == "addedges" else 0] and (c[2] if c[0] == "addedges" else c[5]):
                for e in (c[2] if c[0] == "addedges" else c[5]):
                    k = ck(e)
                    if k in seen_keys:
                        stats["reinsertion"] = True
                    seen_keys.add(k)
        else:
            stats["rejected"] += 1
        # named claims
        if a_impl == "ok" and c[0] == "rmnode":
            for w in removed_node_oracle(objs[c[1]], lab.lab(c[2])):
                problems.append(("violation", f"after operation {i} `{line}`: {w}", i))
        if before_md is not None and a_impl == "ok" and c[1] in objs:
            ok, after = call(lambda: {x: json.dumps(m, sort_keys=True) for x, m in objs[c[1]].get_nodes(metadata=True).items()})
            if ok:
                for x, m in before_md.items():
                    if after.get(x) != m and (x in after or c[0] in ("addedge", "addedges", "addnodes", "rmedge", "rmedges", "setw")):
                        problems.append(("violation", f"operation {i} `{line}` changed the metadata of node {x!r} "
                                                      f"from {m} to {after.get(x)}", i))
                        break
        # extension round: the incidence-metadata side table (`Full` of the Lean model), a side channel of the history: the calls
        # are drawn from the history's query generator, so replays and shrunk histories repeat them
        if a_impl == "ok":
            if c[0] == "new":
                inc_tabs[c[1]] = {}
            elif c[0] == "copy":
                inc_tabs[c[2]] = dict(inc_tabs.get(c[1], {}))
            elif c[0] == "clear":
                inc_tabs[c[1]] = {}
        # second extension round (own PRNG per step: the older streams are not shifted; stable under shrinking): raw setters handed
        # what the matching getter returns (`RawOp.echo`), `populate_from_dict(expose_data_structures())`, `get_mapping()`
        import random as _rnd
        rngy = _rnd.Random(f"c02y|{U}|{hist['kind']}|{i}|{len(cmds) if final else 0}")
        for sl in sorted(objs):
            if sl not in specs or problems:
                continue
            h = objs[sl]
            V = ImplView(lab)
            if final or rngy.random() < 0.12:
                what = rngy.choice(["el", "as", "at", "pop", "pop"])
                fresh_copy = rngy.random() < 0.4          # an equal copy of the tables instead of the tables themselves
                import copy as _cp

                def _echo():
                    if what == "el":
                        d = h.get_edge_list()
                        h.set_edge_list(dict(d) if fresh_copy else d)
                    elif what in ("as", "at"):
                        side = "source" if what == "as" else "target"
                        d = h.get_adj_dict(side)
                        h.set_adj_dict({k: list(v) for k, v in d.items()} if fresh_copy else d, side)
                    else:
                        d = h.expose_data_structures()
                        h.populate_from_dict(_cp.deepcopy(d) if fresh_copy else d)
                ok, _ = call(_echo)
                model_lines.append(f"rawecho {sl} {what}")
                model_expect.append(("out", i, "ok" if ok else "rej"))
                Y_COUNT["raw_echo_calls"] += 1
                if what == "pop":
                    Y_COUNT["populate_of_expose"] += 1
                    # `expose_data_structures()` does not hand out the incidence table: the populate empties it (model: `forget`)
                    inc_tabs[sl] = {}
                    ok, allm = call(h.get_all_incidences_metadata)
                    try:
                        got_all = j(";", "-", sorted(f"{V.key(kk)}@{V.n(nn)}={r_meta_py(m)}" for (kk, nn), m in allm.items())) if ok else "rej"
                    except Exception:
                        got_all = "?" + repr(allm)[:80]
                    model_lines.append(f"allinc {sl}")
                    model_expect.append(("out", i, got_all))
                else:
                    ok, _ = call(h.set_adj_dict, {}, rngy.choice(["both", "", "sources", None]))
                    if ok:
                        problems.append(("disagree", f"after operation {i} `{line}` (object {sl}): set_adj_dict with a second argument "
                                                     f"other than 'source' / 'target' was accepted (the model: ValueError, nothing changes)", i))
            if lab.kind != "tup" and (final or rngy.random() < 0.12):
                # get_mapping(): classes_ IN ORDER, transform of a label, inverse_transform of the code (tuple labels: numpy cannot
                # hold them as scalars, LabelEncoder.fit raises on the unchanged code - not asked)
                ok, enc = call(h.get_mapping)
                try:
                    got = j(",", "-", [V.n(x) for x in enc.classes_.tolist()]) if ok else "rej"
                except Exception:
                    got = "?" + repr(enc)[:60]
                model_lines.append(f"mapping {sl}")
                model_expect.append(("out", i, got))
                Y_COUNT["get_mapping"] += 1
                if ok:
                    present_labels = set(enc.classes_.tolist())
                    for r in sorted({rngy.randint(0, U), rngy.randint(0, U)}):
                        if lab.kind not in INT_KINDS and lab.lab(r) not in present_labels:
                            # numpy casts the asked string to the fixed width of classes_ ('ab' -> 'a' when every node is one
                            # character long): sklearn answers the code of the truncated label - not asked (see notes)
                            continue
                        ok2, code = call(lambda: int(enc.transform([lab.lab(r)])[0]))
                        got = str(code) if ok2 else "rej"
                        if ok2:
                            ok3, back = call(lambda: enc.inverse_transform([code]).tolist()[0])
                            if not ok3 or back != lab.lab(r):
                                got += " !inv"
                        model_lines.append(f"indexof {sl} {r}")
                        model_expect.append(("out", i, got))
                        Y_COUNT["mapping_transform"] += 1
        if final and not problems and 8 not in objs:
            # constructor probes into a scratch slot: argument classes of `ctorRejArgs` (refused: no object; accepted: all tables compared)
            e1, e2 = gen_edge(rngy, U), gen_edge(rngy, U)
            wflag = rngy.random() < 0.5
            probes = [
                ["new", 8, wflag, None, None, [e1, e2], [4], None],                       # too few weights (own test only when weighted)
                ["new", 8, wflag, None, None, [e1], [4, 8], None],                        # too many weights
                ["new", 8, wflag, None, None, [e1, e2], None, [gen_meta(rngy, False)]],   # edge_metadata too short
                ["new", 8, wflag, None, None, [], [4], None],                             # weights for an empty edge_list
                ["new", 8, wflag, gen_meta(rngy, False, dict_only=True), None, None, [4, 8], [[]]],   # no edge_list: the rest is ignored
                ["new", 8, wflag, None, [[rngy.randint(0, U), gen_meta(rngy, False)]], [e1, e2], None, []],   # empty edge_metadata = none
                ["new", 8, False, None, None, [e1, e1], [2, 4], None],                    # promotion + repeated hyperedge
            ]
            for pc in rngy.sample(probes, 2):
                a_i, pc = apply_impl(objs, lab, pc, None, None)
                a_s = apply_spec(specs, pc)
                if a_i != a_s:
                    problems.append(("violation", f"constructor call `{encode(pc)}`: implementation {'raised' if a_i == 'rej' else 'accepted'}, "
                                                  f"the abstract object says {a_s}", i))
                model_lines.append(encode_model(pc))
                model_expect.append(("out", i, a_i))
                Y_COUNT["constructor_probes_" + ("accepted" if a_i == "ok" else "rejected")] += 1
                if a_i == "ok" and a_s == "ok":
                    model_lines.append(f"raw 8")
                    model_expect.append(("out", i, raw_impl(objs[8], lab)))
                objs.pop(8, None)
                specs.pop(8, None)
        for sl in sorted(objs):
            if sl not in specs or problems:
                continue
            V = ImplView(lab)
            tab = inc_tabs.setdefault(sl, {})
            scal = lab.kind in INT_KINDS
            n_calls = (1 if rng.random() < 0.3 else 0) + (1 if final else 0)
            for _ in range(n_calls):
                present = sorted((sorted(k0), sorted(k1)) for (k0, k1) in specs[sl].edges)
                if present and rng.random() < 0.55:
                    e = relist(rng, list(rng.choice(present)), scal and rng.random() < 0.1)        # a present hyperedge, permuted listing
                elif hist["pool"] and rng.random() < 0.8:
                    e = relist(rng, rng.choice(hist["pool"]), scal and rng.random() < 0.2)
                else:
                    e = gen_edge(rng, U)
                r = rng.randint(0, U)
                md = gen_meta(rng, allow_none=False)
                try:
                    k = strict_key(e)
                    want = "ok" if k in specs[sl].edges else "rej"
                except Rej:
                    k, want = None, "rej"
                ok, _ = call(objs[sl].set_incidence_metadata, lab.edge(e), lab.lab(r), py_meta(md))
                got = "ok" if ok else "rej"
                txt = f"setinc {sl} {e_edge(e)} {r} {e_meta(md)}"
                if got != want:
                    problems.append(("violation", f"after operation {i} `{line}`: set_incidence_metadata `{txt}` "
                                                  f"{'raised' if got == 'rej' else 'was accepted'}, the hyperedge is "
                                                  f"{'present' if want == 'ok' else 'absent'} in the abstract object", i))
                if got == "ok" and k is not None:
                    tab[(k, r)] = md
                model_lines.append(txt)
                model_expect.append(("out", i, got))
                INC_COUNT["set_incidence_metadata_" + got] += 1
            if tab or final:
                # get_all_incidences_metadata: the whole side table (entries of removed hyperedges stay, clear() empties it)
                def r_k(k):
                    return j(",", "_", [str(x) for x in sorted(k[0])]) + ">" + j(",", "_", [str(x) for x in sorted(k[1])])
                want_all = j(";", "-", sorted(f"{r_k(k)}@{r}=" + j(",", "_", sorted(f"{a}:{v}" for a, v in m)) for (k, r), m in tab.items()))
                ok, allm = call(objs[sl].get_all_incidences_metadata)
                try:
                    got_all = j(";", "-", sorted(f"{V.key(kk)}@{V.n(nn)}={r_meta_py(m)}" for (kk, nn), m in allm.items())) if ok else "rej"
                except Exception:
                    got_all = "?" + repr(allm)[:80]
                if got_all != want_all:
                    problems.append(("violation", f"after operation {i} `{line}` (object {sl}): get_all_incidences_metadata answers "
                                                  f"{got_all!r}, the calls made so far give {want_all!r}", i))
                model_lines.append(f"allinc {sl}")
                model_expect.append(("out", i, got_all))
                if ok and isinstance(allm, dict):
                    allm.clear()          # the returned dict is the caller's
                # get_incidence_metadata of one entry under a permuted listing, and of one pair drawn at random
                asks = []
                if tab:
                    (k, r) = rng.choice(sorted(tab, key=repr))
                    asks.append((relist(rng, [sorted(k[0]), sorted(k[1])], False), r))
                asks.append((gen_edge(rng, U), rng.randint(0, U)))
                for (e, r) in asks:
                    k = strict_key(e)
                    m = tab.get((k, r)) if k in specs[sl].edges else None
                    want = "rej" if m is None else j(",", "_", sorted(f"{a}:{v}" for a, v in m))
                    ok, v = call(objs[sl].get_incidence_metadata, lab.edge(e), lab.lab(r))
                    got = r_meta_py(v) if ok else "rej"
                    if got != want:
                        problems.append(("violation", f"after operation {i} `{line}` (object {sl}): get_incidence_metadata({e_edge(e)}, {r}) "
                                                      f"answers {got!r}, the calls made so far give {want!r}", i))
                    model_lines.append(f"getinc {sl} {e_edge(e)} {r}")
                    model_expect.append(("out", i, got))
                    INC_COUNT["get_incidence_metadata"] += 1
        # queries on every live object
        for sl in sorted(objs):
            if sl not in specs:
                continue
            if not every and not final and sl not in targets:
                continue
            filters = pick_filters(rng, final)
            rets = [] if salt is not None else None
            d_impl = digest_impl(objs[sl], lab, U, filters, i, rets)
            d_spec = specs[sl].digest(U, filters)
            for lbl, v in d_spec.items():
                if d_impl.get(lbl) != v:
                    problems.append(("violation", f"after operation {i} `{line}` query {lbl} (object {sl}): implementation answers "
                                                  f"{d_impl.get(lbl)!r}, the abstract object {v!r}", i))
                    break
            for w in named_oracles(objs[sl], lab, U) + (subhypergraph_oracle(objs[sl], specs[sl], lab, U, i) if final and not problems else []):
                problems.append(("violation", f"after operation {i} `{line}` (object {sl}): {w}", i))
            model_lines.append(f"dig {sl} {U} " + ",".join(fkey(f) for f in filters))
            model_expect.append(("dig", i, d_impl))
            # extension round: the tables themselves, entry by entry and in their order
            model_lines.append(f"raw {sl}")
            model_expect.append(("out", i, raw_impl(objs[sl], lab)))
            RAW_COUNT[0] += 1
            # extension round: get_edges with all its options AS A CALL of the model (subhypergraph=True builds a new object)
            if not problems:
                n_sub = 6 if final else 1
                for q in range(n_sub):
                    f = filters[(i + q) % len(filters)] if q else rng.choice(filters)
                    up = bool((i + q) % 2) if q else rng.random() < 0.5
                    sb, kp, wm = SUB_OPTIONS[q % 4] if (q and q < 5) else rng.choice(SUB_OPTIONS)
                    (kind, ans), subobj = sub_impl(objs[sl], lab, U, f, up, sb, kp, wm, i + q)
                    model_lines.append(f"sub {sl} {U} {fkey(f)} {b01(up)} {b01(sb)} {b01(kp)} {b01(wm)}")
                    model_expect.append((kind, i, ans))
                    SUB_COUNT["extraction_in_model" if sb and ans != "rej" else "get_edges_rejected" if ans == "rej" else "get_edges_options"] += 1
                    if subobj is not None:
                        # the new object is independent: its tables are fresh ones (ids from 0) - compared with the model's at the end
                        # of its life only through the digest; changing it must not change the original
                        before = raw_impl(objs[sl], lab)
                        call(subobj.clear)
                        call(subobj.add_edge, ((lab.lab(0),), (lab.lab(1),)))
                        if raw_impl(objs[sl], lab) != before:
                            problems.append(("violation", f"after operation {i} `{line}` (object {sl}): changing the hypergraph returned by "
                                                          f"get_edges(subhypergraph=True) changed the original", i))
            # one hyperedge asked in a shuffled listing, one absent / reversed
            for e in ([relist(rng, rng.choice(hist["pool"]), lab.kind in INT_KINDS and rng.random() < 0.15)] if hist["pool"] else []):
                for ee in (e, [e[1], e[0]]):
                    a = qe_impl(objs[sl], Builder(lab, salt, f"qe {i} {e_edge(ee)}", sl), ee, rets)
                    b = specs[sl].qe(ee)
                    if a != b:
                        problems.append(("violation", f"after operation {i} `{line}` check_edge|get_weight|get_edge_metadata of "
                                                      f"{e_edge(ee)} (object {sl}): implementation {a}, abstract object {b}", i))
                    model_lines.append(f"qe {sl} {e_edge(ee)}")
                    model_expect.append(("qe", i, a))
            # aliasing OUT: the caller changes everything the queries returned, then asks again
            if rets is not None and not problems:
                for w in scribble_out(objs, sl, lab, rets):
                    problems.append(("violation", f"after operation {i} `{line}` (object {sl}): {w}", i))
                again = filters[:4] if i % 4 == 0 else filters[:2]
                d_again = digest_impl(objs[sl], lab, U, again, i)
                for lbl, v in d_again.items():
                    if d_impl.get(lbl) != v:
                        problems.append(("violation", f"after operation {i} `{line}` (object {sl}): the caller emptied the lists, dicts and sets that "
                                                      f"the queries had RETURNED and put other entries into them; asked again, query {lbl} answers "
                                                      f"{v!r} instead of {d_impl.get(lbl)!r} (a returned collection is the object's own table)", i))
                        break
        if len(problems) >= 3:
            break
    # the Lean model
    if drv is not None:
        answers = drv.batch(model_lines)
        for ln, (kind, i, want), got in zip(model_lines, model_expect, answers):
            if "!spec:" in got:
                problems.append(("disagree", f"Lean concrete model and Lean abstract object differ on `{ln}`: {got[got.index('!spec:'):][:200]}", i))
                got = got[:got.index(" !spec:")]
            if kind in ("out", "qe"):
                if got != want:
                    # a difference in the raw tables alone (private ids, positions) is kept back: the run goes on looking for a public
                    # query that shows it (a failing input); if none turns up it is reported as a broken correspondence at the end
                    problems.append(("rawdiff" if ln.startswith("raw ") else "disagree",
                                     f"`{ln}`: model answers {got!r}, implementation {want!r}", i))
            else:
                dm = dict(it.split("=", 1) for it in got.split(" ")) if "=" in got else {}
                if dm != want:
                    diff = [k for k in want if dm.get(k) != want[k]] + [k for k in dm if k not in want]
                    k = diff[0] if diff else "?"
                    problems.append(("disagree", f"after operation {i} query {k}: model answers {dm.get(k)!r}, implementation "
                                                 f"{want.get(k)!r} (line `{ln}`)", i))
            if len(problems) >= 6:
                break
    return problems, stats


def equivariance(ctx, hist, rng_seed):
    """same abstract history under the three label universes: digests must coincide (implementation only)"""
    import random
    if any(isinstance(s, int) for c in hist["cmds"] for e in _edges_of(c) for s in e):
        return []
    outs = []
    others = [k for k in KINDS if k != "int"]
    for kind in ("int", others[rng_seed % 5], others[(rng_seed // 5 + 1 + rng_seed % 5) % 5]):
        lab = Labeling(kind, hist["U"])
        py_w.flip = 0
        objs = {}
        tr = []
        for c in hist["cmds"]:
            tr.append(apply_impl(objs, lab, c)[0])
        for sl in sorted(objs):
            tr.append(sorted(digest_impl(objs[sl], lab, hist["U"], [None, ("s", 3)]).items()))
        outs.append(tr)
    if outs[0] != outs[1] or outs[0] != outs[2]:
        return [("violation", "the same history gives different answers under order-isomorphic label universes", len(hist["cmds"]) - 1)]
    return []


def _edges_of(c):
    if c[0] in ("addedge", "rmedge", "setw", "setem", "attre", "dele"):
        return [c[2]]
    if c[0] in ("addedges", "rmedges"):
        return c[2]
    if c[0] == "new":
        return c[5] or []
    return []


def shrink(ctx, drv, hist, kind, rng_seed):
    """greedy removal of operations while a problem of the same kind remains"""
    import random
    import time
    cur = dict(hist)
    tries = 0
    t_end = time.time() + 15          # on a loaded machine shrinking must not eat the budget (nor the hang alarm)

    def fails(hh):
        p, _ = run_history(ctx, drv, hh, random.Random(rng_seed))
        return [x for x in p if x[0] == kind]

    p = fails(cur)
    if not p:
        return hist, None
    # cut after the failing operation
    upto = min(x[2] for x in p)
    cur = {**cur, "cmds": cur["cmds"][:upto + 1]}
    changed = True
    while changed and tries < 120 and time.time() < t_end:
        changed = False
        for idx in range(len(cur["cmds"]) - 1, 0, -1):
            if time.time() > t_end:
                break
            tries += 1
            cand = {**cur, "cmds": cur["cmds"][:idx] + cur["cmds"][idx + 1:]}
            if cand["cmds"] and cand["cmds"][0][0] == "new" and fails(cand):
                cur = cand
                changed = True
                break
    p = fails(cur)
    return cur, (p[0][1] if p else None)


class Hang(Exception):
    pass


def _on_alarm(signum, frame):
    import signal
    signal.alarm(10)            # re-arm: a mutated implementation may loop in several calls
    raise Hang("implementation call did not return")


def check_history(ctx, drv, hist, seed):
    import random
    import signal
    old = signal.signal(signal.SIGALRM, _on_alarm)
    signal.alarm(30)            # a history normally takes < 0.2 s; a hanging call becomes a `rej` observation
    try:
        return _check_history(ctx, drv, hist, seed)
    except Hang:
        # the alarm went off outside a wrapped implementation call (the calls before it used up the time): the history
        # (< 0.2 s on the unchanged tree) did not finish within 30 s
        what = "calls of the implementation did not return in time (30 s for one history): the history could not be completed"
        ctx.violation({"U": hist["U"], "kind": hist["kind"], "cmds": hist["cmds"], "pool": hist["pool"], "seed": seed,
                       "salt": hist.get("salt"), "lines": [encode(c) for c in hist["cmds"]]}, what)
        return [("violation", what, 0)]
    finally:
        signal.alarm(0)
        signal.signal(signal.SIGALRM, old)


def _check_history(ctx, drv, hist, seed):
    import random
    problems, stats = run_history(ctx, drv, hist, random.Random(seed))
    key = json.dumps([hist["U"], [encode(c) for c in hist["cmds"]]])
    nontrivial = stats["accepted_removal"] and stats["reinsertion"]
    sample = {"U": hist["U"], "kind": hist["kind"], "lines": [encode(c) for c in hist["cmds"]]}
    ctx.case(key, nontrivial, sample=sample)
    ctx.count("operations", stats["ops"])
    ctx.count("rejected_operations", stats["rejected"])
    ctx.count("histories_with_removal", int(stats["accepted_removal"]))
    ctx.count("histories_with_reinsertion", int(stats["reinsertion"]))
    ctx.count("labels_" + hist["kind"])
    for k, v in STYLE_COUNT.items():
        ctx.extra["collections_" + k] = v
    for k, v in ALIAS_COUNT.items():
        ctx.extra[k] = v
    ctx.extra["raw_table_comparisons"] = RAW_COUNT[0]
    for k, v in Y_COUNT.items():
        ctx.extra[k] = v
    for k, v in SUB_COUNT.items():
        ctx.extra[k] = v
    for k, v in INC_COUNT.items():
        ctx.extra[k] = v
    rawdiffs = [p for p in problems if p[0] == "rawdiff"]
    problems = [p for p in problems if p[0] != "rawdiff"]
    if rawdiffs:
        ctx.count("raw_table_differences")
        if not DEFERRED_RAW:
            DEFERRED_RAW.append(({"U": hist["U"], "kind": hist["kind"], "cmds": hist["cmds"], "pool": hist["pool"], "seed": seed,
                                  "salt": hist.get("salt"), "lines": [encode(c) for c in hist["cmds"]]}, rawdiffs[0][1]))
    if not problems and seed % 5 == 0:
        problems = equivariance(ctx, hist, seed)
        ctx.count("equivariance_runs")
    if problems:
        kind = "violation" if any(p[0] == "violation" for p in problems) else "disagree"
        import signal
        try:
            signal.alarm(60)        # the alarm armed by check_history covered the run; shrinking gets its own
            small, what = shrink(ctx, drv if kind == "disagree" else None, hist, kind, seed)
        except Hang:                # a changed implementation that hangs while the history is being shrunk: report it unshrunk
            small, what = hist, None
        signal.alarm(60)
        if what is None:
            small, what = hist, [p for p in problems if p[0] == kind][0][1]
        case = {"U": small["U"], "kind": small["kind"], "cmds": small["cmds"], "pool": small["pool"], "seed": seed, "salt": small.get("salt"),
                "lines": [encode(c) for c in small["cmds"]]}
        (ctx.violation if kind == "violation" else ctx.disagree)(case, what)
    return problems


EXH_ALPHABET = [
    ["addedge", 0, [[0], [1]], None, None],
    ["addedge", 0, [[1], [0]], None, None],                 # the reverse hyperedge
    ["addedge", 0, [[1, 0], [2]], None, [[2, 3]]],
    ["addedge", 0, [[0], [2, 1]], None, None],              # collapses onto ((0,),(1,)) when node 2 is removed
    ["addedge", 0, [0, [1]], 8, [[NOND, 10]]],              # bare-node source, weight 2 (rejected when unweighted), metadata []
    ["rmedge", 0, [[0], [1]]],
    ["rmedge", 0, [[0, 1], [2]]],
    ["rmnode", 0, 2, True],
    ["rmnode", 0, 2, False],
    ["rmnode", 0, 0, True],
    ["rmnode", 0, 1, False],
    ["addnode", 0, 2, [[4, 5]]],
    ["setw", 0, [[0], [1]], 6],
    ["setnm", 0, 0, [[NOND, 8]]],                           # node metadata 0: falsy, not a dict, must survive everything
    ["attrn", 0, 1, 5, 11],                                 # {'': None}
    ["attre", 0, [[0], [1]], 2, 3],
    ["dele", 0, [[0], [1]], 2],
    ["clear", 0],
    ["addedges", 0, [[[0], [1]], [[2], [0, 1]]], [4, 2], None],
]


def exhaustive(ctx, drv, maxlen):
    """bounded exploration supporting the tie: EVERY history of at most `maxlen` calls over a 19-call alphabet on a
    3-node universe, weighted and unweighted (all queries, all filters, after every call)"""
    import itertools
    import copy as _copy
    n = 0
    for weighted in (False, True):
        for length in range(1, maxlen + 1):
            for combo in itertools.product(range(len(EXH_ALPHABET)), repeat=length):
                cmds = [["new", 0, weighted, None, None, None, None, None]] + [_copy.deepcopy(EXH_ALPHABET[i]) for i in combo]
                hist = {"U": 3, "kind": KINDS[n % len(KINDS)] if not any(isinstance(x, int) for c in cmds for e in _edges_of(c) for x in e) else
                        INT_KINDS[n % len(INT_KINDS)], "cmds": cmds, "pool": [[[0], [1]], [[0, 1], [2]]], "salt": n}
                check_history(ctx, drv, hist, 7 * n + 1)
                n += 1
                if ctx.too_many(3):
                    return n
                tl = ctx.time_left()
                if tl is not None and tl < 8:
                    ctx.count("exhaustive_stopped_early_by_budget")
                    return n
    return n


def run(ctx):
    drv = ctx.driver() if ctx.model_available else None
    n = ctx.scale(200, 5000)
    for i in range(n):
        hist = gen_history(ctx.rng)
        check_history(ctx, drv, hist, ctx.rng.randrange(1 << 30))
        if ctx.too_many(3):
            break
        tl = ctx.time_left()
        if tl is not None and tl < 8:
            ctx.count("stopped_early_by_budget")
            break
    if not ctx.too_many(3):
        k = ctx.scale(2, 3)
        ctx.extra["exhaustive_histories"] = exhaustive(ctx, drv, k)
        ctx.extra["exhaustive_scope"] = f"all histories of <= {k} calls over an {len(EXH_ALPHABET)}-call alphabet, 3 nodes, both weightedness"
    report_deferred_raw(ctx)
    if drv is not None:
        ctx.extra["model_lines_note"] = "one `dig` line carries every query for every node and filter of that step"


def report_deferred_raw(ctx):
    """the model's tables and the object's tables differed somewhere and no public query showed a consequence"""
    if DEFERRED_RAW and not ctx.too_many(1):
        case, what = DEFERRED_RAW[0]
        ctx.disagree(case, "raw tables (expose_data_structures / get_edge_list / get_adj_dict / len / iter / str): " + what)


def replay(ctx, case):
    drv = ctx.driver() if ctx.model_available else None
    hist = {"U": case["U"], "kind": case["kind"], "cmds": case["cmds"], "pool": case.get("pool", []), "salt": case.get("salt")}
    check_history(ctx, drv, hist, case.get("seed", 0))
    report_deferred_raw(ctx)
