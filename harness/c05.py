"""C05 - sub-hypergraph extraction and copy: correspondence of lean/Hgxv/Model/C05.lean with
Hypergraph / DirectedHypergraph (subhypergraph, subhypergraph_by_orders, get_edges(subhypergraph=True),
subhypergraph_largest_component, copy) and independent property oracles on the implementation."""
import collections
import copy as _copy
import itertools
import random as _random
import signal
import zlib
from fractions import Fraction

import hgxv

RULE = ("sources: random histories (add_node/add_edge with re-insertion in permuted node order, remove_edge, set_weight, "
        "set_*_metadata, set_attr_*, set_incidence_metadata / in-place edits of an incidence dict, add_empty_edge, "
        "set_hypergraph_metadata, set_attr_to_hypergraph_metadata) on 3-6 nodes, weighted and "
        "unweighted, Hypergraph and DirectedHypergraph, with isolated nodes, singleton hyperedges, node, hyperedge, incidence "
        "and hypergraph metadata, empty edges; label universes of every comparable kind (small ints, exactly 0..n-1, ints beyond "
        "the small-int cache, negative ints, ints around 2**53 / 2**63 / 2**64, run-time strings incl. '' and one-letter ones, "
        "non-integer and huge floats, ints mixed with floats, tuples), EVERY call receives freshly constructed equal label objects; "
        "half of the directed sources hold hyperedges whose source and target sets overlap (self-loop, feedback hyperedge, identical "
        "sides) or with an empty side, a fifth of the undirected ones the node-less hyperedge (); a tenth of the weighted sources "
        "has integer weights beyond 2**60; 'extended' sources whose history also has remove_node(keep_edges), clear, "
        "add_nodes (oracles only, no model); 'large' sources (20-70 nodes, hyperedges up to size 17, a sample of selections); "
        "'component layout' sources: 2 or 3 connected components (w.r.t. no filter, "
        "size 2 or size 3) of prescribed nearly equal sizes (k,k+1 / k,k / k,k,k+1 / ...), EVERY order of first appearance of "
        "the components in the node listing, bridges of other sizes, a temporary bridge removed again, with the largest "
        "component for no filter / size 1..4 / order 0..3 and the induced sub-hypergraph on every component; a quarter of the "
        "random sources is reached through copy() in the middle of the history with the original mutated afterwards, a fifth is "
        "asked every query and extraction once in the middle of its history; per source EVERY node "
        "subset (shuffled, some with repetitions; as list, tuple, set, frozenset, dict, dict keys, numpy array, deque, some with numpy "
        "scalars), EVERY subset of sizes {1..5} as sizes= and as orders= with both "
        "keep_nodes (plus lists with repeated sizes; as list, tuple, set, frozenset, dict keys, numpy array, range, generator, iterator), "
        "EVERY (order|size in none,1..5 / 0..4, up_to, keep_isolated_nodes) "
        "combination of get_edges(subhypergraph=True) plus size 0 / order -1, the largest component for no filter / size 0..3 / "
        "order 0..2; every call in one of three spellings (all keywords, defaults left out, positional), collections handed in are "
        "overwritten after the call; after all selections the source is changed in place by 1-3 calls (half of the time calls that keep "
        "the numbers of nodes and hyperedges) and 14 of the selections are asked again; copy() of 2 % of the results, 3 % of the results "
        "take a further history side by side with a hand-built object of the same content; copy() followed by random mutations of copy "
        "and original (equality = "
        "every public getter incl. incidence metadata, empty edges, matrices, components, serialisation views; same "
        "accepted/rejected calls as a never-copied object; copy of the mutated copy); a small malformed stream (order and size together, neither "
        "orders nor sizes, a node outside the hypergraph) is compared with the model only.  A case = (source, selection); "
        "distinct by canonical content + selection; non-trivial when the selection keeps >= 1 and drops >= 1 hyperedge "
        "(copy: both mutation lists change something)")
ASSUMPTIONS = ["hyperedges of Hypergraph are duplicate-free node tuples (C01's quantifier: add_edge links a repeated node twice, remove_edge "
               "unlinks it once) and each side of a directed hyperedge is duplicate-free; the two sides of a directed hyperedge MAY overlap "
               "or be empty (add_edge accepts them, every extraction and copy() handles them; size = len(source) + len(target) as "
               "get_sizes() / get_orders() report it, a node on both sides counts twice)",
               "DirectedHypergraph.remove_node is never applied to a node that is source AND target of one hyperedge: on the unchanged "
               "tree it raises half-way (the hyperedge is removed once as source hyperedge, then looked for again as target hyperedge); "
               "C02's quantifier has disjoint sides, the histories here skip exactly these removals",
               "labels are mapped to their rank in sorted order, metadata keys/values and weights (multiples of 1/4, or integer multiples of "
               "2**60+1) to tokens before they reach the model; labels of one source are mutually comparable (add_edge sorts)",
               "node selections are re-iterable collections: subhypergraph() walks its argument three times, a one-shot iterator is not an "
               "input of the unchanged code (lists of orders / sizes are walked once: generators and iterators are used there)",
               "requested node lists are subsets of the source's nodes (the quantifier); lists outside are only compared with the model's rejection",
               "listing ORDER of the result is compared with the model only (the property does not speak about it): an order-only difference is "
               "reported as a correspondence break twice per run, afterwards contents only are compared and the search for a failing input goes on"]
TRUSTED = ["largest_component(size, order) is taken as returned by utils/cc.py (model parameter `comp`); the harness checks with its own "
           "union-find that it is a connected component of maximum size under the filter",
           "copy.deepcopy semantics (the model's copy is the identity on values)",
           "empty edges have no public getter: their names are observed by add_empty_edge on a stdlib deepcopy of the object "
           "(a duplicate name raises), their metadata through the attribute _empty_edges where it exists"]
BUDGET_S = {"quick": 70, "thorough": 1500}

MD_KEYS = ["a", "b", "c"]
VAL_POOL = [7, "red", 2.5, [1, 2], {"z": 1}, None, "", -3]
EMPTY_NAMES = ["e0", 0, ("x", 1)]          # names of empty edges (Hypergraph.add_empty_edge)
H_WEIGHTED, H_TYPE = 100, 101              # attribute tokens of the constructor's hypergraph metadata (Model/C05.lean)
TYPE_TOK = {"Hypergraph": 0, "DirectedHypergraph": 1}


class _Timeout(BaseException):
    """not an Exception: the blanket `except Exception` of an observation must not swallow the alarm"""


def _alarm(signum, frame):
    raise _Timeout()


TIMEOUTS = [0]


def guard(fn, *a, **k):
    """run an implementation call; an exception (or a 10 s hang) is an observation.  After three hangs nothing
    more is run (the run ends with a violation, see `check_source`) so that a looping mutant cannot eat the budget."""
    if TIMEOUTS[0] >= 3:
        return ("exc", "Timeout (not run: earlier calls hung)")
    old = signal.signal(signal.SIGALRM, _alarm)
    signal.setitimer(signal.ITIMER_REAL, 10)
    try:
        return ("ok", fn(*a, **k))
    except _Timeout:
        TIMEOUTS[0] += 1
        return ("exc", "Timeout")
    except Exception as e:  # noqa: BLE001
        return ("exc", type(e).__name__ + ": " + str(e)[:80])
    finally:
        signal.setitimer(signal.ITIMER_REAL, 0)
        signal.signal(signal.SIGALRM, old)


# ------------------------------------------------------------------------------------------
# generation (everything over ranks 0..n-1; labels are attached when the history is realised)

def gen_md(rng, p_none=0.4):
    if rng.random() < p_none:
        return None
    return [[a, rng.randrange(len(VAL_POOL))] for a in sorted(rng.sample(range(3), rng.randint(0, 2)))]


STR_POOL = ["n" + chr(97 + i) for i in range(12)] + ["A", "B1", "zz", "", "a", "node 7", "\u00fc", "10", "9", "Zz top"]
FLOAT_POOL = [-2.5, 0.5, 1.5, 2.25, 1e-9, 3.75, 1e300, 257.5, -1e-3, 0.1, 7.0, 1e16, 2.0 ** 70]
MIX_POOL = [1, 2.5, 3, 300.75, 1000, -7, 0.25, 2 ** 60, 4.0, 258]
BIG_BASES = [2 ** 53 - 3, 2 ** 63 - 3, 2 ** 64 - 2, 10 ** 30, -(2 ** 63) - 2]


def gen_labels(rng, n):
    """a universe of n mutually comparable labels, sorted (a label reaches the model as its rank).  Every comparable
    kind of object a user can hold: small ints (identity = equality in CPython), exactly 0..n-1 (label = rank), ints
    beyond the small-int cache, negative ints, ints around 2**53 / 2**63 / 2**64, run-time strings (with '' and
    one-letter strings), non-integer and huge floats, ints mixed with floats, tuples"""
    r = rng.random()
    if r < 0.16:
        return sorted(rng.sample(range(0, 30), n))
    if r < 0.22:
        return list(range(n))
    if r < 0.40:
        return sorted(rng.sample(range(257, 3000), n))
    if r < 0.46:
        return sorted(rng.sample(range(-400, 400), n))
    if r < 0.54:
        return sorted(rng.sample([b + i for b in BIG_BASES for i in range(6)], n))
    if r < 0.72:
        return sorted(rng.sample(STR_POOL, n))
    if r < 0.81:
        return sorted(rng.sample(FLOAT_POOL, n))
    if r < 0.87:
        return sorted(rng.sample(MIX_POOL, n))
    if rng.random() < 0.5:
        return sorted(rng.sample([(i, j) for i in (1, 2, 300) for j in (0, 5, 1000, 7)], n))
    return sorted(rng.sample([(a, j) for a in ("x", "yy") for j in (1, 2, 3, 400, 5000, 6)], n))


def label_class(L):
    ts = {type(x).__name__ for x in L}
    if ts == {"int"}:
        if all(-5 <= x <= 256 for x in L):
            return "small_int"
        return "big_int" if any(abs(x) >= 2 ** 53 - 8 for x in L) else "int_beyond_cache"
    return "_".join(sorted(ts))


def norm_label(x):
    """labels of a case that went through JSON: a tuple label came back as a list"""
    return tuple(norm_label(e) for e in x) if isinstance(x, (list, tuple)) else x


def fresh(x):
    """a freshly constructed object EQUAL to the label x (never the object the harness or the hypergraph holds): `is`
    and `==` coincide for small ints and literals only"""
    if isinstance(x, bool):
        return x
    if isinstance(x, int):
        return int(str(x))
    if isinstance(x, float):
        return float(repr(x))
    if isinstance(x, str):
        return "".join(list(x)) if len(x) > 1 else x
    if isinstance(x, tuple):
        return tuple(fresh(e) for e in x)
    return x


def gen_raw(rng, kind, n, ov=0.0, top=5):
    """a raw hyperedge over ranks.  With probability `ov` one of the shapes outside the everyday ones: directed - source
    and target OVERLAP (self-loop ((x,),(x,)), feedback ((a,),(a,b)), identical sides) or a side is empty; undirected -
    the node-less hyperedge ()"""
    if kind == "u":
        if ov and rng.random() < ov * 0.15:
            return []
        size = min(n, rng.choice([1, 1, 2, 2, 2, 3, 3, 4, 5] + ([x for x in (6, 7, 8, 9) if x < top] + [top, top] if top > 5 else [])))
        return rng.sample(range(n), size)
    if ov and rng.random() < ov:
        x = rng.random()
        if x < 0.25:
            a = rng.randrange(n)
            return [[a], [a]]
        if x < 0.37:
            a = rng.sample(range(n), min(n, rng.randint(2, 3)))
            return [list(a), list(reversed(a))]
        if x < 0.50:
            side = rng.sample(range(n), min(n, rng.randint(1, 3)))
            return [[], side] if rng.random() < 0.5 else [side, []]
        if x < 0.53:
            return [[], []]
        common = rng.sample(range(n), min(n, rng.choice([1, 1, 2])))
        a = [r for r in rng.sample(range(n), min(n, rng.randint(0, 2))) if r not in common]
        b = [r for r in rng.sample(range(n), min(n, rng.randint(0, 2))) if r not in common]
        s_, t_ = common + a, common + b
        rng.shuffle(s_)
        rng.shuffle(t_)
        return [s_, t_]
    size = min(n, rng.choice([2, 2, 2, 3, 3, 4, 5] + ([x for x in (6, 7, 8, 9) if x < top] + [top, top] if top > 5 else [])))
    nodes = rng.sample(range(n), size)
    k = rng.randint(1, size - 1)
    return [nodes[:k], nodes[k:]]


def canon_raw(kind, raw):
    return tuple(sorted(raw)) if kind == "u" else (tuple(sorted(raw[0])), tuple(sorted(raw[1])))


def perm_raw(rng, kind, key):
    if kind == "u":
        x = list(key)
        rng.shuffle(x)
        return x
    a, b = list(key[0]), list(key[1])
    rng.shuffle(a)
    rng.shuffle(b)
    return [a, b]


def gen_aux_op(rng, kind, n, keys, incs, ov=0.0, top=5):
    """one operation on incidence metadata / empty edges / hypergraph-level metadata; `incs` = (raw key, node) pairs
    that received incidence metadata so far (the undirected class stores under the tuple AS GIVEN)"""
    r = rng.random()
    if r < 0.50 or (r < 0.70 and not incs):
        if keys and rng.random() < 0.85:
            key = rng.choice(keys)
        else:
            key = canon_raw(kind, gen_raw(rng, kind, n, ov, top))
        raw = perm_raw(rng, kind, key)
        ms = list(key) if kind == "u" else list(key[0]) + list(key[1])
        node = rng.choice(ms) if ms and rng.random() < 0.8 else rng.randrange(n)
        incs.append((raw, node))
        return ["setim", raw, node, gen_md(rng, 0.15) or []]
    if r < 0.70:
        raw, node = rng.choice(incs)
        if rng.random() < 0.15:
            raw = perm_raw(rng, kind, canon_raw(kind, raw))     # another spelling of the same hyperedge
        return ["attri", raw, node, rng.randrange(3), rng.randrange(len(VAL_POOL))]
    if r < 0.82 and kind == "u":
        return ["addempty", rng.randrange(len(EMPTY_NAMES)), gen_md(rng, 0.4) or []]
    if r < 0.90:
        return ["sethm", gen_md(rng, 0) or []]
    return ["attrh", rng.randrange(3), rng.randrange(len(VAL_POOL))]


def gen_ops(rng, kind, weighted, n, present, length, extended=False, p_aux=0.16, incs=None, ov=0.0, top=5):
    """random mutations; `present` = set of canonical keys currently in the object (kept up to date as if all
    valid ops are accepted - used only to bias the generator)"""
    ops = []
    present = set(present)
    incs = [] if incs is None else incs
    for _ in range(length):
        r = rng.random()
        keys = sorted(present)
        if rng.random() < p_aux:
            ops.append(gen_aux_op(rng, kind, n, keys, incs, ov, top))
        elif r < 0.12:
            ops.append(["addnode", rng.randrange(n), gen_md(rng, 0.3)])
        elif r < 0.55 or not keys:
            if keys and rng.random() < 0.3:
                raw = perm_raw(rng, kind, rng.choice(keys))       # re-insertion
            else:
                raw = gen_raw(rng, kind, n, ov, top)
            if weighted:
                w = rng.randint(1, 12) if rng.random() < 0.93 else None
            else:
                w = None if rng.random() < 0.85 else rng.choice([4, 4, 6])   # 4 quanta = weight 1 (accepted), 6 = 1.5 (rejected)
            ops.append(["addedge", raw, w, gen_md(rng)])
            if weighted or w in (None, 4):
                present.add(canon_raw(kind, raw))
        elif r < 0.65:
            key = rng.choice(keys) if rng.random() < 0.9 else canon_raw(kind, gen_raw(rng, kind, n, ov, top))
            ops.append(["rmedge", perm_raw(rng, kind, key)])
            present.discard(key)
        elif r < 0.73:
            key = rng.choice(keys) if rng.random() < 0.9 else canon_raw(kind, gen_raw(rng, kind, n, ov, top))
            w = rng.randint(1, 12) if weighted else rng.choice([4, 4, 4, 8])
            ops.append(["setw", perm_raw(rng, kind, key), w])
        elif r < 0.80:
            ops.append(["setnm", rng.randrange(n), gen_md(rng, 0) or []])
        elif r < 0.87:
            ops.append(["setem", perm_raw(rng, kind, rng.choice(keys)), gen_md(rng, 0) or []])
        elif r < 0.94 or kind == "d":
            # (DirectedHypergraph.set_attr_to_edge_metadata is outside this property: C02 / D10)
            ops.append(["attrn", rng.randrange(n), rng.randrange(3), rng.randrange(len(VAL_POOL))])
        else:
            ops.append(["attre", perm_raw(rng, kind, rng.choice(keys)), rng.randrange(3), rng.randrange(len(VAL_POOL))])
        if extended and rng.random() < 0.15:
            x = rng.random()
            if x < 0.5:
                ops.append(["rmnode", rng.randrange(n), rng.random() < 0.5])
            elif x < 0.6:
                ops.append(["clear"])
            else:
                ops.append(["addnodes", rng.sample(range(n), rng.randint(1, n))])
    return ops


def gen_source(rng, n=None, length=None, labels=None, top=5, kind=None):
    kind = kind or ("u" if rng.random() < 0.58 else "d")
    n = n or rng.choice([3, 4, 5, 5, 6, 6])
    weighted = rng.random() < 0.6
    # half of the directed sources (a fifth of the undirected ones) also hold the unusual shapes, see gen_raw
    ov = rng.choice([0.25, 0.5]) if rng.random() < (0.5 if kind == "d" else 0.2) else 0.0
    hist = []
    for r in rng.sample(range(n), rng.randint(1, n)):
        if rng.random() < 0.7:
            hist.append(["addnode", r, gen_md(rng, 0.25)])
    incs = []
    hist += gen_ops(rng, kind, weighted, n, set(), length or rng.randint(3, 14), p_aux=rng.choice([0.0, 0.15, 0.3]),
                    incs=incs, ov=ov, top=top)
    rng.shuffle(hist)
    case = {"kind": kind, "weighted": weighted, "labels": (labels or gen_labels)(rng, n), "history": hist, "incs": incs, "ov": ov}
    if weighted and rng.random() < 0.12:
        case["wscale"] = True
    x = rng.random()
    if hist and x < 0.25:
        case["copy_at"] = rng.randrange(len(hist))
        case["junk"] = gen_ops(rng, kind, weighted, n, set(canon_raw(kind, o[1]) for o in hist if o[0] == "addedge"),
                               rng.randint(2, 6), extended=True, p_aux=0.3, incs=list(incs), ov=ov)
    elif hist and x < 0.45:
        # every query and every extraction is asked once in the middle of the history (results dropped): whatever the
        # object remembers of an answer is out of date when the selections of the check are made
        case["warm_at"] = rng.randint(max(0, len(hist) - 5), len(hist) - 1)
    return case


def gen_silent_ops(rng, case, S, length):
    """calls that change what an extraction must return but neither the number of nodes nor the number of hyperedges"""
    kind = case["kind"]
    keys = sorted(rank_keys(case, S))
    n = len(case["labels"])
    ops = []
    for _ in range(length):
        r = rng.random()
        if keys and r < 0.35:
            ops.append(["setw", perm_raw(rng, kind, rng.choice(keys)), rng.randint(1, 12) if S[0] else 4])
        elif keys and r < 0.6:
            ops.append(["setem", perm_raw(rng, kind, rng.choice(keys)), gen_md(rng, 0) or [[0, rng.randrange(len(VAL_POOL))]]])
        elif r < 0.8:
            ops.append(["setnm", rng.randrange(n), gen_md(rng, 0) or [[1, rng.randrange(len(VAL_POOL))]]])
        elif keys and r < 0.9 and S[0]:
            ops.append(["addedge", perm_raw(rng, kind, rng.choice(keys)), rng.randint(1, 12), gen_md(rng)])   # re-insertion: weights add up
        else:
            ops.append(["attrn", rng.randrange(n), rng.randrange(3), rng.randrange(len(VAL_POOL))])
    return ops


def gen_source_extended(rng):
    """a source whose history also removes nodes (with and without keeping their hyperedges), clears the object and
    adds node batches: outside the model's operations, exercised by the oracles only"""
    case = gen_source(rng)
    n = len(case["labels"])
    hist = list(case["history"])
    extra = gen_ops(rng, case["kind"], case["weighted"], n, set(), rng.randint(3, 8), extended=True,
                    incs=case["incs"], ov=case.get("ov", 0.0))
    for op in extra:
        if op[0] == "clear" and rng.random() < 0.6:
            continue
        hist.insert(rng.randint(len(hist) // 2, len(hist)), op)
    return {**case, "history": hist, "extended": True}


# component layouts: sizes of the connected components (w.r.t. the filter of the mode)
LAYOUTS = [(1, 2), (2, 3), (3, 4), (1, 1), (2, 2), (3, 3), (1, 3), (2, 4), (4, 5),
           (1, 1, 2), (1, 2, 2), (2, 2, 3), (2, 3, 3), (1, 1, 1), (2, 2, 2), (1, 2, 3), (3, 3, 4)]
LCC_FILTERS = [{}] + [{"size": s} for s in (1, 2, 3, 4)] + [{"order": o} for o in (0, 1, 2, 3)]


def layout_modes(sizes):
    """None: components w.r.t. all hyperedges; s: components w.r.t. hyperedges of size s (each component must be
    connectable by hyperedges of exactly that size)"""
    return [None, 2] + ([3] if all(x == 1 or x >= 3 for x in sizes) and any(x >= 3 for x in sizes) else [])


def gen_layout_source(rng, sizes, perm, mode):
    """a Hypergraph whose connected components under `mode` have exactly the sizes `sizes`; `perm` is the order in which
    the components first appear in the node listing (= the order the component search meets them)"""
    n = sum(sizes)
    ranks = list(range(n))
    rng.shuffle(ranks)
    comps, at = [], 0
    for sz in sizes:
        comps.append(ranks[at:at + sz])
        at += sz
    weighted = rng.random() < 0.5

    def w():
        return rng.randint(1, 12) if weighted else None

    edges_of = []                                  # per component: hyperedges that connect it (under the mode)
    for comp in comps:
        es = []
        seen = [comp[0]]
        rest = comp[1:]
        rng.shuffle(rest)
        while rest:
            size = mode if mode is not None else rng.randint(2, min(4, len(rest) + len(seen)))
            new = min(len(rest), rng.randint(1, size - 1))
            old = size - new
            if old > len(seen):
                new, old = size - len(seen), len(seen)
                if new > len(rest):               # cannot happen when len(comp) >= size
                    new = len(rest)
            e = rng.sample(seen, old) + rest[:new]
            rng.shuffle(e)
            es.append(e)
            seen += rest[:new]
            rest = rest[new:]
        for _ in range(rng.randint(0, 2)):        # more hyperedges inside the component (any size)
            k = rng.randint(1, min(4, len(comp)))
            es.append(rng.sample(comp, k))
        edges_of.append(es)
    first, tail = [], []
    for ci in perm:
        comp, es = comps[ci], edges_of[ci]
        if es and rng.random() < 0.5:
            e = es.pop(rng.randrange(len(es)))
            first.append(["addedge", e, w(), gen_md(rng)])
        else:
            first.append(["addnode", rng.choice(comp), gen_md(rng, 0.3)])
    for ci, comp in enumerate(comps):
        for e in edges_of[ci]:
            tail.append(["addedge", e, w(), gen_md(rng)])
        for r in comp:
            if len(comp) == 1 or rng.random() < 0.3:
                tail.append(["addnode", r, gen_md(rng, 0.3)])
    if mode is not None and len(comps) > 1:       # bridges of sizes outside the filter: other components without it
        for _ in range(rng.randint(0, 2)):
            size = rng.choice([s for s in (1, 3, 4, 2) if s != mode and s <= n][:3])
            e = rng.sample(ranks, size)
            tail.append(["addedge", e, w(), gen_md(rng)])
    rng.shuffle(tail)
    if len(comps) > 1 and rng.random() < 0.5:     # a bridge inside the filter that is removed again
        a, b = rng.sample(range(len(comps)), 2)
        size = mode if mode is not None else 2
        e = [rng.choice(comps[a]), rng.choice(comps[b])]
        others = [r for r in ranks if r not in e]
        e += rng.sample(others, min(len(others), size - 2))
        if len(e) == size and not any(sorted(e) == sorted(o[1]) for o in first + tail if o[0] == "addedge"):
            i = rng.randint(0, len(tail))
            j = rng.randint(i, len(tail))
            tail.insert(j, ["rmedge", list(reversed(e))])
            tail.insert(i, ["addedge", e, w(), gen_md(rng)])
    for _ in range(rng.randint(0, 2)):
        tail.insert(rng.randint(0, len(tail)), gen_aux_op(rng, "u", n, [canon_raw("u", o[1]) for o in tail if o[0] == "addedge"], []))
    return {"kind": "u", "weighted": weighted, "labels": gen_labels(rng, n), "history": first + tail,
            "layout": {"sizes": list(sizes), "perm": list(perm), "mode": mode}}


# ------------------------------------------------------------------------------------------
# realisation on the implementation / rendering for the model

def py_md(md):
    return None if md is None else {MD_KEYS[a]: _copy.deepcopy(VAL_POOL[v]) for a, v in md}


WSCALE = 2 ** 60 + 1


def eff_w(case, q):
    """the weight (in quanta) a call really sends: under a weight scale no call leaves the weight out (the default
    weight 1 is not on the scaled grid)"""
    return 4 if q is None and case.get("wscale") else q


def py_w(q, case=None):
    """quanta -> the weight handed to the implementation (ints where possible, else floats).  case["wscale"]: all
    weights are INTEGERS far beyond 2**53 (q * (2**60 + 1)): sums stay exact, a detour through floats does not"""
    if q is None:
        return None
    if case is not None and case.get("wscale"):
        return q * WSCALE
    return q // 4 if q % 8 == 0 else q / 4


def op_bits(op):
    """presentation bits of a history call: a function of the call's text, so that every rebuild of the history (the
    never-copied reference of a copy round, a replay) presents it the same way"""
    return zlib.crc32(repr(op).encode())


def lab(case, r):
    return fresh(case["labels"][r])


def py_key(case, raw, bits=0):
    """the hyperedge as handed to the implementation: FRESH label objects; tuple or list (of tuples or lists)"""
    cont = (tuple, list, tuple, tuple)[bits & 3]
    if case["kind"] == "u":
        return cont(lab(case, r) for r in raw)
    side = (tuple, tuple, list, tuple)[(bits >> 2) & 3]
    return cont([side(lab(case, r) for r in raw[0]), side(lab(case, r) for r in raw[1])])


def new_object(case):
    from hypergraphx import DirectedHypergraph, Hypergraph
    return (Hypergraph if case["kind"] == "u" else DirectedHypergraph)(weighted=case["weighted"])


def on_both_sides(h, x):
    """x is source AND target of one hyperedge of the DirectedHypergraph h"""
    st, es = guard(h.get_edges)
    return st == "ok" and any(isinstance(e, tuple) and len(e) == 2 and x in e[0] and x in e[1] for e in es)


def apply_py(case, h, op):
    t = op[0]
    b = op_bits(op)
    if t == "addnode":
        return guard(h.add_node, lab(case, op[1]), py_md(op[2]))
    if t == "addedge":
        return guard(h.add_edge, py_key(case, op[1], b), py_w(eff_w(case, op[2]), case), py_md(op[3]))
    if t == "rmedge":
        return guard(h.remove_edge, py_key(case, op[1], b))
    if t == "setw":
        return guard(h.set_weight, py_key(case, op[1], b), py_w(op[2], case))
    if t == "setnm":
        return guard(h.set_node_metadata, lab(case, op[1]), py_md(op[2]))
    if t == "setem":
        return guard(h.set_edge_metadata, py_key(case, op[1], b), py_md(op[2]))
    if t == "attrn":
        return guard(h.set_attr_to_node_metadata, lab(case, op[1]), MD_KEYS[op[2]], _copy.deepcopy(VAL_POOL[op[3]]))
    if t == "attre":
        return guard(h.set_attr_to_edge_metadata, py_key(case, op[1], b), MD_KEYS[op[2]], _copy.deepcopy(VAL_POOL[op[3]]))
    if t == "setim":
        # (tuples only: the undirected class stores the incidence entry under the edge object as given)
        return guard(h.set_incidence_metadata, py_key(case, op[1]), lab(case, op[2]), py_md(op[3]))
    if t == "attri":
        def edit():
            h.get_incidence_metadata(py_key(case, op[1]), lab(case, op[2]))[MD_KEYS[op[3]]] = _copy.deepcopy(VAL_POOL[op[4]])
        return guard(edit)
    if t == "addempty":
        return guard(h.add_empty_edge, EMPTY_NAMES[op[1]], py_md(op[2]))
    if t == "sethm":
        return guard(h.set_hypergraph_metadata, py_md(op[1]))
    if t == "attrh":
        return guard(h.set_attr_to_hypergraph_metadata, MD_KEYS[op[1]], _copy.deepcopy(VAL_POOL[op[2]]))
    if t == "rmnode":
        if case["kind"] == "d" and on_both_sides(h, case["labels"][op[1]]):
            # DirectedHypergraph.remove_node raises half-way for such a node on the unchanged tree (outside C02's
            # quantifier "disjoint sides"): not part of any history here
            return ("skip", None)
        return guard(h.remove_node, lab(case, op[1]), op[2])
    if t == "clear":
        return guard(h.clear)
    if t == "addnodes":
        return guard(h.add_nodes, [lab(case, r) for r in op[1]])
    raise ValueError(t)


def w_md(md):
    return "-" if not md else ",".join(f"{a}:{v}" for a, v in md)


def w_key(kind, raw):
    f = lambda xs: ",".join(str(x) for x in xs) if xs else "_"  # noqa: E731
    return f(raw) if kind == "u" else f(raw[0]) + ">" + f(raw[1])


def w_opt(x):
    return "n" if x is None else str(x)


def model_line(case, slot, op):
    k = case["kind"]
    t = op[0]
    if t == "addnode":
        return f"{k} addnode {slot} {op[1]} {w_md(op[2])}"
    if t == "addedge":
        return f"{k} addedge {slot} {w_key(k, op[1])} {w_opt(eff_w(case, op[2]))} {w_md(op[3])}"
    if t == "rmedge":
        return f"{k} rmedge {slot} {w_key(k, op[1])}"
    if t == "setw":
        return f"{k} setw {slot} {w_key(k, op[1])} {op[2]}"
    if t == "setnm":
        return f"{k} setnm {slot} {op[1]} {w_md(op[2])}"
    if t == "setem":
        return f"{k} setem {slot} {w_key(k, op[1])} {w_md(op[2])}"
    if t == "attrn":
        return f"{k} attrn {slot} {op[1]} {op[2]} {op[3]}"
    if t == "attre":
        return f"{k} attre {slot} {w_key(k, op[1])} {op[2]} {op[3]}"
    if t == "setim":
        return f"{k} setim {slot} {w_key(k, op[1])} {op[2]} {w_md(op[3])}"
    if t == "attri":
        return f"{k} attri {slot} {w_key(k, op[1])} {op[2]} {op[3]} {op[4]}"
    if t == "addempty":
        return f"{k} addempty {slot} {op[1]} {w_md(op[2])}"
    if t == "sethm":
        return f"{k} sethm {slot} {w_md(op[1])}"
    if t == "attrh":
        return f"{k} attrh {slot} {op[1]} {op[2]}"
    raise ValueError(t)


# ------------------------------------------------------------------------------------------
# observation of an object through the public API

def members(kind, key):
    return tuple(key) if kind == "u" else tuple(key[0]) + tuple(key[1])


def empty_edge_names(h):
    """names of the empty edges: no getter exists, so add_empty_edge is tried on a stdlib deepcopy (a name that is
    already there raises).  None when the class has no empty edges (DirectedHypergraph)"""
    if not hasattr(h, "add_empty_edge"):
        return None
    probe = _copy.deepcopy(h)
    out = []
    for name in EMPTY_NAMES:
        try:
            probe.add_empty_edge(name, {})
        except Exception:  # noqa: BLE001
            out.append(name)
    return out


def aux_of(h):
    """incidence metadata (listing order), empty edges [(name, md | None)], hypergraph-level metadata"""
    inc = h.get_all_incidences_metadata()
    if not isinstance(inc, dict):
        raise AssertionError("get_all_incidences_metadata() is not a dict")
    for (e, n), md in inc.items():
        if h.check_edge(e) and h.get_incidence_metadata(e, n) != md:
            raise AssertionError(f"get_incidence_metadata({e!r}, {n!r}) disagrees with get_all_incidences_metadata()")
    names = empty_edge_names(h)
    empty = []
    if names is not None:
        priv = getattr(h, "_empty_edges", None)
        if isinstance(priv, dict):
            if set(priv) != set(names):
                raise AssertionError("add_empty_edge accepts/rejects names against the stored empty edges")
            empty = [(k, v) for k, v in priv.items()]
        else:
            empty = [(k, None) for k in names]
    hm = h.get_hypergraph_metadata()
    if not isinstance(hm, dict):
        raise AssertionError("get_hypergraph_metadata() is not a dict")
    return {"inc": dict(inc), "empty": empty, "hmeta": dict(hm)}


def snap(h):
    """content of an object as the public API shows it: (weighted, {node: md}, {key: (weight, md)}, aux) or ('exc', why);
    aux = incidence metadata, empty edges, hypergraph-level metadata (see aux_of)"""
    def f():
        nodes = h.get_nodes(metadata=True)
        lst = list(h.get_nodes())
        if len(set(lst)) != len(lst) or set(lst) != set(nodes):
            raise AssertionError("get_nodes() and get_nodes(metadata=True) list different nodes")
        em = h.get_edges(metadata=True)
        ws = h.get_weights(asdict=True)
        keys = list(h.get_edges())
        if len(set(keys)) != len(keys) or set(keys) != set(em) or set(keys) != set(ws):
            raise AssertionError("get_edges(), get_edges(metadata=True) and get_weights(asdict=True) list different hyperedges")
        for k in keys:
            if h.get_weight(k) != ws[k] or h.get_edge_metadata(k) != em[k] or not h.check_edge(k):
                raise AssertionError(f"per-hyperedge queries disagree with the listings for {k!r}")
        for n in lst:
            if h.get_node_metadata(n) != nodes[n]:
                raise AssertionError(f"get_node_metadata({n!r}) disagrees with get_nodes(metadata=True)")
        return (bool(h.is_weighted()), dict(nodes), {k: (ws[k], em[k]) for k in keys}, aux_of(h))
    st, v = guard(f)
    return v if st == "ok" else ("exc", v)


def incidence_ok(kind, h, s):
    """every hyperedge of the content is incident exactly once to each of its nodes (public listing); DirectedHypergraph:
    once as a source hyperedge of each source node, once as a target hyperedge of each target node, and
    get_incident_edges = the two listings one after the other (a node on both sides meets the hyperedge twice)"""
    def f():
        srt = lambda xs: sorted(xs, key=repr)  # noqa: E731
        for n in s[1]:
            if kind == "u":
                want = srt(k for k in s[2] if n in k)
            else:
                ws, wt = srt(k for k in s[2] if n in k[0]), srt(k for k in s[2] if n in k[1])
                gs, gt = srt(h.get_source_edges(n)), srt(h.get_target_edges(n))
                if gs != ws or gt != wt:
                    return f"get_source_edges / get_target_edges({n!r}) = {gs} / {gt}, hyperedges with it on that side: {ws} / {wt}"
                want = srt(ws + wt)
            got = srt(h.get_incident_edges(n))
            if got != want:
                return f"get_incident_edges({n!r}) = {got}, hyperedges containing it: {want}"
        if h.num_nodes() != len(s[1]) or len(h) != len(s[2]):
            return "num_nodes()/len() disagree with the listings"
        return None
    st, v = guard(f)
    return v if st == "ok" else "incidence queries raised " + v


def canon(x):
    if isinstance(x, dict):
        return ("{", tuple(sorted(((canon(k), canon(v)) for k, v in x.items()), key=repr)))
    if isinstance(x, (set, frozenset)):
        return ("s", tuple(sorted((canon(v) for v in x), key=repr)))
    if isinstance(x, (list, tuple)):
        return ("l", tuple(canon(v) for v in x))
    if isinstance(x, float) and x.is_integer():
        return ("f", int(x))
    try:
        import numpy as np
        if isinstance(x, np.ndarray):
            return ("l", tuple(canon(v) for v in x.tolist()))
        if isinstance(x, np.generic):
            return canon(x.item())
    except Exception:  # noqa: BLE001
        pass
    return x if isinstance(x, (int, str, bool, type(None), float)) else repr(x)


def full_digest(kind, h, deep=0):
    """every public query of the object (listing order kept, sets sorted); exceptions are observations.
    deep=1 adds components, serialisation views, filtered per-node queries, the empty-edge probe; deep=2 also the
    matrices and the label mapping.  One alarm for the whole digest (a hang is an observation)."""
    st, v = guard(_full_digest, kind, h, deep)
    return v if st == "ok" else {"digest": ("exc", v)}


def _try(fn, *a, **k):
    try:
        return ("ok", fn(*a, **k))
    except Exception as e:  # noqa: BLE001
        return ("exc", type(e).__name__ + ": " + str(e)[:80])


def _full_digest(kind, h, deep):
    d = {}
    guard = _try                        # no nested alarms inside the digest

    def q(name, fn, *a, **k):
        try:
            d[name] = canon(fn(*a, **k))
        except Exception as e:  # noqa: BLE001
            d[name] = ("exc", type(e).__name__)

    q("nodes", h.get_nodes)
    q("nodes_md", h.get_nodes, metadata=True)
    q("edges", h.get_edges)
    q("edges_md", h.get_edges, metadata=True)
    q("weights", h.get_weights, asdict=True)
    q("weights_l", h.get_weights)
    q("weighted", h.is_weighted)
    q("num_nodes", h.num_nodes)
    q("num_edges", h.num_edges)
    q("len", len, h)
    q("str", str, h)
    q("sizes", h.get_sizes)
    q("orders", h.get_orders)
    q("dist", h.distribution_sizes)
    q("max_size", h.max_size)
    q("max_order", h.max_order)
    q("uniform", h.is_uniform)
    q("hmeta", h.get_hypergraph_metadata)
    q("all_nmeta", h.get_all_nodes_metadata)
    q("all_emeta", h.get_all_edges_metadata)
    q("all_imeta", h.get_all_incidences_metadata)
    q("edge_list", h.get_edge_list)
    q("iter", lambda: list(iter(h)))
    q("degseq", h.degree_sequence)
    for s in (1, 2, 3, 4, 5):
        q(f"edges_s{s}", h.get_edges, size=s)
        q(f"edges_o{s}u", h.get_edges, order=s - 1, up_to=True)
        q(f"weights_s{s}", h.get_weights, size=s, asdict=True)
    if kind == "u":
        q("adj", h.get_adj_dict)
        q("isolated", h.isolated_nodes)
        q("ncc", h.num_connected_components)
        q("num_edges_s2u", h.num_edges, size=2, up_to=True)
    else:
        q("adj_s", h.get_adj_dict, "source")
        q("adj_t", h.get_adj_dict, "target")
        q("sources", h.get_sources)
        q("targets", h.get_targets)
    st, nodes = guard(h.get_nodes)
    for n in (nodes if st == "ok" else []):
        q(f"inc{n!r}", h.get_incident_edges, n)
        q(f"inc2{n!r}", h.get_incident_edges, n, size=2)
        q(f"nb{n!r}", h.get_neighbors, n)
        q(f"deg{n!r}", h.degree, n)
        q(f"nm{n!r}", h.get_node_metadata, n)
        q(f"chk{n!r}", h.check_node, n)
        if kind == "d":
            q(f"se{n!r}", h.get_source_edges, n)
            q(f"te{n!r}", h.get_target_edges, n)
    st, edges = guard(h.get_edges)
    for e in (edges if st == "ok" else []):
        q(f"w{e!r}", h.get_weight, e)
        q(f"em{e!r}", h.get_edge_metadata, e)
        q(f"ce{e!r}", h.check_edge, e)
    st, inc = guard(h.get_all_incidences_metadata)
    for key in (list(inc) if st == "ok" and isinstance(inc, dict) else []):
        if isinstance(key, tuple) and len(key) == 2:
            q(f"im{key!r}", h.get_incidence_metadata, key[0], key[1])
    q("empty_private", lambda: getattr(h, "_empty_edges", "n/a"))
    if not deep:
        return d
    q("empty_names", empty_edge_names, h)
    q("hashing", h.expose_attributes_for_hashing)
    q("structures", h.expose_data_structures)
    q("degdist", h.degree_distribution)
    q("isolated_d", h.isolated_nodes)
    for s in (1, 2, 3):
        q(f"degseq_s{s}", h.degree_sequence, size=s)
        q(f"isolated_s{s}", h.isolated_nodes, size=s)
    if kind == "u":
        q("cc", h.connected_components)
        q("connected", h.is_connected)
        for flt in ({}, {"size": 2}, {"size": 3}, {"order": 1}):
            q(f"lcc{flt}", h.largest_component, **flt)
            q(f"lccsize{flt}", h.largest_component_size, **flt)
            q(f"ncc{flt}", h.num_connected_components, **flt)
    if deep >= 2:
        q("mapping", lambda: list(h.get_mapping().classes_))
        if kind == "u":
            q("inc_matrix", lambda: _matrix(h.incidence_matrix(return_mapping=True)))
            q("bin_inc_matrix", lambda: _matrix(h.binary_incidence_matrix(return_mapping=True)))
            q("adj_matrix", lambda: _matrix(h.adjacency_matrix(return_mapping=True)))
    st, nodes = guard(h.get_nodes)
    for n in (nodes if st == "ok" else []):
        q(f"iso{n!r}", h.is_isolated, n)
        for s in (1, 2, 3):
            q(f"nb{n!r}s{s}", h.get_neighbors, n, size=s)
            q(f"inc{n!r}o{s}", h.get_incident_edges, n, order=s)
            q(f"deg{n!r}s{s}", h.degree, n, size=s)
        if kind == "u":
            q(f"ncomp{n!r}", h.node_connected_component, n)
    return d


def _matrix(r):
    m, mp = r
    return (m.toarray().tolist(), mp)


DEEP2 = ("mapping", "inc_matrix", "bin_inc_matrix", "adj_matrix")


def digest_diff(a, b):
    ks = [k for k in sorted(set(a) | set(b)) if a.get(k) != b.get(k)]
    return None if not ks else f"{ks[0]}: {a.get(ks[0])!r} -> {b.get(ks[0])!r}" + (f" (+{len(ks) - 1} more)" if len(ks) > 1 else "")


# ------------------------------------------------------------------------------------------
# tokens for the comparison with the model

def tok_md(md):
    if not isinstance(md, dict):
        return ("not-a-dict", repr(md))
    out = []
    for k, v in md.items():
        out.append((MD_KEYS.index(k) if k in MD_KEYS else repr(k), VAL_POOL.index(v) if v in VAL_POOL else repr(v)))
    return tuple(sorted(out, key=repr))


def tok_hmeta(md):
    out = []
    for k, v in md.items():
        if k == "weighted" and isinstance(v, bool):
            out.append((H_WEIGHTED, int(v)))
        elif k == "type" and v in TYPE_TOK:
            out.append((H_TYPE, TYPE_TOK[v]))
        else:
            out.append((MD_KEYS.index(k) if k in MD_KEYS else repr(k), VAL_POOL.index(v) if v in VAL_POOL else repr(v)))
    return tuple(sorted(out, key=repr))


def tok_aux(case, aux):
    """-> ([((key ranks, node rank), md tokens)] in listing order, [(name index, md tokens)], hypergraph md tokens)"""
    rk = {x: i for i, x in enumerate(case["labels"])}
    f = lambda xs: tuple(rk.get(x, repr(x)) for x in xs) if isinstance(xs, tuple) else repr(xs)  # noqa: E731
    inc = []
    for key, md in aux["inc"].items():
        if not (isinstance(key, tuple) and len(key) == 2):
            inc.append((repr(key), tok_md(md)))
            continue
        e, n = key
        if case["kind"] == "u":
            ek = f(e)
        else:
            ek = (f(e[0]), f(e[1])) if isinstance(e, tuple) and len(e) == 2 else repr(e)
        inc.append(((ek, rk.get(n, repr(n))), tok_md(md)))
    empty = [(EMPTY_NAMES.index(k) if k in EMPTY_NAMES else repr(k), "?" if md is None else tok_md(md)) for k, md in aux["empty"]]
    return (inc, empty, tok_hmeta(aux["hmeta"]))


def tok_snap(case, s):
    """python content -> (weighted, {rank: md tokens}, {rank key: (quanta, md tokens)}, aux tokens)"""
    if s[0] == "exc":
        return s
    L = case["labels"]
    rk = {x: i for i, x in enumerate(L)}
    nodes = {rk.get(n, repr(n)): tok_md(md) for n, md in s[1].items()}
    edges = {}
    for k, (w, md) in s[2].items():
        kk = tuple(rk.get(x, repr(x)) for x in k) if case["kind"] == "u" else \
            (tuple(rk.get(x, repr(x)) for x in k[0]), tuple(rk.get(x, repr(x)) for x in k[1]))
        try:
            q = Fraction(w) / WSCALE if case.get("wscale") else Fraction(w) * 4
            q = int(q) if q.denominator == 1 else repr(w)
        except Exception:  # noqa: BLE001
            q = repr(w)
        edges[kk] = (q, tok_md(md))
    return (s[0], nodes, edges, tok_aux(case, s[3]))


def parse_model(kind, line):
    """`w|n:md;...|key=w=md;...|key@n=md;...|name=md;...|md` -> same shape as tok_snap"""
    def md(t):
        return () if t == "-" else tuple(sorted((tuple(int(x) for x in p.split(":")) for p in t.split(",")), key=repr))

    def ints(t):
        return () if t == "_" else tuple(int(x) for x in t.split(","))
    try:
        w, ns, es, ims, ees, hm = line.split("|")
        nodes = {}
        if ns != "~":
            for item in ns.split(";"):
                n, m = item.split(":", 1)
                nodes[int(n)] = md(m)
        edges = {}
        if es != "~":
            for item in es.split(";"):
                k, q, m = item.split("=")
                kk = ints(k) if kind == "u" else tuple(ints(p) for p in k.split(">"))
                edges[kk] = (int(q), md(m))
        inc = []
        if ims != "~":
            for item in ims.split(";"):
                k, m = item.split("=")
                k, n = k.split("@")
                kk = ints(k) if kind == "u" else tuple(ints(p) for p in k.split(">"))
                inc.append(((kk, int(n)), md(m)))
        empty = []
        if ees != "~":
            for item in ees.split(";"):
                k, m = item.split("=")
                empty.append((int(k), md(m)))
        return (w == "1", nodes, edges, (inc, empty, md(hm)))
    except Exception:  # noqa: BLE001
        return ("unparsable", line)


# ------------------------------------------------------------------------------------------
# selections

def all_selections(rng, case, n_nodes_present, tier_full=True):
    kind = case["kind"]
    sels = []
    if kind == "u":
        present = n_nodes_present
        for r in range(len(present) + 1):
            for sub in itertools.combinations(present, r):
                lst = list(sub)
                rng.shuffle(lst)
                if lst and rng.random() < 0.1:
                    lst.append(rng.choice(lst))
                sels.append({"f": "induced", "nodes": lst})
        for r in range(6):
            for sub in itertools.combinations([1, 2, 3, 4, 5], r):
                lst = list(sub)
                rng.shuffle(lst)
                for keep in (True, False):
                    sels.append({"f": "bysizes", "sizes": lst, "keep": keep})
                    sels.append({"f": "byorders", "orders": [s - 1 for s in lst], "keep": keep})
        for _ in range(6):
            lst = [rng.randint(0, 4) for _ in range(rng.randint(2, 5))]    # repetitions, size 0 / order -1 (nothing has it)
            sels.append({"f": "bysizes", "sizes": lst, "keep": rng.random() < 0.5})
            sels.append({"f": "byorders", "orders": [s - 1 for s in lst], "keep": rng.random() < 0.5})
        for flt in ({}, {"size": 2}, {"size": 3}, {"order": 1}, {"order": 2}, {"order": 0}, {"size": 1}, {"size": 0}):
            sels.append({"f": "lcc", **flt})
        # malformed (model comparison only)
        sels.append({"f": "bysizes", "sizes": None, "keep": True, "malformed": True})
        sels.append({"f": "byorders", "orders": [1], "sizes": [2], "keep": True, "malformed": True})
        if len(present) < len(case["labels"]):
            out = [r for r in range(len(case["labels"])) if r not in present]
            sels.append({"f": "induced", "nodes": list(present[:1]) + out[:1], "malformed": True})
    for up_to in (False, True):
        for keep in (False, True):
            sels.append({"f": "edges", "up_to": up_to, "keep": keep})
            for s in (1, 2, 3, 4, 5):
                sels.append({"f": "edges", "size": s, "up_to": up_to, "keep": keep})
                sels.append({"f": "edges", "order": s - 1, "up_to": up_to, "keep": keep})
    for up_to in (False, True):          # the falsy size / the order below every hyperedge
        sels.append({"f": "edges", "size": 0, "up_to": up_to, "keep": rng.random() < 0.5})
        sels.append({"f": "edges", "order": -1, "up_to": up_to, "keep": rng.random() < 0.5})
    sels.append({"f": "edges", "size": 2, "order": 1, "up_to": False, "keep": True, "malformed": True})
    return with_style(rng, sels)


def with_style(rng, sels):
    for sel in sels:
        sel["sty"] = rng.randrange(1 << 30)       # seed of the call's presentation, see call_selection
    return sels


def sample_selections(rng, case, present, S, k=14):
    """large sources: a sample of every kind of selection (node subsets of every density, lists of sizes up to the
    largest size present, (order|size, up_to, keep) around the sizes present, the largest component)"""
    kind = case["kind"]
    ps = sorted({len(members(kind, e)) for e in S[2]}) or [1]          # the sizes present
    top = ps[-1]
    pool = ps + ps + [0, top + 1, rng.randint(0, top + 1)]
    sels = []
    if kind == "u":
        for _ in range(k):
            dens = rng.choice([0.1, 0.3, 0.5, 0.8, 0.95, 1.0])
            lst = [r for r in present if rng.random() < dens]
            rng.shuffle(lst)
            if lst and rng.random() < 0.2:
                lst.append(rng.choice(lst))
            sels.append({"f": "induced", "nodes": lst})
        for _ in range(k):
            lst = [rng.choice(pool) for _ in range(rng.randint(1, 5))]
            if rng.random() < 0.5:
                sels.append({"f": "bysizes", "sizes": lst, "keep": rng.random() < 0.5})
            else:
                sels.append({"f": "byorders", "orders": [x - 1 for x in lst], "keep": rng.random() < 0.5})
        for flt in ({}, {"size": 2}, {"size": 3}, {"order": 1}, {"size": top}):
            sels.append({"f": "lcc", **flt})
    for _ in range(2 * k):
        x = rng.choice(pool)
        sel = {"f": "edges", "up_to": rng.random() < 0.5, "keep": rng.random() < 0.5}
        if rng.random() < 0.5:
            sel["size"] = x
        else:
            sel["order"] = x - 1
        sels.append(sel)
    sels.append({"f": "edges", "up_to": False, "keep": False})
    return with_style(rng, sels)


def layout_selections(rng, case, present, S):
    """component-layout sources: the largest component under every filter, the induced sub-hypergraph on every connected
    component (a node selection that is exactly the node set of its hyperedges), a few size selections"""
    sels = [{"f": "lcc", **flt} for flt in LCC_FILTERS]
    L = case["labels"]
    rk = {x: i for i, x in enumerate(L)}
    for flt in ({}, {"size": 2}, {"size": 3}):
        for comp in components(case["kind"], S, flt):
            lst = sorted(rk[x] for x in comp)
            rng.shuffle(lst)
            sel = {"f": "induced", "nodes": lst}
            if sel not in sels:
                sels.append(sel)
    for s_ in (1, 2, 3):
        sels.append({"f": "bysizes", "sizes": [s_], "keep": rng.random() < 0.5})
        sels.append({"f": "edges", "size": s_, "up_to": rng.random() < 0.5, "keep": rng.random() < 0.5})
    return with_style(rng, sels)


NODE_CONTAINERS = ["list"] * 9 + ["tuple", "tuple", "set", "set", "frozenset", "dict", "dict_keys", "ndarray", "deque"]
SIZE_CONTAINERS = ["list"] * 8 + ["tuple", "tuple", "set", "frozenset", "dict_keys", "ndarray", "generator", "iterator", "range"]


def np_ok(x):
    return isinstance(x, (int, float, str)) and not isinstance(x, bool) and (not isinstance(x, int) or abs(x) < 2 ** 62)


def present_nodes(case, sel, pr):
    """the node selection as handed to subhypergraph(): fresh equal label objects in a re-iterable collection of a drawn
    type (subhypergraph() walks its argument three times: one-shot iterators are not an input of the unchanged code);
    returns (argument, ranks in the order in which the collection yields them)"""
    L = case["labels"]
    ranks = list(sel["nodes"])
    kind = sel.get("as") or pr.choice(NODE_CONTAINERS)
    labels = [L[r] for r in ranks]
    if kind == "ndarray" and not (labels and all(np_ok(x) for x in labels) and len({type(x) for x in labels}) == 1):
        kind = "list"
    objs = [fresh(x) for x in labels]
    if kind == "list" and pr.random() < 0.08 and all(np_ok(x) and not isinstance(x, str) for x in labels):
        import numpy as np
        objs = [(np.int64(x) if isinstance(x, int) else np.float64(x)) if pr.random() < 0.6 else x for x in objs]
    rk = {x: i for i, x in enumerate(L)}
    if kind == "tuple":
        arg = tuple(objs)
    elif kind in ("set", "frozenset"):
        arg = set(objs) if kind == "set" else frozenset(objs)
    elif kind in ("dict", "dict_keys"):
        arg = {x: pr.randrange(3) for x in objs}
        if kind == "dict_keys":
            arg = arg.keys()
    elif kind == "ndarray":
        import numpy as np
        arg = np.array(objs)
    elif kind == "deque":
        arg = collections.deque(objs)
    else:
        arg = list(objs)
    sel["_cont"] = kind
    return arg, [rk[x.item() if hasattr(x, "item") and not isinstance(x, (int, float, str)) else x] for x in arg]


def present_sizes(vals, sel, pr):
    """a list of sizes / orders as handed to subhypergraph_by_orders(): any iterable (it is walked once);
    returns (argument, values in the order in which it yields them)"""
    kind = sel.get("as") or pr.choice(SIZE_CONTAINERS)
    vals = [int(str(v)) for v in vals]
    if kind == "range" and not (vals and vals == list(range(vals[0], vals[0] + len(vals)))):
        kind = "list"
    if kind == "tuple":
        return tuple(vals), vals
    if kind in ("set", "frozenset"):
        arg = set(vals) if kind == "set" else frozenset(vals)
        return arg, list(arg)
    if kind == "dict_keys":
        arg = dict.fromkeys(vals)
        return arg.keys(), list(arg)
    if kind == "ndarray":
        import numpy as np
        return np.array(vals, dtype=np.int64), vals
    if kind == "generator":
        return (v for v in vals), vals
    if kind == "iterator":
        return iter(list(vals)), vals
    if kind == "range":
        return range(vals[0], vals[0] + len(vals)), vals
    if pr.random() < 0.08:
        import numpy as np
        return [np.int64(v) if pr.random() < 0.6 else v for v in vals], vals
    return list(vals), vals


def scribble_in(arg):
    """overwrite a collection that was handed in (after the call returned): the result must not be built on it"""
    try:
        if isinstance(arg, list):
            arg[:] = ["junk-in"]
        elif isinstance(arg, (set, dict)):
            arg.clear()
        elif isinstance(arg, collections.deque):
            arg.clear()
            arg.append("junk-in")
        elif hasattr(arg, "fill") and arg.dtype.kind in "if" and arg.size:
            arg.fill(arg.max() + 1)
    except Exception:  # noqa: BLE001
        pass


def num_arg(v, pr):
    """an order / size: a fresh int, now and then a numpy integer"""
    if v is None:
        return None
    if pr.random() < 0.06:
        import numpy as np
        return np.int64(v)
    return int(str(v))


def flag_arg(b, pr):
    return (1 if b else 0) if pr.random() < 0.05 else bool(b)


def call_selection(case, h, sel):
    """one extraction call.  The presentation of the call (label objects, collection types, positional / keyword /
    left-out arguments) is drawn from sel["sty"], so a replay repeats it"""
    f = sel["f"]
    pr = _random.Random(sel.get("sty", 0))
    style = pr.randrange(3) if "sty" in sel else 0        # 0: every argument by keyword, 1: defaults left out, 2: positional
    if f == "induced":
        arg, order = present_nodes(case, sel, pr)
        sel["_iter"] = order                               # the order in which the code will meet the nodes
        out = guard(h.subhypergraph, arg) if style != 1 else guard(h.subhypergraph, nodes=arg)
        scribble_in(arg)
        return out
    if f in ("byorders", "bysizes"):
        args = {}
        for name in ("orders", "sizes"):
            if sel.get(name) is not None:
                args[name], sel["_" + name] = present_sizes(sel[name], sel, pr)
            else:
                args[name] = None
        keep = flag_arg(sel["keep"], pr)
        if sel.get("malformed") or style == 0:
            out = guard(h.subhypergraph_by_orders, orders=args["orders"], sizes=args["sizes"], keep_nodes=keep)
        elif style == 1:
            kw = {k: v for k, v in args.items() if v is not None}
            if not sel["keep"] or pr.random() < 0.5:
                kw["keep_nodes"] = keep
            out = guard(h.subhypergraph_by_orders, **kw)
        else:
            out = guard(h.subhypergraph_by_orders, args["orders"], args["sizes"], keep)
        for a in args.values():
            scribble_in(a)
        return out
    if f == "edges":
        order, size = num_arg(sel.get("order"), pr), num_arg(sel.get("size"), pr)
        up_to, keep = flag_arg(sel["up_to"], pr), flag_arg(sel["keep"], pr)
        if sel.get("malformed") or style == 0:
            return guard(h.get_edges, order=order, size=size, up_to=up_to, subhypergraph=True, keep_isolated_nodes=keep)
        if style == 1:
            kw = {"subhypergraph": True}
            if order is not None:
                kw["order"] = order
            if size is not None:
                kw["size"] = size
            if sel["up_to"] or pr.random() < 0.5:
                kw["up_to"] = up_to
            if sel["keep"] or pr.random() < 0.5:
                kw["keep_isolated_nodes"] = keep
            return guard(h.get_edges, **kw)
        return guard(h.get_edges, order, size, up_to, True, keep)
    if f == "lcc":
        order, size = num_arg(sel.get("order"), pr), num_arg(sel.get("size"), pr)
        if style == 0:
            return guard(h.subhypergraph_largest_component, size=size, order=order)
        if style == 1:
            kw = {k: v for k, v in (("size", size), ("order", order)) if v is not None}
            return guard(h.subhypergraph_largest_component, **kw)
        return guard(h.subhypergraph_largest_component, size, order)
    raise ValueError(f)


def expected(case, S, sel, comp=None):
    """the property's words on the content S = (weighted, nodes, edges) of the source"""
    kind = case["kind"]
    L = case["labels"]
    nodes, edges = S[1], S[2]
    size = lambda k: len(members(kind, k))  # noqa: E731
    f = sel["f"]
    if f in ("induced", "lcc"):
        ns = set(L[r] for r in sel["nodes"]) if f == "induced" else set(comp)
        keep = {k: v for k, v in edges.items() if set(members(kind, k)) <= ns}
        return (S[0], {n: nodes[n] for n in ns}, keep)
    if f in ("bysizes", "byorders"):
        sizes = set(sel["sizes"]) if f == "bysizes" else set(o + 1 for o in sel["orders"])
        keep = {k: v for k, v in edges.items() if size(k) in sizes}
        all_nodes = sel["keep"]
    else:
        if sel.get("size") is None and sel.get("order") is None:
            keep = dict(edges)
        else:
            s = sel["size"] if sel.get("size") is not None else sel["order"] + 1
            keep = {k: v for k, v in edges.items() if (size(k) <= s if sel["up_to"] else size(k) == s)}
        all_nodes = sel["keep"]
    if all_nodes:
        return (S[0], dict(nodes), keep)
    used = set(x for k in keep for x in members(kind, k))
    return (S[0], {n: nodes[n] for n in used}, keep)


def components(kind, S, sel):
    """the connected components of the source restricted to the hyperedges passing the filter (own union-find)"""
    nodes, edges = S[1], S[2]
    s = sel.get("size") if sel.get("size") is not None else (sel["order"] + 1 if sel.get("order") is not None else None)
    parent = {n: n for n in nodes}

    def find(x):
        while parent[x] != x:
            parent[x] = parent[parent[x]]
            x = parent[x]
        return x
    for k in edges:
        m = members(kind, k)
        if s is None or len(m) == s:
            for x in m[1:]:
                parent[find(x)] = find(m[0])
    comps = {}
    for n in nodes:
        comps.setdefault(find(n), set()).add(n)
    return list(comps.values())


def largest_components(kind, S, sel):
    """all connected components of maximum size under the filter"""
    comps = components(kind, S, sel)
    best = max((len(c) for c in comps), default=0)
    return [c for c in comps if len(c) == best]


def model_selection(case, sel, comp_ranks=None):
    k = case["kind"]
    f = sel["f"]
    ints = lambda xs: hgxv.enc_list(xs)  # noqa: E731
    if f == "induced":
        return f"{k} induced 0 1 {ints(sel.get('_iter', sel['nodes']))}"
    if f == "lcc":
        return f"{k} lcc 0 1 {ints(comp_ranks)}"
    if f in ("bysizes", "byorders"):
        os_ = sel.get("_orders", sel.get("orders"))
        ss = sel.get("_sizes", sel.get("sizes"))
        return f"{k} byorders 0 1 {'n' if os_ is None else ints(os_)} {'n' if ss is None else ints(ss)} {int(sel['keep'])}"
    return f"{k} edgessub 0 1 {w_opt(sel.get('order'))} {w_opt(sel.get('size'))} {int(sel['up_to'])} {int(sel['keep'])}"


# ------------------------------------------------------------------------------------------
# one source: build, all selections, copy rounds

def warm(case, h):
    """ask every query and every extraction once and drop the answers; case["warm_sels"]: selections to ask as well"""
    kind = case["kind"]
    full_digest(kind, h, deep=1)
    for sel in case.get("warm_sels", []):
        call_selection(case, h, dict(sel))
    calls = [lambda: h.get_edges(subhypergraph=True), lambda: h.get_edges(subhypergraph=True, keep_isolated_nodes=True)]
    for s_ in (0, 1, 2, 3, 4):
        for up_to in (False, True):
            calls.append(lambda s_=s_, up_to=up_to: h.get_edges(size=s_, up_to=up_to, subhypergraph=True))
            calls.append(lambda s_=s_, up_to=up_to: h.get_edges(order=s_, up_to=up_to, subhypergraph=True, keep_isolated_nodes=True))
    calls.append(h.copy)
    if kind == "u":
        calls += [lambda: h.subhypergraph(list(h.get_nodes())), lambda: h.subhypergraph(list(h.get_nodes())[:2]),
                  lambda: h.subhypergraph_by_orders(sizes=[1, 2, 3, 4, 5]), lambda: h.subhypergraph_by_orders(orders=[1], keep_nodes=False),
                  h.subhypergraph_largest_component, lambda: h.subhypergraph_largest_component(size=2)]
    for c in calls:
        guard(c)


def build(case, ops=None):
    """realise a history.  With case["copy_at"] = k the object is replaced by its copy() after k operations and the
    original is mutated by case["junk"] afterwards: the rest of the history (and everything the check does) then runs on
    a COPY whose original changed - for the model a copy is the same value, so nothing changes there.
    With case["warm_at"] = k everything is asked once after k operations (see `warm`)"""
    h = new_object(case)
    outs = []
    for i, op in enumerate(case["history"] if ops is None else ops):
        if case.get("copy_at") == i:
            st, c = guard(h.copy)
            if st == "ok" and c is not None:
                for j in case.get("junk", []):
                    apply_py(case, h, j)
                h = c
        if case.get("warm_at") == i:
            warm(case, h)
        outs.append(apply_py(case, h, op)[0])
    return h, outs


def src_key(case, S):
    if S[0] == "exc":
        return repr(S)
    return repr((case["kind"], S[0], sorted(S[1].items(), key=repr), sorted(S[2].items(), key=repr),
                 sorted(S[3]["inc"].items(), key=repr), S[3]["empty"], sorted(S[3]["hmeta"].items(), key=repr)))


def rank_keys(case, S):
    """canonical rank keys of the hyperedges of the content S (for the mutation generator)"""
    rk = {x: i for i, x in enumerate(case["labels"])}
    out = set()
    for k in S[2]:
        try:
            out.add(tuple(sorted(rk[x] for x in k)) if case["kind"] == "u" else
                    (tuple(sorted(rk[x] for x in k[0])), tuple(sorted(rk[x] for x in k[1]))))
        except Exception:  # noqa: BLE001
            pass
    return out


ORDER_ONLY = [0]


def enough(ctx):
    """the search goes on while only the MODEL comparison differs (a change of the listing order differs on every
    harmless call): it ends after 5 failing inputs (or 3 hangs)"""
    return len(ctx.violations) >= 5 or TIMEOUTS[0] >= 3


def check_source(ctx, drv, case, only=None):
    """never lets an exception of the implementation (or caused by an unexpected answer of it) escape: on the
    unchanged tree none occurs, so under a changed tree it is an observation about the implementation"""
    case = {**case, "labels": [norm_label(x) for x in case["labels"]]}
    if len(ctx.disagreements) >= 5:
        drv = None                      # the model comparison has said what it had to say; the oracles go on
    try:
        _check_source(ctx, drv, case, only)
    except RuntimeError as e:
        if "lean driver" in str(e):
            raise
        ctx.violation({**case, "sel": None}, f"exception while exercising the implementation: RuntimeError: {e}")
    except Exception as e:  # noqa: BLE001
        import traceback
        tbs = traceback.extract_tb(e.__traceback__)
        tb = ([t for t in tbs if t.filename.endswith("c05.py")] or tbs)[-1]
        ctx.violation({**case, "sel": None},
                      f"exception while exercising the implementation: {type(e).__name__}: {str(e)[:120]} ({tb.name}:{tb.lineno})")
    if TIMEOUTS[0] >= 3:
        ctx.violation({**case, "sel": None}, "calls of the implementation did not return within 10 s (3 times)")


def _check_source(ctx, drv, case, only=None):
    kind = case["kind"]
    L = case["labels"]
    h, outs = build(case)
    S = snap(h)
    if S[0] == "exc":
        ctx.violation({**case, "sel": None}, "the source cannot be observed through the public API: " + str(S[1]))
        return
    modelled = not case.get("extended")
    if modelled:
        lines = [f"{kind} new 0 {int(case['weighted'])}"] + [model_line(case, 0, op) for op in case["history"]] + [f"{kind} q 0"]
        want = ["ok"] + [("ok" if o == "ok" else "rej") for o in outs] + [tok_snap(case, S)]
    else:
        lines, want = [], []
    tags = [("build", None)] * len(lines)
    present = [r for r, x in enumerate(L) if x in S[1]]
    if only is None:
        rng = ctx.rng
        if case.get("layout"):
            sels = layout_selections(rng, case, present, S)
        elif case.get("large"):
            sels = sample_selections(rng, case, present, S)
        else:
            sels = all_selections(rng, case, present)
        for sel in sels:
            if not sel.get("malformed") and rng.random() < 0.02:
                sel["copy_result"] = True
            if not sel.get("malformed") and rng.random() < 0.03:
                sel["result_lives"] = gen_ops(rng, kind, S[0], len(L), set(), rng.randint(2, 5), p_aux=0.0, ov=case.get("ov", 0.0))
        pk = rank_keys(case, S)
        incs = [list(x) for x in case.get("incs", [])]

        def ops(ext=False):
            out = _ops(ext)
            if incs and rng.random() < 0.5:
                # an in-place edit of an incidence dict that exists: the only call through which a copy that shares
                # the per-incidence dicts with its original shows
                raw, node = rng.choice(incs)
                out.insert(rng.randint(0, len(out)), ["attri", raw, node, rng.randrange(3), rng.randrange(len(VAL_POOL))])
            return out

        def _ops(ext=False):
            return gen_ops(rng, kind, S[0], len(L), pk if rng.random() < 0.7 else set(), rng.randint(2 if ext else 1, 6),
                           extended=ext, p_aux=rng.choice([0.1, 0.35]), incs=list(incs), ov=case.get("ov", 0.0))
        copies = [{"f": "copy", "ops_cp": ops(), "ops_orig": ops(),
                   "order": [rng.random() < 0.5 for _ in range(12)]}
                  for _ in range((1 if rng.random() < 0.3 else 0) if case.get("layout") or case.get("large") else 2)]
        if not case.get("layout"):
            copies.append({"f": "copy", "extended": True, "ops_cp": ops(True), "ops_orig": ops(True), "order": []})
    else:
        sels = [s for s in only if s.get("f") != "copy"]
        copies = [s for s in only if s.get("f") == "copy"]
    before = full_digest(kind, h)
    deep_before = full_digest(kind, h, deep=2)
    skey = src_key(case, S)
    for sel in sels:
        full = {**case, "sel": sel}
        st, r = call_selection(case, h, sel)
        after = full_digest(kind, h)
        dd = digest_diff(before, after)
        if dd:
            ctx.violation(full, f"{sel} changed the source: {dd}")
            before = after
        malformed = sel.get("malformed", False)
        comp = None
        if sel["f"] == "lcc":
            stc, comp = guard(h.largest_component, size=sel.get("size"), order=sel.get("order"))
            if stc != "ok":
                comp = None
        nontrivial = False
        got = None
        if st == "ok":
            got = snap(r)
            if got[0] == "exc":
                ctx.violation(full, f"{sel}: the result cannot be observed: {got[1]}")
                got = None
        if st == "ok" and got is not None and sel.get("copy_result"):
            # the extracted object is an object like any other: its copy is equal to it
            d_r = full_digest(kind, r, deep=2)
            stc2, rc = guard(r.copy)
            if stc2 != "ok":
                ctx.violation(full, f"copy() of the result of {sel} raised {rc}")
            else:
                dd = digest_diff(d_r, full_digest(kind, rc, deep=2))
                if dd:
                    ctx.violation(full, f"copy() of the result of {sel} is not equal to it: {dd}")
            ctx.count("copies_of_results")
        if st == "ok" and got is not None and sel.get("result_lives"):
            # the extracted object is a full object: it takes a further history like an object built by hand with the
            # same content (nodes and hyperedges inserted in the result's listing order)
            why = lives_like_twin(case, r, got, sel["result_lives"])
            if why:
                ctx.violation(full, f"the result of {sel} mutated by {sel['result_lives']} differs from a hand-built object "
                                    f"with the result's content under the same calls: {why}")
            dd = digest_diff(before, full_digest(kind, h))
            if dd:
                ctx.violation(full, f"mutating the result of {sel} changed the source: {dd}")
            ctx.count("results_mutated")
            st2, r = call_selection(case, h, sel)            # a fresh result for the oracles below
            got = snap(r) if st2 == "ok" else None
            if got is None or got[0] == "exc":
                ctx.violation(full, f"{sel}: the second call raised / cannot be observed")
                got, st = None, "exc"
        if not malformed:
            if st != "ok":
                if not (sel["f"] == "lcc" and not S[1]):       # largest component of the empty hypergraph: max() of nothing
                    ctx.violation(full, f"{sel} raised {r}")
            elif got is not None:
                if sel["f"] == "lcc":
                    if comp is None:
                        ctx.violation(full, f"largest_component({sel}) raised")
                    elif not any(set(comp) == c for c in largest_components(kind, S, sel)) or len(set(comp)) != len(list(comp)):
                        ctx.violation(full, f"largest_component{sel} = {sorted(comp, key=repr)} is not a connected component of maximum size")
                exp = expected(case, S, sel, comp) if not (sel["f"] == "lcc" and comp is None) else None
                if exp is not None:
                    if got[0] != exp[0]:
                        ctx.violation(full, f"{sel}: is_weighted() = {got[0]}, source {exp[0]}")
                    if got[2] != exp[2]:
                        ctx.violation(full, f"{sel}: hyperedges/weights/metadata {got[2]} != selected part of the source {exp[2]}")
                    if set(got[1]) != set(exp[1]):
                        ctx.violation(full, f"{sel}: node set {sorted(got[1], key=repr)} != documented {sorted(exp[1], key=repr)}")
                    elif got[1] != exp[1]:
                        ctx.violation(full, f"{sel}: node metadata {got[1]} != source's {exp[1]}")
                    why = incidence_ok(kind, r, got)
                    if why:
                        ctx.violation(full, f"{sel}: result is not a consistent hypergraph: {why}")
                    nontrivial = 0 < len(exp[2]) < len(S[2])
                    ctx.count("shared_node_metadata_objects",
                              sum(1 for n in got[1] if n in S[1] and got[1][n] is S[1][n]))
                    ctx.count("shared_edge_metadata_objects",
                              sum(1 for k in got[2] if k in S[2] and got[2][k][1] is S[2][k][1]))
        ctx.case(skey + repr(sorted((k, v) for k, v in sel.items() if k != "sty" and not k.startswith("_") and k != "result_lives")),
                 nontrivial, sample=full if nontrivial else None)
        ctx.count("sel_" + sel["f"] + ("_malformed" if malformed else ""))
        if sel.get("_cont"):
            ctx.count("node_selection_as_" + sel["_cont"])
        if st != "ok":
            ctx.count("rejected_selections")
        if case.get("layout") and sel["f"] == "lcc" and comp is not None:
            sizes = sorted(len(c) for c in components(kind, S, sel))
            ctx.count("lcc_layout_" + ("tie" if sizes[-2:-1] == sizes[-1:] else "gap1" if sizes[-2:-1] == [sizes[-1] - 1] else "other"))
        # model
        if not modelled or (sel["f"] == "lcc" and comp is None):
            continue
        rk = {x: i for i, x in enumerate(L)}
        lines.append(model_selection(case, sel, [rk[x] for x in comp] if comp is not None else None))
        want.append("ok" if st == "ok" else "rej")
        tags.append(("sel", full))
        if st == "ok" and got is not None:
            lines.append(f"{kind} q 1")
            want.append(tok_snap(case, got))
            tags.append(("result", full))
        lines.append(f"{kind} q 0")
        want.append(tok_snap(case, S))
        tags.append(("source-after", full))
        if enough(ctx):
            break

    dd = digest_diff(deep_before, full_digest(kind, h, deep=2))
    if dd:
        ctx.violation({**case, "sel": None}, f"the extractions changed the source: {dd}")
    for cp in copies:
        check_copy(ctx, case, h, S, cp, lines, want, tags, skey)
    if only is None and not enough(ctx) and (not case.get("layout") or ctx.rng.random() < 0.25):
        # ask, change the object in place, ask again: the same selections on the same object after a few further
        # calls (half of the time calls that leave the cheap signatures - numbers of nodes / hyperedges - as they are)
        rng = ctx.rng
        asked = [{k: v for k, v in sel.items() if not k.startswith("_") and k not in ("copy_result", "result_lives")}
                 for sel in sels if not sel.get("malformed")]
        again = rng.sample(asked, min(len(asked), 14))
        if rng.random() < 0.5:
            more = gen_silent_ops(rng, case, S, rng.randint(1, 3))
        else:
            more = gen_ops(rng, kind, S[0], len(L), rank_keys(case, S), rng.randint(1, 3), p_aux=0.1,
                           incs=[list(x) for x in case.get("incs", [])], ov=case.get("ov", 0.0))
        if again and more:
            hist = list(case["history"])
            case2 = {**case, "history": hist + more, "warm_at": len(hist), "warm_sels": again, "again": True}
            ctx.count("sources_asked_again_after_a_change")
            _check_source(ctx, drv, case2, only=[dict(sel) for sel in again])
    if only is not None and case.get("again"):
        return _finish_model(ctx, drv, case, lines, want, tags, modelled)
    ctx.count("sources_" + ("layout" if case.get("layout") else "extended" if case.get("extended") else "modelled"))
    if case.get("large"):
        ctx.count("sources_large")
    if case.get("warm_at") is not None:
        ctx.count("sources_warmed_in_mid_history")
    if case.get("wscale"):
        ctx.count("sources_with_integer_weights_beyond_2^60")
    ctx.count("labels_" + label_class(L))
    if kind == "d":
        ov = sum(1 for k in S[2] if set(k[0]) & set(k[1]))
        ctx.count("directed_sources_with_overlapping_sides" if ov else "directed_sources_disjoint_sides")
        ctx.count("directed_hyperedges_with_overlapping_sides", ov)
        ctx.count("directed_hyperedges_with_an_empty_side", sum(1 for k in S[2] if not k[0] or not k[1]))
    elif () in S[2]:
        ctx.count("sources_with_the_nodeless_hyperedge")

    _finish_model(ctx, drv, case, lines, want, tags, modelled)


def _finish_model(ctx, drv, case, lines, want, tags, modelled):
    kind = case["kind"]
    if drv is None or not modelled:
        return
    ans = drv.batch(lines)
    for ln, a, w, (tag, full) in zip(lines, ans, want, tags):
        got = a if isinstance(w, str) else parse_model(kind, a)
        same = got == w
        if same and not isinstance(w, str) and w[0] != "exc" and ORDER_ONLY[0] < 2:
            # the model mirrors the construction order of the code: listings must also agree as sequences
            # (incidence metadata and empty edges are compared as sequences already).  The property does not speak
            # about listing order: such a difference is reported twice per run, afterwards contents only are compared
            # so that the search for a failing input goes on
            same = list(got[1]) == list(w[1]) and list(got[2]) == list(w[2])
            if not same:
                ORDER_ONLY[0] += 1
                ctx.count("order_only_differences")
                ctx.disagree(full if full is not None else {**case, "sel": None},
                             f"[{tag}] (listing order only) model answers {a!r} to {ln!r}, implementation gives {w!r}")
                continue
        if not same:
            ctx.disagree(full if full is not None else {**case, "sel": None},
                         f"[{tag}] model answers {a!r} to {ln!r}, implementation gives {w!r}")
            break


def lives_like_twin(case, r, got, ops):
    """apply `ops` to the result r and to a twin built by hand from the content `got` of r; compare every public query
    (level 0: no internal ids).  Structural calls only - the metadata dicts of a result are those of the source by design"""
    kind = case["kind"]
    twin = new_object({**case, "weighted": got[0]})
    for n, md in got[1].items():
        twin.add_node(n, _copy.deepcopy(md))
    for k, (w, md) in got[2].items():
        twin.add_edge(k, w if got[0] else None, _copy.deepcopy(md))
    def dig(o):      # without the queries that show internal ids
        return {k: v for k, v in full_digest(kind, o).items() if k not in ("adj", "adj_s", "adj_t", "edge_list", "empty_private")}
    dd = digest_diff(dig(twin), dig(r))
    if dd:
        return "before any call: " + dd
    outs_r = [apply_py(case, r, op)[0] for op in ops if op[0] not in ("attrn", "attre")]
    outs_t = [apply_py(case, twin, op)[0] for op in ops if op[0] not in ("attrn", "attre")]
    if outs_r != outs_t:
        return f"accepted / rejected calls {outs_r} vs {outs_t}"
    return digest_diff(dig(twin), dig(r))


def check_copy(ctx, case, h, S, cp, lines, want, tags, skey):
    """h is left unchanged: the 'original' that is mutated is itself a fresh rebuild of the same history"""
    kind = case["kind"]
    full = {**case, "sel": cp}
    orig, _ = build(case)
    d0 = full_digest(kind, orig, deep=2)
    st, c = guard(orig.copy)
    if st != "ok":
        ctx.violation(full, f"copy() raised {c}")
        return
    if c is orig or type(c) is not type(orig):
        ctx.violation(full, "copy() returned the object itself / another type")
        return
    dd = digest_diff(d0, full_digest(kind, c, deep=2))
    if dd:
        ctx.violation(full, f"copy() is not equal to the original: {dd}")
    d0 = {k: v for k, v in d0.items() if k not in DEEP2}
    dd = digest_diff(d0, full_digest(kind, orig, deep=1))
    if dd:
        ctx.violation(full, f"copy() changed the original: {dd}")
    # (1) mutate the copy only -> original as before
    changed_cp = changed_orig = False
    outs_cp = []
    for op in cp["ops_cp"]:
        outs_cp.append(apply_py(case, c, op)[0])
    d_cp = full_digest(kind, c, deep=1)
    changed_cp = digest_diff(d0, d_cp) is not None
    dd = digest_diff(d0, full_digest(kind, orig, deep=1))
    if dd:
        ctx.violation(full, f"mutating the copy ({cp['ops_cp']}) changed the original: {dd}")
    # (2) mutate the original only -> copy as before
    outs_orig = []
    for op in cp["ops_orig"]:
        outs_orig.append(apply_py(case, orig, op)[0])
    d_orig = full_digest(kind, orig, deep=1)
    changed_orig = digest_diff(d0, d_orig) is not None
    dd = digest_diff(d_cp, full_digest(kind, c, deep=1))
    if dd:
        ctx.violation(full, f"mutating the original ({cp['ops_orig']}) changed the copy: {dd}")
    # (3) each equals a never-copied object with the same history, and accepted / rejected the same calls
    for name, obj_d, ops, outs in (("original", d_orig, cp["ops_orig"], outs_orig), ("copy", d_cp, cp["ops_cp"], outs_cp)):
        ref, routs = build(case, case["history"] + ops)
        dd = digest_diff(full_digest(kind, ref, deep=1), obj_d)
        if dd:
            ctx.violation(full, f"the {name} after its mutations differs from a never-copied object with the same history: {dd}")
        routs = routs[len(case["history"]):]
        if routs != outs:
            i = [a == b for a, b in zip(routs, outs)].index(False)
            ctx.violation(full, f"the {name} {'accepted' if outs[i] == 'ok' else 'rejected'} {ops[i]} which a never-copied object "
                                f"with the same history {'accepted' if routs[i] == 'ok' else 'rejected'}")
    # (4) a copy of the (mutated) copy equals it
    st2, c2 = guard(c.copy)
    if st2 != "ok":
        ctx.violation(full, f"copy() of the mutated copy raised {c2}")
    else:
        dd = digest_diff(d_cp, full_digest(kind, c2, deep=1))
        if dd:
            ctx.violation(full, f"the copy of the mutated copy is not equal to it: {dd}")
    ctx.case(skey + repr(sorted(cp.items(), key=repr)), changed_cp and changed_orig, sample=None)
    ctx.count("sel_copy" + ("_extended" if cp.get("extended") else ""))
    if cp.get("extended"):
        return
    # model: slot 2 := copy of slot 0, slot 3 := copy of slot 0 standing for the original that is mutated; interleave
    lines += [f"{kind} copy 0 2", f"{kind} copy 0 3"]
    want += ["ok", "ok"]
    tags += [("copy", full)] * 2
    a, b = list(zip(cp["ops_cp"], outs_cp)), list(zip(cp["ops_orig"], outs_orig))
    order = list(cp.get("order", []))
    while a or b:
        first = (order.pop(0) if order else True)
        if (first and a) or not b:
            op, o = a.pop(0)
            lines.append(model_line(case, 2, op))
        else:
            op, o = b.pop(0)
            lines.append(model_line(case, 3, op))
        want.append("ok" if o == "ok" else "rej")
        tags.append(("copy-op", full))
    for slot, obj in ((2, c), (3, orig)):
        s = snap(obj)
        lines.append(f"{kind} q {slot}")
        want.append(tok_snap(case, s))
        tags.append(("copy-state", full))
    lines.append(f"{kind} q 0")
    want.append(tok_snap(case, S))
    tags.append(("source-after-copy", full))


# ------------------------------------------------------------------------------------------

FIXED_SOURCES = [
    # the DESIGN's D19 example: weights 5.0 and 7.0, ids 0 and 1
    {"kind": "u", "weighted": True, "labels": [1, 2, 3, 4, 9],
     "history": [["addnode", 4, [[2, 0]]], ["addnode", 0, [[0, 0]]], ["addedge", [0, 1], 20, [[1, 1]]],
                 ["addedge", [1, 2, 3], 28, [[1, 2]]], ["addedge", [3], 8, None]]},
    {"kind": "d", "weighted": True, "labels": [1, 2, 3, 4, 9],
     "history": [["addnode", 4, [[2, 0]]], ["addnode", 0, [[0, 0]]], ["addedge", [[0], [1]], 20, [[1, 1]]],
                 ["addedge", [[1, 2], [3]], 28, [[1, 2]]]]},
    {"kind": "u", "weighted": False, "labels": ["A", "B", "C"], "history": []},
    # incidence metadata (one stored under an unsorted tuple, one of a hyperedge removed afterwards), empty edges,
    # hypergraph-level metadata
    {"kind": "u", "weighted": True, "labels": ["a", "b", "c", "d", "iso"], "incs": [[[1, 0, 2], 0], [[1, 3], 3]],
     "history": [["addnode", 4, [[0, 1]]], ["addedge", [0, 1, 2], 10, [[1, 1]]], ["addedge", [1, 3], 2, None],
                 ["addedge", [2], 28, None], ["setim", [1, 0, 2], 0, [[0, 0]]], ["setim", [1, 3], 3, [[1, 1]]],
                 ["setim", [2], 2, []], ["rmedge", [2]], ["addempty", 0, [[2, 3]]], ["addempty", 2, []],
                 ["attrh", 0, 4], ["attri", [1, 0, 2], 0, 2, 5]]},
    {"kind": "d", "weighted": False, "labels": [3, 5, 8, 13], "incs": [[[[1], [0, 2]], 2]],
     "history": [["addedge", [[1], [2, 0]], None, [[0, 0]]], ["addedge", [[3], [1]], None, None],
                 ["setim", [[1], [0, 2]], 2, [[0, 6]]], ["setim", [[3], [1]], 0, []], ["sethm", [[1, 1]]], ["attrh", 2, 0]]},
    # node identifiers as they come out of an edge-list file: every record parsed on its own, a node of several
    # hyperedges is several equal int objects (ints beyond the small-int cache); the same with run-time strings
    {"kind": "u", "weighted": True, "labels": [1001, 1002, 1003, 1004, 1005, 1006, 1007],
     "history": [["addedge", [0, 1], 6, [[0, 0]]], ["addedge", [0, 2, 3], 10, [[0, 1]]], ["addedge", [3, 4], 14, None],
                 ["addedge", [5, 6], 18, None], ["addedge", [0], 22, [[1, 2]]], ["setnm", 0, [[2, 1]]]]},
    {"kind": "u", "weighted": False, "labels": ["gene-a", "gene-b", "gene-c", "gene-d", "x"],
     "history": [["addedge", [1, 0], None, [[0, 0]]], ["addedge", [2, 1, 3], None, None], ["addedge", [3, 0], None, None],
                 ["addnode", 4, [[1, 1]]], ["addedge", [1], None, None]]},
    # directed hyperedges whose source and target overlap (feedback hyperedge, identical sides, self-loop), an empty
    # side; sizes as get_sizes() reports them: 3, 2, 4, 2, 3, 1
    {"kind": "d", "weighted": True, "labels": [1, 2, 3, 4, 5, 6, 7, 8], "ov": 0.5,
     "history": [["addnode", 7, [[0, 1]]], ["addedge", [[0], [0, 1]], 4, None], ["addedge", [[2], [3]], 8, [[1, 1]]],
                 ["addedge", [[1, 4], [4, 1]], 12, None], ["addedge", [[5], [5]], 16, [[2, 2]]],
                 ["addedge", [[0, 1], [2]], 20, None], ["addedge", [[], [6]], 24, None], ["setnm", 5, [[0, 3]]]]},
    {"kind": "d", "weighted": False, "labels": ["p", "q", "rr", "ss"], "ov": 0.5,
     "history": [["addedge", [[0], [0]], None, [[0, 0]]], ["addedge", [[0, 1], [1, 2]], None, None],
                 ["addedge", [[3], [3, 0]], None, None], ["addedge", [[2], [1]], None, [[1, 4]]], ["rmedge", [[0], [0]]],
                 ["addedge", [[1], [1]], None, None]]},
    # integer weights far beyond 2**53 (q * (2**60 + 1)): exact as ints, not as floats
    {"kind": "u", "weighted": True, "labels": [300, 301, 302, 303], "wscale": True,
     "history": [["addedge", [0, 1], 3, None], ["addedge", [1, 2, 3], 5, [[0, 0]]], ["addedge", [1, 0], 7, None], ["addedge", [3], 1, None]]},
    # the node-less hyperedge () has size 0 (order -1)
    {"kind": "u", "weighted": True, "labels": [0, 1, 2], "ov": 0.5,
     "history": [["addedge", [], 6, [[0, 2]]], ["addedge", [0, 1], 10, None], ["addnode", 2, None], ["addedge", [1], 4, None]]},
]


def layout_grid(rng, rounds, all_modes):
    """every layout x every order of first appearance x every mode (quick: for three components one mode drawn per
    layout and order), `rounds` times (fresh random details each time)"""
    out = []
    for _ in range(rounds):
        for sizes in LAYOUTS:
            for perm in itertools.permutations(range(len(sizes))):
                modes = layout_modes(sizes)
                for mode in (modes if all_modes or len(sizes) == 2 else [rng.choice(modes)]):
                    out.append((sizes, perm, mode))
    return out


def gen_source_large(rng, kind=None):
    """SIZE is a dimension: 20-70 nodes (sizes around powers of two included), one to three hyperedges per node"""
    n = rng.choice([20, 31, 32, 33, 48, 63, 64, 65, 70])
    return {**gen_source(rng, n=n, length=rng.randint(n, 3 * n), labels=gen_labels_large, top=rng.choice([9, 12, 17]), kind=kind), "large": True}


def gen_labels_large(rng, n):
    r = rng.random()
    if r < 0.3:
        return sorted(rng.sample(range(0, 3 * n), n))
    if r < 0.6:
        return sorted(rng.sample(range(257, 100000), n))
    if r < 0.8:
        return sorted("v%03d" % i for i in rng.sample(range(1000), n))
    return sorted(rng.sample([i / 8 for i in range(1, 2000, 3)] + [2 ** 63 + i for i in range(100)], n))


def run(ctx):
    drv = ctx.driver() if ctx.model_available else None
    n = ctx.scale(26, 520)
    n_ext = ctx.scale(6, 120)
    n_large = ctx.scale(2, 30)
    grid = layout_grid(ctx.rng, ctx.scale(1, 4), ctx.tier != "quick")

    def stop():
        return enough(ctx) or (ctx.time_left() is not None and ctx.time_left() < 15)
    for case in FIXED_SOURCES:
        if not stop():
            check_source(ctx, drv, case)
    # interleave the three classes so that a run cut short by the budget has seen all of them
    gi = 0
    n_large_done = 0
    per = max(1, -(-len(grid) // max(1, n)))
    for i in range(n):
        if stop():
            break
        check_source(ctx, drv, gen_source(ctx.rng))
        if i < n_ext * 4 and i % 4 == 0 and not stop():
            check_source(ctx, drv, gen_source_extended(ctx.rng))
        if i % max(1, n // n_large) == 1 and not stop():
            n_large_done += 1
            check_source(ctx, drv, gen_source_large(ctx.rng, "ud"[n_large_done % 2]))
        for sizes, perm, mode in grid[gi:gi + per]:
            if stop():
                break
            check_source(ctx, drv, gen_layout_source(ctx.rng, sizes, perm, mode))
        gi += per


def replay(ctx, case):
    drv = ctx.driver() if ctx.model_available else None
    case = dict(case)
    sel = case.pop("sel", None)
    check_source(ctx, drv, case, only=None if sel is None else [sel])
