"""C05 - sub-hypergraph extraction and copy: correspondence of lean/Hgxv/Model/C05.lean with
Hypergraph / DirectedHypergraph (subhypergraph, subhypergraph_by_orders, get_edges(subhypergraph=True),
subhypergraph_largest_component, copy) and independent property oracles on the implementation."""
import collections
import copy as _copy
import itertools
import random as _random
import signal
import zlib
from fractions import Fraction

import hgxv

RULE = ("sources: random histories (add_node/add_edge with re-insertion in permuted node order, remove_edge, set_weight, "
        "set_*_metadata, set_attr_*, set_incidence_metadata / in-place edits of an incidence dict, add_empty_edge, "
        "set_hypergraph_metadata, set_attr_to_hypergraph_metadata) on 3-6 nodes, weighted and "
        "unweighted, Hypergraph and DirectedHypergraph, with isolated nodes, singleton hyperedges, node, hyperedge, incidence "
        "and hypergraph metadata, empty edges; label universes of every comparable kind (small ints, exactly 0..n-1, ints beyond "
        "the small-int cache, negative ints, ints around 2**53 / 2**63 / 2**64, run-time strings incl. '' and one-letter ones, "
        "non-integer and huge floats, ints mixed with floats, tuples), EVERY call receives freshly constructed equal label objects; "
        "half of the directed sources hold hyperedges whose source and target sets overlap (self-loop, feedback hyperedge, identical "
        "sides) or with an empty side, a fifth of the undirected ones the node-less hyperedge (); a tenth of the weighted sources "
        "has integer weights beyond 2**60; 'extended' sources whose history also has remove_node (with and without keep_edges), "
        "clear, add_nodes (Hypergraph: also with the metadata table, complete / an entry missing) - sent to the model like the others "
        "unless they share one dict object between items or hold weights of every numeric kind; copy rounds with these calls too; 'large' sources (20-70 nodes, hyperedges up to size 17, a sample of selections); "
        "'component layout' sources: 2 or 3 connected components (w.r.t. no filter, "
        "size 2 or size 3) of prescribed nearly equal sizes (k,k+1 / k,k / k,k,k+1 / ...), EVERY order of first appearance of "
        "the components in the node listing, bridges of other sizes, a temporary bridge removed again, with the largest "
        "component for no filter / size 1..4 / order 0..3 and the induced sub-hypergraph on every component; a quarter of the "
        "random sources is reached through copy() in the middle of the history with the original mutated afterwards, a fifth is "
        "asked every query and extraction once in the middle of its history; per source EVERY node "
        "subset (shuffled, some with repetitions; as list, tuple, set, frozenset, dict, dict keys, numpy array, deque, some with numpy "
        "scalars), EVERY subset of sizes {1..5} as sizes= and as orders= with both "
        "keep_nodes (plus lists with repeated sizes; as list, tuple, set, frozenset, dict keys, numpy array, range, generator, iterator), "
        "EVERY (order|size in none,1..5 / 0..4, up_to, keep_isolated_nodes) "
        "combination of get_edges(subhypergraph=True) plus size 0 / order -1, the largest component for no filter / size 0..3 / "
        "order 0..2; collections handed in are "
        "overwritten after the call; after all selections the source is changed in place by 1-3 calls (half of the time calls that keep "
        "the numbers of nodes and hyperedges) and 14 of the selections are asked again; copy() of 2 % of the results, 3 % of the results "
        "take a further history side by side with a hand-built object of the same content; copy() followed by random mutations of copy "
        "and original (equality = "
        "every public getter incl. incidence metadata, empty edges, matrices, components, serialisation views; same "
        "accepted/rejected calls as a never-copied object; copy of the mutated copy); "
        "metadata VALUES (node, hyperedge, incidence, hypergraph-level, empty-edge metadata) and attribute names per source: 'plain' "
        "(JSON-like) / 'rich' = objects of every kind copy.deepcopy accepts (nan, +-inf, -0.0, lambdas, local functions with closures, "
        "builtins, class objects, instances of local classes with and without __eq__ / with __slots__, enum members of a local Enum, "
        "sets, frozensets, bytes, bytearray, complex, Fraction, Decimal incl. NaN, nested containers with int / tuple / None keys, "
        "numpy arrays and scalars incl. nan, ints beyond 2**64, bools, dates, a cyclic list, a 40-deep list, bound methods, partials, "
        "exception objects, long strings / lists; attribute names 0, ('k', 1), None) / 'all' = also objects deepcopy refuses (generator, "
        "lock, memoryview: extractions only, no copy()); every call receives FRESH value objects; extended sources also with weights of "
        "every numeric kind (nan, +-inf, 0, 2**70+1, Fraction, numpy float, 1e308, 5e-324, negative) and with ONE dict object handed to "
        "several items; get_edges with EVERY combination of (order | size | neither) x up_to x subhypergraph x keep_isolated_nodes x "
        "metadata (not mentioned / True, some False), the returned TYPE checked first (hypergraph of the source's class / list / dict), "
        "every call with a drawn number of leading positional arguments, the rest by keyword, defaults left out half of the time, flags "
        "as bool / 1 / 0 / numpy bool / None; 8 calls per source are repeated as the FIRST call on a freshly built, never queried "
        "twin, 40 % of the copy rounds copy a never queried object; "
        "a small malformed stream (order and size together, neither "
        "orders nor sizes, a node outside the hypergraph) is compared with the model only.  A case = (source, selection); "
        "distinct by canonical content + selection; non-trivial when the selection keeps >= 1 and drops >= 1 hyperedge "
        "(copy: both mutation lists change something)")
ASSUMPTIONS = ["'copy() returns an EQUAL hypergraph' is read as: every public getter of the copy gives a structurally equal answer (same "
               "types, same values; instances by class and attributes; a NaN equals a NaN) AND each public listing (nodes / hyperedges with "
               "metadata, weights, hypergraph / incidence metadata) of the copy compares equal to the original's with Python's == - which is "
               "what copy.deepcopy guarantees for every value it accepts, a nan weight or a nan inside metadata included (deepcopy hands "
               "floats over as the very object and container == looks at identity first); values whose == is elementwise (numpy arrays) or "
               "identity (instances without __eq__) are compared by structure.  No more is demanded (e.g. not `nan == nan`)",
               "'with their original weights and metadata' (extractions): weights equal as numbers (or both NaN), metadata structurally equal; "
               "whether the metadata dicts of a result are the source's objects or copies is not demanded (counted only)",
               "a hypergraph holding a value that copy.deepcopy refuses (generator, lock, memoryview) has no copy() on the unchanged tree: "
               "such sources get every extraction but no copy round",
               "get_edges(subhypergraph=False, keep_isolated_nodes=True) is documented to raise: nothing is demanded of it; the plain listings "
               "(subhypergraph=False) are checked as observations of the same selection (type first, then the hyperedges of the selection, "
               "each once, with the metadata of the per-hyperedge getter)",
               "hyperedges of Hypergraph are duplicate-free node tuples (C01's quantifier: add_edge links a repeated node twice, remove_edge "
               "unlinks it once) and each side of a directed hyperedge is duplicate-free; the two sides of a directed hyperedge MAY overlap "
               "or be empty (add_edge accepts them, every extraction and copy() handles them; size = len(source) + len(target) as "
               "get_sizes() / get_orders() report it, a node on both sides counts twice)",
               "DirectedHypergraph.remove_node is never applied to a node that is source AND target of one hyperedge: on the unchanged "
               "tree it raises half-way (the hyperedge is removed once as source hyperedge, then looked for again as target hyperedge); "
               "C02's quantifier has disjoint sides, the histories here skip exactly these removals",
               "labels are mapped to their rank in sorted order, metadata keys/values and weights (multiples of 1/4, or integer multiples of "
               "2**60+1) to tokens before they reach the model; labels of one source are mutually comparable (add_edge sorts)",
               "node selections are re-iterable collections: subhypergraph() walks its argument three times, a one-shot iterator is not an "
               "input of the unchanged code (lists of orders / sizes are walked once: generators and iterators are used there)",
               "requested node lists are subsets of the source's nodes (the quantifier); lists outside are only compared with the model's rejection",
               "listing ORDER of the result is compared with the model only (the property does not speak about it): an order-only difference is "
               "reported as a correspondence break twice per run, afterwards contents only are compared and the search for a failing input goes on"]
TRUSTED = ["largest_component(size, order) is taken as returned by utils/cc.py (model parameter `comp`); the harness checks with its own "
           "union-find that it is a connected component of maximum size under the filter",
           "copy.deepcopy semantics (the model's copy is the identity on values; metadata values and attribute names reach the model as "
           "tokens - index of the value's kind -, so WHICH objects the values are is visible to the Python oracles only)",
           "empty edges have no public getter: their names are observed by add_empty_edge on a stdlib deepcopy of the object "
           "(a duplicate name raises), their metadata through the attribute _empty_edges where it exists"]
BUDGET_S = {"quick": 70, "thorough": 1500}

MD_KEYS = ["a", "b", "c", 0, ("k", 1), None]     # attribute names: the first three in every source, all six in 'rich' ones
NK_PLAIN = 3


def _make_values():
    """makers of metadata VALUES (each call of a maker builds a FRESH object): the containers store whatever object they are
    given, so a value is any Python object - not only what JSON or pickle can carry.  -> (name, maker) lists: plain
    (JSON-like, the first eight), rich (everything copy.deepcopy accepts), nocopy (objects deepcopy refuses: they can sit in
    a hypergraph and travel with an extraction, but such a hypergraph has no copy() on the unchanged tree)"""
    import datetime
    import decimal
    import enum
    import functools
    import threading

    class Tag:                                   # a locally defined class without __eq__ (pickle cannot find it)
        def __init__(self, *a):
            self.items = list(a)
            self.note = {"n": float("nan"), "f": abs}

    class Pt:                                    # a locally defined class with value equality
        def __init__(self, x, y):
            self.x, self.y = x, y

        def __eq__(self, o):
            return type(o) is type(self) and (o.x, o.y) == (self.x, self.y)

        def __hash__(self):
            return hash((self.x, self.y))

    class Slots:
        __slots__ = ("u", "v")

        def __init__(self):
            self.u, self.v = 1, [2, "s"]

    class Colour(enum.Enum):
        RED = 1

    def closure():
        k = 3

        def decay(t):
            return 0.5 ** t + k
        return decay

    def cyclic():
        x = [1, {"self": None}]
        x[1]["self"] = x
        return x

    def deep():
        x = []
        for i in range(40):
            x = [x, i]
        return x

    def nested():
        nan = float("nan")
        return {"k": [1, {"deep": (2.5, None, [nan, nan])}], 3: "int key", (1, 2): "tuple key", None: 0, "": {}, "fn": [len, lambda: 0]}

    def gen():
        yield 1

    plain = [("int", lambda: int("7")), ("str", lambda: "".join(["r", "ed"])), ("float", lambda: float("2.5")),
             ("list", lambda: [1, 2]), ("dict", lambda: {"z": 1}), ("None", lambda: None), ("empty str", lambda: ""),
             ("negative int", lambda: int("-3"))]
    rich = [("nan", lambda: float("nan")), ("inf", lambda: float("inf")), ("-inf", lambda: float("-inf")),
            ("-0.0", lambda: float("-0.0")),
            ("lambda", lambda: (lambda x: x + 1)), ("local function with a closure", closure),
            ("builtin function", lambda: len), ("module-level class", lambda: Fraction), ("local class", lambda: Tag),
            ("instance of a local class", lambda: Tag(1, "two")), ("instance with __eq__", lambda: Pt(1, 2.5)),
            ("instance with __slots__", Slots), ("enum member of a local Enum", lambda: Colour.RED),
            ("set", lambda: {1, 2, "x"}), ("frozenset", lambda: frozenset({(1, 2), 3})), ("empty set", set),
            ("bytes", lambda: bytes([0, 255, 65])), ("bytearray", lambda: bytearray(b"ab\x00")),
            ("complex", lambda: complex(1, -2.5)), ("Fraction", lambda: Fraction(1, 3)),
            ("Decimal", lambda: decimal.Decimal("1.10")), ("Decimal NaN", lambda: decimal.Decimal("NaN")),
            ("nested", nested), ("tuple holding a list", lambda: ([1], "a", ())), ("range", lambda: range(1, 9, 2)),
            ("numpy array", lambda: __import__("numpy").array([1.5, float("nan"), 3.0])),
            ("numpy int array 2d", lambda: __import__("numpy").arange(6).reshape(2, 3)),
            ("numpy float64", lambda: __import__("numpy").float64(6.25)), ("numpy nan", lambda: __import__("numpy").float64("nan")),
            ("int beyond 2**64", lambda: 2 ** 70 + 1), ("True", lambda: True), ("False", lambda: False),
            ("float equal to an int of the pool", lambda: float("7")), ("0", lambda: 0), ("empty dict", dict), ("empty list", list),
            ("date", lambda: datetime.date(2020, 1, 2)), ("cyclic list", cyclic), ("deeply nested list", deep),
            ("bound method", lambda: "".join(["ab", "c"]).upper), ("partial", lambda: functools.partial(int, base=2)),
            ("exception object", lambda: ValueError("bad", 3)), ("long str", lambda: "x" * 5000 + "y"),
            ("long list", lambda: list(range(700))), ("str that looks like JSON", lambda: '{"a": [1, null]}'),
            ("Ellipsis", lambda: ...), ("type object", lambda: int), ("list of nans", lambda: [float("nan"), float("nan")])]
    nocopy = [("generator object", gen), ("lock", threading.Lock), ("memoryview", lambda: memoryview(b"mv")),
              ("instance holding a lock", lambda: Tag(threading.Lock()))]
    return plain, rich, nocopy


_PLAIN, _RICH, _NOCOPY = _make_values()
VALS = _PLAIN + _RICH + _NOCOPY
NV_PLAIN, NV_COPYABLE, NV_ALL = len(_PLAIN), len(_PLAIN) + len(_RICH), len(VALS)
# the generator's current regime (set per source, see `regime`): how many values / attribute names gen_md draws from
GEN = {"nv": NV_PLAIN, "nk": NK_PLAIN}


def val(i):
    """a FRESH object of value kind i"""
    return VALS[i][1]()


def regime(case):
    GEN["nv"] = case.get("nv", NV_PLAIN)
    GEN["nk"] = NK_PLAIN if GEN["nv"] <= NV_PLAIN else len(MD_KEYS)


def rv(rng):
    """index of a value: in rich sources half of the draws are rich values"""
    if GEN["nv"] > NV_COPYABLE and rng.random() < 0.35:
        return rng.randrange(NV_COPYABLE, GEN["nv"])
    if GEN["nv"] > NV_PLAIN and rng.random() < 0.5:
        return rng.randrange(NV_PLAIN, min(GEN["nv"], NV_COPYABLE))
    return rng.randrange(NV_PLAIN)


def rkey(rng):
    return rng.randrange(GEN["nk"])
EMPTY_NAMES = ["e0", 0, ("x", 1)]          # names of empty edges (Hypergraph.add_empty_edge)
H_WEIGHTED, H_TYPE = 100, 101              # attribute tokens of the constructor's hypergraph metadata (Model/C05.lean)
TYPE_TOK = {"Hypergraph": 0, "DirectedHypergraph": 1}


class _Timeout(BaseException):
    """not an Exception: the blanket `except Exception` of an observation must not swallow the alarm"""


def _alarm(signum, frame):
    raise _Timeout()


TIMEOUTS = [0]


def guard(fn, *a, **k):
    """run an implementation call; an exception (or a 10 s hang) is an observation.  After three hangs nothing
    more is run (the run ends with a violation, see `check_source`) so that a looping mutant cannot eat the budget."""
    if TIMEOUTS[0] >= 3:
        return ("exc", "Timeout (not run: earlier calls hung)")
    old = signal.signal(signal.SIGALRM, _alarm)
    signal.setitimer(signal.ITIMER_REAL, 10)
    try:
        return ("ok", fn(*a, **k))
    except _Timeout:
        TIMEOUTS[0] += 1
        return ("exc", "Timeout")
    except Exception as e:  # noqa: BLE001
        return ("exc", type(e).__name__ + ": " + str(e)[:80])
    finally:
        signal.setitimer(signal.ITIMER_REAL, 0)
        signal.signal(signal.SIGALRM, old)


# ------------------------------------------------------------------------------------------
# generation (everything over ranks 0..n-1; labels are attached when the history is realised)

def gen_md(rng, p_none=0.4):
    if rng.random() < p_none:
        return None
    return [[a, rv(rng)] for a in sorted(rng.sample(range(GEN["nk"]), rng.randint(0, 2)))]


STR_POOL = ["n" + chr(97 + i) for i in range(12)] + ["A", "B1", "zz", "", "a", "node 7", "\u00fc", "10", "9", "Zz top"]
FLOAT_POOL = [-2.5, 0.5, 1.5, 2.25, 1e-9, 3.75, 1e300, 257.5, -1e-3, 0.1, 7.0, 1e16, 2.0 ** 70]
MIX_POOL = [1, 2.5, 3, 300.75, 1000, -7, 0.25, 2 ** 60, 4.0, 258]
BIG_BASES = [2 ** 53 - 3, 2 ** 63 - 3, 2 ** 64 - 2, 10 ** 30, -(2 ** 63) - 2]


def gen_labels(rng, n):
    """a universe of n mutually comparable labels, sorted (a label reaches the model as its rank).  Every comparable
    kind of object a user can hold: small ints (identity = equality in CPython), exactly 0..n-1 (label = rank), ints
    beyond the small-int cache, negative ints, ints around 2**53 / 2**63 / 2**64, run-time strings (with '' and
    one-letter strings), non-integer and huge floats, ints mixed with floats, tuples"""
    r = rng.random()
    if r < 0.16:
        return sorted(rng.sample(range(0, 30), n))
    if r < 0.22:
        return list(range(n))
    if r < 0.40:
        return sorted(rng.sample(range(257, 3000), n))
    if r < 0.46:
        return sorted(rng.sample(range(-400, 400), n))
    if r < 0.54:
        return sorted(rng.sample([b + i for b in BIG_BASES for i in range(6)], n))
    if r < 0.72:
        return sorted(rng.sample(STR_POOL, n))
    if r < 0.81:
        return sorted(rng.sample(FLOAT_POOL, n))
    if r < 0.87:
        return sorted(rng.sample(MIX_POOL, n))
    if rng.random() < 0.5:
        return sorted(rng.sample([(i, j) for i in (1, 2, 300) for j in (0, 5, 1000, 7)], n))
    return sorted(rng.sample([(a, j) for a in ("x", "yy") for j in (1, 2, 3, 400, 5000, 6)], n))


def label_class(L):
    ts = {type(x).__name__ for x in L}
    if ts == {"int"}:
        if all(-5 <= x <= 256 for x in L):
            return "small_int"
        return "big_int" if any(abs(x) >= 2 ** 53 - 8 for x in L) else "int_beyond_cache"
    return "_".join(sorted(ts))


def norm_label(x):
    """labels of a case that went through JSON: a tuple label came back as a list"""
    return tuple(norm_label(e) for e in x) if isinstance(x, (list, tuple)) else x


def fresh(x):
    """a freshly constructed object EQUAL to the label x (never the object the harness or the hypergraph holds): `is`
    and `==` coincide for small ints and literals only"""
    if isinstance(x, bool):
        return x
    if isinstance(x, int):
        return int(str(x))
    if isinstance(x, float):
        return float(repr(x))
    if isinstance(x, str):
        return "".join(list(x)) if len(x) > 1 else x
    if isinstance(x, tuple):
        return tuple(fresh(e) for e in x)
    return x


def gen_raw(rng, kind, n, ov=0.0, top=5):
    """a raw hyperedge over ranks.  With probability `ov` one of the shapes outside the everyday ones: directed - source
    and target OVERLAP (self-loop ((x,),(x,)), feedback ((a,),(a,b)), identical sides) or a side is empty; undirected -
    the node-less hyperedge ()"""
    if kind == "u":
        if ov and rng.random() < ov * 0.15:
            return []
        size = min(n, rng.choice([1, 1, 2, 2, 2, 3, 3, 4, 5] + ([x for x in (6, 7, 8, 9) if x < top] + [top, top] if top > 5 else [])))
        return rng.sample(range(n), size)
    if ov and rng.random() < ov:
        x = rng.random()
        if x < 0.25:
            a = rng.randrange(n)
            return [[a], [a]]
        if x < 0.37:
            a = rng.sample(range(n), min(n, rng.randint(2, 3)))
            return [list(a), list(reversed(a))]
        if x < 0.50:
            side = rng.sample(range(n), min(n, rng.randint(1, 3)))
            return [[], side] if rng.random() < 0.5 else [side, []]
        if x < 0.53:
            return [[], []]
        common = rng.sample(range(n), min(n, rng.choice([1, 1, 2])))
        a = [r for r in rng.sample(range(n), min(n, rng.randint(0, 2))) if r not in common]
        b = [r for r in rng.sample(range(n), min(n, rng.randint(0, 2))) if r not in common]
        s_, t_ = common + a, common + b
        rng.shuffle(s_)
        rng.shuffle(t_)
        return [s_, t_]
    size = min(n, rng.choice([2, 2, 2, 3, 3, 4, 5] + ([x for x in (6, 7, 8, 9) if x < top] + [top, top] if top > 5 else [])))
    nodes = rng.sample(range(n), size)
    k = rng.randint(1, size - 1)
    return [nodes[:k], nodes[k:]]


def canon_raw(kind, raw):
    return tuple(sorted(raw)) if kind == "u" else (tuple(sorted(raw[0])), tuple(sorted(raw[1])))


def perm_raw(rng, kind, key):
    if kind == "u":
        x = list(key)
        rng.shuffle(x)
        return x
    a, b = list(key[0]), list(key[1])
    rng.shuffle(a)
    rng.shuffle(b)
    return [a, b]


def gen_aux_op(rng, kind, n, keys, incs, ov=0.0, top=5):
    """one operation on incidence metadata / empty edges / hypergraph-level metadata; `incs` = (raw key, node) pairs
    that received incidence metadata so far (the undirected class stores under the tuple AS GIVEN)"""
    r = rng.random()
    if r < 0.50 or (r < 0.70 and not incs):
        if keys and rng.random() < 0.85:
            key = rng.choice(keys)
        else:
            key = canon_raw(kind, gen_raw(rng, kind, n, ov, top))
        raw = perm_raw(rng, kind, key)
        ms = list(key) if kind == "u" else list(key[0]) + list(key[1])
        node = rng.choice(ms) if ms and rng.random() < 0.8 else rng.randrange(n)
        incs.append((raw, node))
        return ["setim", raw, node, gen_md(rng, 0.15) or []]
    if r < 0.70:
        raw, node = rng.choice(incs)
        if rng.random() < 0.15:
            raw = perm_raw(rng, kind, canon_raw(kind, raw))     # another spelling of the same hyperedge
        return ["attri", raw, node, rkey(rng), rv(rng)]
    if r < 0.82 and kind == "u":
        return ["addempty", rng.randrange(len(EMPTY_NAMES)), gen_md(rng, 0.4) or []]
    if r < 0.90:
        return ["sethm", gen_md(rng, 0) or []]
    return ["attrh", rkey(rng), rv(rng)]


def gen_node_op(rng, kind, n, x=None):
    """remove_node (with / without keep_edges), clear, add_nodes (Hypergraph: now and then with the metadata table)"""
    if x is None and rng.random() < 0.2:
        return gen_batch_op(rng, kind, n, [], rng.choice([0.1, 0.9, 0.9]))
    x = rng.random() if x is None else x
    if x < 0.5:
        return ["rmnode", rng.randrange(n), rng.random() < 0.5]
    if x < 0.6:
        return ["clear"]
    ns = rng.sample(range(n), rng.randint(1, n)) if rng.random() < 0.9 else []
    if kind == "u" and rng.random() < 0.5:
        # the metadata table of Hypergraph.add_nodes: an entry per node, now and then one is missing (rejected),
        # now and then one too many
        tb = [[r, gen_md(rng, 0.3) or []] for r in ns]
        y = rng.random()
        if tb and y < 0.3:
            tb.pop(rng.randrange(len(tb)))
        elif y < 0.35:
            tb.append([rng.randrange(n), gen_md(rng, 0) or []])
        seen, tb2 = set(), []
        for r, md in tb:
            if r not in seen:
                seen.add(r)
                tb2.append([r, md])
        return ["addnodes", ns, tb2]
    return ["addnodes", ns]


def gen_batch_op(rng, kind, n, hist, x=None):
    """calls that may raise HALF-WAY (Model/C05Batch.lean): remove_node as the code runs it (`rmnodex`: also a node that is source
    and target of one directed hyperedge), remove_edges / remove_nodes (Hypergraph validates the whole batch first,
    DirectedHypergraph stops at the first failing call and keeps what was done) - valid batches, a repeated item, an
    absent item (mostly NOT in the first place, so that a half-done batch shows)"""
    x = rng.random() if x is None else x
    if x < 0.3:
        return ["rmnodex", rng.randrange(n), rng.random() < 0.5]
    if x < 0.65:
        keys = []
        for op in hist:
            if op[0] == "addedge" and canon_raw(kind, op[1]) not in keys:
                keys.append(canon_raw(kind, op[1]))
        ks = rng.sample(keys, rng.randint(0, min(3, len(keys)))) if keys else []
        y = rng.random()
        if ks and y < 0.25:
            ks.insert(rng.randint(1, len(ks)), rng.choice(ks))                      # one hyperedge twice
        elif y < 0.45:
            ks.insert(rng.randint(min(1, len(ks)), len(ks)), canon_raw(kind, gen_raw(rng, kind, n)))   # (mostly) absent
        return ["rmedges", [perm_raw(rng, kind, k) for k in ks]]
    ns = rng.sample(range(n), rng.randint(0, min(3, n)))
    y = rng.random()
    if ns and y < 0.25:
        ns.insert(rng.randint(1, len(ns)), rng.choice(ns))                          # one node twice
    return ["rmnodes", ns, rng.random() < 0.5]


def gen_ops(rng, kind, weighted, n, present, length, extended=False, p_aux=0.16, incs=None, ov=0.0, top=5, p_share=0.2):
    """random mutations; `present` = set of canonical keys currently in the object (kept up to date as if all
    valid ops are accepted - used only to bias the generator)"""
    ops = []
    present = set(present)
    incs = [] if incs is None else incs
    for _ in range(length):
        r = rng.random()
        keys = sorted(present)
        if rng.random() < p_aux:
            ops.append(gen_aux_op(rng, kind, n, keys, incs, ov, top))
        elif r < 0.12:
            ops.append(["addnode", rng.randrange(n), gen_md(rng, 0.3)])
        elif r < 0.55 or not keys:
            if keys and rng.random() < 0.3:
                raw = perm_raw(rng, kind, rng.choice(keys))       # re-insertion
            else:
                raw = gen_raw(rng, kind, n, ov, top)
            if weighted:
                w = rng.randint(1, 12) if rng.random() < 0.93 else None
            else:
                w = None if rng.random() < 0.85 else rng.choice([4, 4, 6])   # 4 quanta = weight 1 (accepted), 6 = 1.5 (rejected)
            ops.append(["addedge", raw, w, gen_md(rng)])
            if weighted or w in (None, 4):
                present.add(canon_raw(kind, raw))
        elif r < 0.65:
            key = rng.choice(keys) if rng.random() < 0.9 else canon_raw(kind, gen_raw(rng, kind, n, ov, top))
            ops.append(["rmedge", perm_raw(rng, kind, key)])
            present.discard(key)
        elif r < 0.73:
            key = rng.choice(keys) if rng.random() < 0.9 else canon_raw(kind, gen_raw(rng, kind, n, ov, top))
            w = rng.randint(1, 12) if weighted else rng.choice([4, 4, 4, 8])
            ops.append(["setw", perm_raw(rng, kind, key), w])
        elif r < 0.80:
            ops.append(["setnm", rng.randrange(n), gen_md(rng, 0) or []])
        elif r < 0.87:
            ops.append(["setem", perm_raw(rng, kind, rng.choice(keys)), gen_md(rng, 0) or []])
        elif r < 0.94 or kind == "d":
            # (DirectedHypergraph.set_attr_to_edge_metadata is outside this property: C02 / D10)
            ops.append(["attrn", rng.randrange(n), rkey(rng), rv(rng)])
        else:
            ops.append(["attre", perm_raw(rng, kind, rng.choice(keys)), rkey(rng), rv(rng)])
        if extended and rng.random() < p_share:
            # ONE dict object handed to several items (the containers keep metadata by reference: an attribute set on one of
            # them afterwards shows on the others - in a never-copied object, in a copy and in an extracted hypergraph alike)
            ops.append(["sharemd", rng.sample(range(n), min(n, 2)), rng.choice(keys) if keys and rng.random() < 0.5 else None,
                        gen_md(rng, 0) or []])
        if extended and rng.random() < 0.15:
            ops.append(gen_node_op(rng, kind, n))
    return ops


def draw_regime(rng):
    """the kinds of metadata values (and attribute names) of a source: plain (JSON-like) / rich (every kind of object
    copy.deepcopy accepts) / all (also objects deepcopy refuses: no copy() is asked of such a source)"""
    nv = rng.choice([NV_PLAIN] * 6 + [NV_COPYABLE] * 12 + [NV_ALL] * 2)
    regime({"nv": nv})
    return nv


def gen_source(rng, n=None, length=None, labels=None, top=5, kind=None, weighted=None, nv=None):
    kind = kind or ("u" if rng.random() < 0.58 else "d")
    n = n or rng.choice([3, 4, 5, 5, 6, 6])
    weighted = rng.random() < 0.6 if weighted is None else weighted
    # half of the directed sources (a fifth of the undirected ones) also hold the unusual shapes, see gen_raw
    ov = rng.choice([0.25, 0.5]) if rng.random() < (0.5 if kind == "d" else 0.2) else 0.0
    if nv is None:
        nv = draw_regime(rng)
    regime({"nv": nv})
    hist = []
    for r in rng.sample(range(n), rng.randint(1, n)):
        if rng.random() < 0.7:
            hist.append(["addnode", r, gen_md(rng, 0.25)])
    incs = []
    hist += gen_ops(rng, kind, weighted, n, set(), length or rng.randint(3, 14), p_aux=rng.choice([0.0, 0.15, 0.3]),
                    incs=incs, ov=ov, top=top)
    rng.shuffle(hist)
    case = {"kind": kind, "weighted": weighted, "labels": (labels or gen_labels)(rng, n), "history": hist, "incs": incs, "ov": ov,
            "nv": nv}
    if weighted and rng.random() < 0.12:
        case["wscale"] = True
    x = rng.random()
    if hist and x < 0.25 and nv <= NV_COPYABLE:
        case["copy_at"] = rng.randrange(len(hist))
        case["junk"] = gen_ops(rng, kind, weighted, n, set(canon_raw(kind, o[1]) for o in hist if o[0] == "addedge"),
                               rng.randint(2, 6), extended=True, p_aux=0.3, incs=list(incs), ov=ov)
    elif hist and x < 0.45:
        # every query and every extraction is asked once in the middle of the history (results dropped): whatever the
        # object remembers of an answer is out of date when the selections of the check are made
        case["warm_at"] = rng.randint(max(0, len(hist) - 5), len(hist) - 1)
    return case


def gen_silent_ops(rng, case, S, length):
    """calls that change what an extraction must return but neither the number of nodes nor the number of hyperedges"""
    kind = case["kind"]
    keys = sorted(rank_keys(case, S))
    n = len(case["labels"])
    ops = []
    for _ in range(length):
        r = rng.random()
        if keys and r < 0.35:
            ops.append(["setw", perm_raw(rng, kind, rng.choice(keys)), rng.randint(1, 12) if S[0] else 4])
        elif keys and r < 0.6:
            ops.append(["setem", perm_raw(rng, kind, rng.choice(keys)), gen_md(rng, 0) or [[0, rv(rng)]]])
        elif r < 0.8:
            ops.append(["setnm", rng.randrange(n), gen_md(rng, 0) or [[1, rv(rng)]]])
        elif keys and r < 0.9 and S[0]:
            ops.append(["addedge", perm_raw(rng, kind, rng.choice(keys)), rng.randint(1, 12), gen_md(rng)])   # re-insertion: weights add up
        else:
            ops.append(["attrn", rng.randrange(n), rkey(rng), rv(rng)])
    return ops


def gen_source_flavoured(rng, flavour, kind, weighted):
    """small sources (3-4 nodes) that are sure to hold one class of content every run: 'xw' weights of every numeric kind (nan,
    inf, 0, ...), 'nocopy' metadata values copy.deepcopy refuses, 'share' one dict object handed to several items"""
    n = rng.choice([3, 4, 4])
    if flavour == "xw":
        case = gen_source(rng, n=n, kind=kind, weighted=True, nv=rng.choice([NV_PLAIN, NV_COPYABLE]))
        case.pop("wscale", None)
        case["xw"] = True
        # the boundary weights for sure: 0 (falsy), nan, inf on hyperedges of their own
        hist = list(case["history"])
        used = set(canon_raw(kind, o[1]) for o in hist if o[0] in ("addedge", "rmedge"))
        for q in rng.sample([3, 1, 2, 10, 9, 4], 3):
            for _ in range(20):
                raw = gen_raw(rng, kind, n, case.get("ov", 0.0))
                if canon_raw(kind, raw) not in used:
                    used.add(canon_raw(kind, raw))
                    hist.append(["addedge", raw, q, gen_md(rng)])
                    break
        if hist and hist[-1][0] == "addedge":
            # weight exactly 0 reached through set_weight as well (add_edge(weight=0) is another path: C05-f3)
            hist.append(["setw", list(hist[-1][1]) if kind == "u" else [list(hist[-1][1][0]), list(hist[-1][1][1])], rng.choice([3, 10])])
        case["history"] = hist
    elif flavour == "nocopy":
        case = gen_source(rng, n=n, kind=kind, weighted=weighted, nv=NV_ALL)
    else:
        case = gen_source(rng, n=n, kind=kind, weighted=weighted, nv=rng.choice([NV_PLAIN, NV_COPYABLE]))
        hist = list(case["history"])
        keys = set(canon_raw(kind, o[1]) for o in hist if o[0] == "addedge")
        for op in gen_ops(rng, kind, case["weighted"], n, keys, rng.randint(3, 6), extended=True, incs=case["incs"],
                          ov=case.get("ov", 0.0), p_share=0.6):
            if op[0] != "clear":
                hist.append(op)
        case = {**case, "history": hist, "extended": True}
    case["flavour"] = flavour
    return case


def gen_source_extended(rng):
    """a source whose history also removes nodes (with and without keeping their hyperedges), clears the object and
    adds node batches: outside the model's operations, exercised by the oracles only"""
    case = gen_source(rng)
    n = len(case["labels"])
    hist = list(case["history"])
    extra = gen_ops(rng, case["kind"], case["weighted"], n, set(), rng.randint(3, 8), extended=True,
                    incs=case["incs"], ov=case.get("ov", 0.0), p_share=0.2 if rng.random() < 0.35 else 0.0)
    # every such source holds a node removal and a node batch for sure
    extra += [["rmnode", rng.randrange(n), False], ["rmnode", rng.randrange(n), True],
              gen_node_op(rng, case["kind"], n, rng.choice([0.7, 0.7, 0.55]))]
    if case["kind"] == "u":
        # Hypergraph.add_nodes with the metadata table over ALL labels (some absent after the removals): once complete, once
        # with a later entry missing - the whole batch must be rejected, none of the earlier nodes added
        ns = rng.sample(range(n), n)
        tb = [[r, gen_md(rng, 0) or [[0, rv(rng)]]] for r in ns]
        miss = rng.randrange(1, n) if n > 1 else 0
        extra.append(["addnodes", ns, tb] if rng.random() < 0.4 else
                     ["addnodes", ns, [t for i, t in enumerate(tb) if i != miss]])
    for op in extra:
        if op[0] == "clear" and rng.random() < 0.6:
            continue
        hist.insert(rng.randint(len(hist) // 2, len(hist)), op)
    for x in (0.4, 0.8, rng.random()):
        hist.insert(rng.randint(len(hist) // 2, len(hist)), gen_batch_op(rng, case["kind"], n, hist, x))
    if case["kind"] == "d" and n >= 2 and rng.random() < 0.8:
        # a node on BOTH sides of one hyperedge, then remove_node of it: the code raises half-way; the state it leaves is
        # compared with the model like any other (`C05_remove_node_both_sides`), and the history goes on
        a = rng.randrange(n)
        s_ = [a] + [r for r in rng.sample(range(n), min(n, rng.randint(0, 2))) if r != a]
        t_ = [a] + [r for r in rng.sample(range(n), min(n, rng.randint(0, 2))) if r != a]
        rng.shuffle(s_)
        rng.shuffle(t_)
        hist.append(["addedge", [s_, t_], rng.randint(1, 12) if case["weighted"] else None, gen_md(rng)])
        hist.append(["rmnodex", a, rng.random() < 0.6])
        hist += gen_ops(rng, "d", case["weighted"], n, set(), rng.randint(0, 3), ov=case.get("ov", 0.0))
    case = {**case, "history": hist, "extended": True}
    if case["weighted"] and rng.random() < 0.35:
        # weights of every numeric kind (nan, inf, 0, huge ints, Fractions, numpy floats, ...), see XW
        case.pop("wscale", None)
        case["xw"] = True
    return case


# component layouts: sizes of the connected components (w.r.t. the filter of the mode)
LAYOUTS = [(1, 2), (2, 3), (3, 4), (1, 1), (2, 2), (3, 3), (1, 3), (2, 4), (4, 5),
           (1, 1, 2), (1, 2, 2), (2, 2, 3), (2, 3, 3), (1, 1, 1), (2, 2, 2), (1, 2, 3), (3, 3, 4)]
LCC_FILTERS = [{}] + [{"size": s} for s in (1, 2, 3, 4)] + [{"order": o} for o in (0, 1, 2, 3)]


def layout_modes(sizes):
    """None: components w.r.t. all hyperedges; s: components w.r.t. hyperedges of size s (each component must be
    connectable by hyperedges of exactly that size)"""
    return [None, 2] + ([3] if all(x == 1 or x >= 3 for x in sizes) and any(x >= 3 for x in sizes) else [])


def gen_layout_source(rng, sizes, perm, mode):
    """a Hypergraph whose connected components under `mode` have exactly the sizes `sizes`; `perm` is the order in which
    the components first appear in the node listing (= the order the component search meets them)"""
    n = sum(sizes)
    nv = min(draw_regime(rng), NV_COPYABLE)
    regime({"nv": nv})
    ranks = list(range(n))
    rng.shuffle(ranks)
    comps, at = [], 0
    for sz in sizes:
        comps.append(ranks[at:at + sz])
        at += sz
    weighted = rng.random() < 0.5

    def w():
        return rng.randint(1, 12) if weighted else None

    edges_of = []                                  # per component: hyperedges that connect it (under the mode)
    for comp in comps:
        es = []
        seen = [comp[0]]
        rest = comp[1:]
        rng.shuffle(rest)
        while rest:
            size = mode if mode is not None else rng.randint(2, min(4, len(rest) + len(seen)))
            new = min(len(rest), rng.randint(1, size - 1))
            old = size - new
            if old > len(seen):
                new, old = size - len(seen), len(seen)
                if new > len(rest):               # cannot happen when len(comp) >= size
                    new = len(rest)
            e = rng.sample(seen, old) + rest[:new]
            rng.shuffle(e)
            es.append(e)
            seen += rest[:new]
            rest = rest[new:]
        for _ in range(rng.randint(0, 2)):        # more hyperedges inside the component (any size)
            k = rng.randint(1, min(4, len(comp)))
            es.append(rng.sample(comp, k))
        edges_of.append(es)
    first, tail = [], []
    for ci in perm:
        comp, es = comps[ci], edges_of[ci]
        if es and rng.random() < 0.5:
            e = es.pop(rng.randrange(len(es)))
            first.append(["addedge", e, w(), gen_md(rng)])
        else:
            first.append(["addnode", rng.choice(comp), gen_md(rng, 0.3)])
    for ci, comp in enumerate(comps):
        for e in edges_of[ci]:
            tail.append(["addedge", e, w(), gen_md(rng)])
        for r in comp:
            if len(comp) == 1 or rng.random() < 0.3:
                tail.append(["addnode", r, gen_md(rng, 0.3)])
    if mode is not None and len(comps) > 1:       # bridges of sizes outside the filter: other components without it
        for _ in range(rng.randint(0, 2)):
            size = rng.choice([s for s in (1, 3, 4, 2) if s != mode and s <= n][:3])
            e = rng.sample(ranks, size)
            tail.append(["addedge", e, w(), gen_md(rng)])
    rng.shuffle(tail)
    if len(comps) > 1 and rng.random() < 0.5:     # a bridge inside the filter that is removed again
        a, b = rng.sample(range(len(comps)), 2)
        size = mode if mode is not None else 2
        e = [rng.choice(comps[a]), rng.choice(comps[b])]
        others = [r for r in ranks if r not in e]
        e += rng.sample(others, min(len(others), size - 2))
        if len(e) == size and not any(sorted(e) == sorted(o[1]) for o in first + tail if o[0] == "addedge"):
            i = rng.randint(0, len(tail))
            j = rng.randint(i, len(tail))
            tail.insert(j, ["rmedge", list(reversed(e))])
            tail.insert(i, ["addedge", e, w(), gen_md(rng)])
    for _ in range(rng.randint(0, 2)):
        tail.insert(rng.randint(0, len(tail)), gen_aux_op(rng, "u", n, [canon_raw("u", o[1]) for o in tail if o[0] == "addedge"], []))
    return {"kind": "u", "weighted": weighted, "labels": gen_labels(rng, n), "history": first + tail,
            "layout": {"sizes": list(sizes), "perm": list(perm), "mode": mode}, "nv": nv}


# ------------------------------------------------------------------------------------------
# realisation on the implementation / rendering for the model

def py_md(md):
    return None if md is None else {MD_KEYS[a]: val(v) for a, v in md}


WSCALE = 2 ** 60 + 1


def eff_w(case, q):
    """the weight (in quanta) a call really sends: under a weight scale no call leaves the weight out (the default
    weight 1 is not on the scaled grid)"""
    return 4 if q is None and case.get("wscale") else q


def py_w(q, case=None):
    """quanta -> the weight handed to the implementation (ints where possible, else floats).  case["wscale"]: all
    weights are INTEGERS far beyond 2**53 (q * (2**60 + 1)): sums stay exact, a detour through floats does not"""
    if q is None:
        return None
    if case is not None and case.get("wscale"):
        return q * WSCALE
    if case is not None and case.get("xw"):
        return XW[(q - 1) % len(XW)]()
    return q // 4 if q % 8 == 0 else q / 4


# case["xw"]: weights of every numeric kind a weighted hypergraph accepts (fresh objects; such sources are not sent to the
# model: its weights are integer quanta).  Sums of re-insertions stay defined in Python (no Decimal: Decimal + float raises)
XW = [lambda: float("nan"), lambda: float("inf"), lambda: 0, lambda: float("-inf"), lambda: 2 ** 70 + 1,
      lambda: Fraction(1, 3), lambda: __import__("numpy").float64(2.5), lambda: 1e308,
      lambda: float("nan"), lambda: 0, lambda: -2.5, lambda: 5e-324]


def op_bits(op):
    """presentation bits of a history call: a function of the call's text, so that every rebuild of the history (the
    never-copied reference of a copy round, a replay) presents it the same way"""
    return zlib.crc32(repr(op).encode())


def lab(case, r):
    return fresh(case["labels"][r])


def py_key(case, raw, bits=0):
    """the hyperedge as handed to the implementation: FRESH label objects; tuple or list (of tuples or lists)"""
    cont = (tuple, list, tuple, tuple)[bits & 3]
    if case["kind"] == "u":
        return cont(lab(case, r) for r in raw)
    side = (tuple, tuple, list, tuple)[(bits >> 2) & 3]
    return cont([side(lab(case, r) for r in raw[0]), side(lab(case, r) for r in raw[1])])


def new_object(case):
    from hypergraphx import DirectedHypergraph, Hypergraph
    return (Hypergraph if case["kind"] == "u" else DirectedHypergraph)(weighted=case["weighted"])


def on_both_sides(h, x):
    """x is source AND target of one hyperedge of the DirectedHypergraph h"""
    st, es = guard(h.get_edges)
    return st == "ok" and any(isinstance(e, tuple) and len(e) == 2 and x in e[0] and x in e[1] for e in es)


def apply_py(case, h, op):
    t = op[0]
    b = op_bits(op)
    if t == "addnode":
        return guard(h.add_node, lab(case, op[1]), py_md(op[2]))
    if t == "addedge":
        return guard(h.add_edge, py_key(case, op[1], b), py_w(eff_w(case, op[2]), case), py_md(op[3]))
    if t == "rmedge":
        return guard(h.remove_edge, py_key(case, op[1], b))
    if t == "setw":
        return guard(h.set_weight, py_key(case, op[1], b), py_w(op[2], case))
    if t == "setnm":
        return guard(h.set_node_metadata, lab(case, op[1]), py_md(op[2]))
    if t == "setem":
        return guard(h.set_edge_metadata, py_key(case, op[1], b), py_md(op[2]))
    if t == "attrn":
        return guard(h.set_attr_to_node_metadata, lab(case, op[1]), MD_KEYS[op[2]], val(op[3]))
    if t == "attre":
        return guard(h.set_attr_to_edge_metadata, py_key(case, op[1], b), MD_KEYS[op[2]], val(op[3]))
    if t == "setim":
        # (tuples only: the undirected class stores the incidence entry under the edge object as given)
        return guard(h.set_incidence_metadata, py_key(case, op[1]), lab(case, op[2]), py_md(op[3]))
    if t == "attri":
        def edit():
            h.get_incidence_metadata(py_key(case, op[1]), lab(case, op[2]))[MD_KEYS[op[3]]] = val(op[4])
        return guard(edit)
    if t == "addempty":
        return guard(h.add_empty_edge, EMPTY_NAMES[op[1]], py_md(op[2]))
    if t == "sethm":
        return guard(h.set_hypergraph_metadata, py_md(op[1]))
    if t == "attrh":
        return guard(h.set_attr_to_hypergraph_metadata, MD_KEYS[op[1]], val(op[2]))
    if t == "sharemd":
        def share():
            d = py_md(op[3])
            for r in op[1]:
                h.set_node_metadata(lab(case, r), d)
            if op[2] is not None:
                h.set_edge_metadata(py_key(case, op[2], b), d)
        return guard(share)
    if t == "rmnode":
        if case["kind"] == "d" and on_both_sides(h, case["labels"][op[1]]):
            # DirectedHypergraph.remove_node raises half-way for such a node on the unchanged tree (outside C02's
            # quantifier "disjoint sides"): not part of any history here
            return ("skip", None)
        return guard(h.remove_node, lab(case, op[1]), op[2])
    if t == "rmnodex":
        return guard(h.remove_node, lab(case, op[1]), op[2])
    if t == "rmedges":
        return guard(h.remove_edges, [py_key(case, raw, b + i) for i, raw in enumerate(op[1])])
    if t == "rmnodes":
        return guard(h.remove_nodes, [lab(case, r) for r in op[1]], op[2])
    if t == "clear":
        return guard(h.clear)
    if t == "addnodes":
        if len(op) > 2 and op[2] is not None:
            # Hypergraph.add_nodes(node_list, metadata): one entry per node (a missing one rejects the whole batch)
            return guard(h.add_nodes, [lab(case, r) for r in op[1]], {lab(case, r): py_md(md) for r, md in op[2]})
        return guard(h.add_nodes, [lab(case, r) for r in op[1]])
    raise ValueError(t)


def w_md(md):
    return "-" if not md else ",".join(f"{a}:{v}" for a, v in md)


def w_key(kind, raw):
    f = lambda xs: ",".join(str(x) for x in xs) if xs else "_"  # noqa: E731
    return f(raw) if kind == "u" else f(raw[0]) + ">" + f(raw[1])


def w_opt(x):
    return "n" if x is None else str(x)


def model_line(case, slot, op):
    k = case["kind"]
    t = op[0]
    if t == "addnode":
        return f"{k} addnode {slot} {op[1]} {w_md(op[2])}"
    if t == "addedge":
        return f"{k} addedge {slot} {w_key(k, op[1])} {w_opt(eff_w(case, op[2]))} {w_md(op[3])}"
    if t == "rmedge":
        return f"{k} rmedge {slot} {w_key(k, op[1])}"
    if t == "setw":
        return f"{k} setw {slot} {w_key(k, op[1])} {op[2]}"
    if t == "setnm":
        return f"{k} setnm {slot} {op[1]} {w_md(op[2])}"
    if t == "setem":
        return f"{k} setem {slot} {w_key(k, op[1])} {w_md(op[2])}"
    if t == "attrn":
        return f"{k} attrn {slot} {op[1]} {op[2]} {op[3]}"
    if t == "attre":
        return f"{k} attre {slot} {w_key(k, op[1])} {op[2]} {op[3]}"
    if t == "setim":
        return f"{k} setim {slot} {w_key(k, op[1])} {op[2]} {w_md(op[3])}"
    if t == "attri":
        return f"{k} attri {slot} {w_key(k, op[1])} {op[2]} {op[3]} {op[4]}"
    if t == "addempty":
        return f"{k} addempty {slot} {op[1]} {w_md(op[2])}"
    if t == "sethm":
        return f"{k} sethm {slot} {w_md(op[1])}"
    if t == "attrh":
        return f"{k} attrh {slot} {op[1]} {op[2]}"
    if t == "rmnode":
        return f"{k} rmnode {slot} {op[1]} {int(bool(op[2]))}"
    if t == "rmnodex":
        return f"{k} rmnodex {slot} {op[1]} {int(bool(op[2]))}"
    if t == "rmedges":
        return f"{k} rmedges {slot} " + (";".join(w_key(k, raw) for raw in op[1]) if op[1] else "~")
    if t == "rmnodes":
        return f"{k} rmnodes {slot} " + (",".join(str(r) for r in op[1]) if op[1] else "-") + f" {int(bool(op[2]))}"
    if t == "clear":
        return f"{k} clear {slot}"
    if t == "addnodes":
        tbl = op[2] if len(op) > 2 else None
        ns = ",".join(str(r) for r in op[1]) if op[1] else "-"
        tb = "n" if tbl is None else (";".join(f"{r}={w_md(md)}" for r, md in tbl) if tbl else "~")
        return f"{k} addnodes {slot} {ns} {tb}"
    raise ValueError(t)


# ------------------------------------------------------------------------------------------
# observation of an object through the public API

def members(kind, key):
    return tuple(key) if kind == "u" else tuple(key[0]) + tuple(key[1])


def empty_edge_names(h):
    """names of the empty edges: no getter exists, so add_empty_edge is tried on a stdlib deepcopy (a name that is
    already there raises).  None when the class has no empty edges (DirectedHypergraph)"""
    if not hasattr(h, "add_empty_edge"):
        return None
    try:
        probe = _copy.deepcopy(h)
    except Exception:  # noqa: BLE001       (metadata that deepcopy refuses, e.g. a generator object: no probe possible)
        priv = getattr(h, "_empty_edges", None)
        return list(priv) if isinstance(priv, dict) else []
    out = []
    for name in EMPTY_NAMES:
        try:
            probe.add_empty_edge(name, {})
        except Exception:  # noqa: BLE001
            out.append(name)
    return out


def aux_of(h):
    """incidence metadata (listing order), empty edges [(name, md | None)], hypergraph-level metadata"""
    inc = h.get_all_incidences_metadata()
    if not isinstance(inc, dict):
        raise AssertionError("get_all_incidences_metadata() is not a dict")
    for (e, n), md in inc.items():
        if h.check_edge(e) and not same(h.get_incidence_metadata(e, n), md):
            raise AssertionError(f"get_incidence_metadata({e!r}, {n!r}) disagrees with get_all_incidences_metadata()")
    names = empty_edge_names(h)
    empty = []
    if names is not None:
        priv = getattr(h, "_empty_edges", None)
        if isinstance(priv, dict):
            if set(priv) != set(names):
                raise AssertionError("add_empty_edge accepts/rejects names against the stored empty edges")
            empty = [(k, v) for k, v in priv.items()]
        else:
            empty = [(k, None) for k in names]
    hm = h.get_hypergraph_metadata()
    if not isinstance(hm, dict):
        raise AssertionError("get_hypergraph_metadata() is not a dict")
    return {"inc": dict(inc), "empty": empty, "hmeta": dict(hm)}


def snap(h):
    """content of an object as the public API shows it: (weighted, {node: md}, {key: (weight, md)}, aux) or ('exc', why);
    aux = incidence metadata, empty edges, hypergraph-level metadata (see aux_of)"""
    def f():
        nodes = h.get_nodes(metadata=True)
        lst = list(h.get_nodes())
        if len(set(lst)) != len(lst) or set(lst) != set(nodes):
            raise AssertionError("get_nodes() and get_nodes(metadata=True) list different nodes")
        em = h.get_edges(metadata=True)
        ws = h.get_weights(asdict=True)
        keys = list(h.get_edges())
        if len(set(keys)) != len(keys) or set(keys) != set(em) or set(keys) != set(ws):
            raise AssertionError("get_edges(), get_edges(metadata=True) and get_weights(asdict=True) list different hyperedges")
        for k in keys:
            if not weq(h.get_weight(k), ws[k]) or not same(h.get_edge_metadata(k), em[k]) or not h.check_edge(k):
                raise AssertionError(f"per-hyperedge queries disagree with the listings for {k!r}")
        for n in lst:
            if not same(h.get_node_metadata(n), nodes[n]):
                raise AssertionError(f"get_node_metadata({n!r}) disagrees with get_nodes(metadata=True)")
        return (bool(h.is_weighted()), dict(nodes), {k: (ws[k], em[k]) for k in keys}, aux_of(h))
    st, v = guard(f)
    return v if st == "ok" else ("exc", v)


def incidence_ok(kind, h, s):
    """every hyperedge of the content is incident exactly once to each of its nodes (public listing); DirectedHypergraph:
    once as a source hyperedge of each source node, once as a target hyperedge of each target node, and
    get_incident_edges = the two listings one after the other (a node on both sides meets the hyperedge twice)"""
    def f():
        srt = lambda xs: sorted(xs, key=repr)  # noqa: E731
        for n in s[1]:
            if kind == "u":
                want = srt(k for k in s[2] if n in k)
            else:
                ws, wt = srt(k for k in s[2] if n in k[0]), srt(k for k in s[2] if n in k[1])
                gs, gt = srt(h.get_source_edges(n)), srt(h.get_target_edges(n))
                if gs != ws or gt != wt:
                    return f"get_source_edges / get_target_edges({n!r}) = {gs} / {gt}, hyperedges with it on that side: {ws} / {wt}"
                want = srt(ws + wt)
            got = srt(h.get_incident_edges(n))
            if got != want:
                return f"get_incident_edges({n!r}) = {got}, hyperedges containing it: {want}"
        if h.num_nodes() != len(s[1]) or len(h) != len(s[2]):
            return "num_nodes()/len() disagree with the listings"
        return None
    st, v = guard(f)
    return v if st == "ok" else "incidence queries raised " + v


_ATOMS = (int, str, type(None))


def canon(x, strict=False, _path=None):
    """a comparable picture of an answer of the public API (dicts and sets sorted, tuples / lists / bools / floats told
    apart).  Loose (default): STRUCTURE only - a NaN equals a NaN, a function equals a function made from the same code with
    an equal closure, an instance equals an instance of the same class with equal attributes, so two objects built by the same
    recipe have the same picture (no addresses in it).  strict=True keeps every atom whose `==` is not reflexive (float nan,
    Decimal('NaN'), complex / numpy nan) and every function / class / enum member as the OBJECT itself: comparing two
    strict pictures inside a tuple is then Python's own container equality (identical, or ==) - what `a == b` says for two
    listings, which is what copy.deepcopy guarantees for them (it hands such objects over as they are)."""
    t = type(x)
    if t in _ATOMS:
        return x
    if t is bool:
        return ("b", x)
    if t is float:
        if x != x:
            return x if strict else ("nan",)
        if x.is_integer():
            return ("f", int(x)) if x or str(x)[0] != "-" else ("f", "-0")
        return x
    if t is tuple:
        return ("t", tuple(canon(v, strict, _path) for v in x))
    if t is list or t is dict:
        if _path is None:
            _path = set()
        i = id(x)
        if i in _path:
            return ("cycle",)
        _path.add(i)
        try:
            if t is list:
                return ("l", tuple(canon(v, strict, _path) for v in x))
            items = []
            for k, v in x.items():
                tk = type(k)
                if tk is str or tk is int:
                    items.append((("'" if tk is str else "#") + str(k), k, canon(v, strict, _path)))
                else:
                    ck = canon(k)
                    items.append((_sort_key(ck), canon(k, True, _path) if strict else ck, canon(v, strict, _path)))
            items.sort(key=_first)
            return ("{", tuple((k, v) for _, k, v in items))
        finally:
            _path.discard(i)
    if t is set or t is frozenset:
        items = []
        for v in x:
            tv = type(v)
            if tv is str or tv is int:
                items.append((("'" if tv is str else "#") + str(v), v))
            else:
                cv = canon(v)
                items.append((_sort_key(cv), canon(v, True, _path) if strict else cv))
        items.sort(key=_first)
        return ("s", tuple(v for _, v in items))
    return _canon_rare(x, strict, _path)


def _first(it):
    return it[0]


def _sort_key(c):
    """of a LOOSE picture (no addresses in it)"""
    t = type(c)
    return "'" + c if t is str else "#" + str(c) if t is int else repr(c)


def _slots(x):
    out = {}
    for c in type(x).__mro__:
        for n in ([c.__slots__] if isinstance(getattr(c, "__slots__", ()), str) else getattr(c, "__slots__", ())):
            if n not in ("__dict__", "__weakref__") and hasattr(x, n):
                out[n] = getattr(x, n)
    return out


def _canon_rare(x, strict, path):
    import enum
    import functools
    import types
    t = type(x)
    qn = getattr(t, "__qualname__", str(t))
    try:
        import numpy as np
        if isinstance(x, np.ndarray):
            if x.dtype == object:
                return ("nd", "O", x.shape, canon(x.tolist(), strict, path))
            return ("nd", x.dtype.str, x.shape, x.tobytes())
        if isinstance(x, np.generic):
            v = x.item()
            if isinstance(v, (int, float, complex, str, bool, bytes)) and v == v:
                return canon(v, strict, path)
            return x if strict else ("nan", x.dtype.str)
    except ImportError:
        pass
    if isinstance(x, (list, dict, tuple, set, frozenset)):               # subclasses (OrderedDict, namedtuple, ...)
        base = next(b for b in (list, dict, tuple, set, frozenset) if isinstance(x, b))
        return ("sub", qn, canon(base(x), strict, path))
    if isinstance(x, enum.Enum):
        return x if strict else ("enum", qn, x.name)
    if isinstance(x, (types.FunctionType, types.BuiltinFunctionType, types.MethodType, type, types.ModuleType,
                      types.MethodDescriptorType, types.WrapperDescriptorType)):
        self_ = getattr(x, "__self__", None)
        if self_ is not None and not isinstance(self_, types.ModuleType):    # a bound method: new object per copy
            return ("meth", getattr(x, "__name__", "?"), canon(self_, strict, path))
        if strict:
            return x
        if isinstance(x, types.FunctionType):
            cells = [c.cell_contents for c in (x.__closure__ or ()) if c.cell_contents is not x]
            return ("fn", x.__qualname__, x.__code__.co_firstlineno, canon(x.__defaults__, False, path), canon(cells, False, path))
        return ("ref", getattr(x, "__module__", None), getattr(x, "__qualname__", getattr(x, "__name__", repr(x))))
    if isinstance(x, (bytes, bytearray)):
        return ("by" if t is bytes else "ba", bytes(x))
    if isinstance(x, functools.partial):
        return ("partial", canon(x.func, strict, path), canon(x.args, strict, path), canon(x.keywords, strict, path))
    if isinstance(x, BaseException):
        return ("exc-obj", qn, canon(x.args, strict, path), canon(getattr(x, "__dict__", {}), strict, path))
    if isinstance(x, (int, float, complex, str, Fraction, range, memoryview)) or t.__module__ in ("decimal", "datetime"):
        try:
            reflexive = bool(x == x)
        except Exception:  # noqa: BLE001
            reflexive = True
        if not reflexive:
            return x if strict else ("nan", qn, repr(x))
        return ("a", qn, repr(x) if not isinstance(x, memoryview) else bytes(x))
    if x is Ellipsis or x is NotImplemented:
        return ("a", qn, repr(x))
    d = getattr(x, "__dict__", None)
    if isinstance(d, dict) or hasattr(t, "__slots__"):
        if path is None:
            path = set()
        if id(x) in path:
            return ("cycle",)
        path.add(id(x))
        try:
            return ("obj", qn, canon(dict(d) if isinstance(d, dict) else {}, strict, path), canon(_slots(x), strict, path))
        finally:
            path.discard(id(x))
    return ("opaque", qn)                    # generators, locks, ...: compared by kind only


def weq(a, b):
    """the same weight: equal as numbers (an unweighted hypergraph shows 1 for a weight set as 1.0), or both not-a-number"""
    try:
        return a is b or bool(a == b) or (bool(a != a) and bool(b != b))
    except Exception:  # noqa: BLE001
        return False


def edges_same(a, b):
    """{hyperedge: (weight, metadata)}: same hyperedges, same weights (as numbers), same metadata (by structure)"""
    return set(a) == set(b) and all(weq(a[k][0], b[k][0]) and same(a[k][1], b[k][1]) for k in a)


def same(a, b, strict=False):
    """equality of two answers (see canon)"""
    return (canon(a, strict),) == (canon(b, strict),)


def full_digest(kind, h, deep=0, fast=False, light=False):
    """every public query of the object (listing order kept, sets sorted); exceptions are observations.
    deep=1 adds components, serialisation views, filtered per-node queries, the empty-edge probe; deep=2 also the
    matrices and the label mapping.  One alarm for the whole digest (a hang is an observation).
    fast=True: every answer is kept as its repr() instead of its canonical picture - good for comparing ONE object with
    itself at two moments (the same objects sit in it, in the same order), not for comparing two objects"""
    st, v = guard(_full_digest, kind, h, deep, fast, light)
    return v if st == "ok" else {"digest": ("exc", v)}


def _try(fn, *a, **k):
    try:
        return ("ok", fn(*a, **k))
    except Exception as e:  # noqa: BLE001
        return ("exc", type(e).__name__ + ": " + str(e)[:80])


def _full_digest(kind, h, deep, fast=False, light=False):
    d = {}
    guard = _try                        # no nested alarms inside the digest
    picture = repr if fast else canon
    if light:
        # the stored tables only (every listing, the adjacency, the id table): a subset of the keys of the full digest
        def ql(name, fn, *a, **k):
            try:
                d[name] = picture(fn(*a, **k))
            except Exception as e:  # noqa: BLE001
                d[name] = ("exc", type(e).__name__)
        ql("nodes_md", h.get_nodes, metadata=True)
        ql("edges_md", h.get_edges, metadata=True)
        ql("weights", h.get_weights, asdict=True)
        ql("weights_l", h.get_weights)
        ql("weighted", h.is_weighted)
        ql("str", str, h)
        ql("hmeta", h.get_hypergraph_metadata)
        ql("all_imeta", h.get_all_incidences_metadata)
        ql("edge_list", h.get_edge_list)
        ql("empty_private", lambda: getattr(h, "_empty_edges", "n/a"))
        if kind == "u":
            ql("adj", h.get_adj_dict)
        else:
            ql("adj_s", h.get_adj_dict, "source")
            ql("adj_t", h.get_adj_dict, "target")
        return d

    def q(name, fn, *a, **k):
        try:
            d[name] = picture(fn(*a, **k))
        except Exception as e:  # noqa: BLE001
            d[name] = ("exc", type(e).__name__)

    q("nodes", h.get_nodes)
    q("nodes_md", h.get_nodes, metadata=True)
    q("edges", h.get_edges)
    q("edges_md", h.get_edges, metadata=True)
    q("weights", h.get_weights, asdict=True)
    q("weights_l", h.get_weights)
    q("weighted", h.is_weighted)
    q("num_nodes", h.num_nodes)
    q("num_edges", h.num_edges)
    q("len", len, h)
    q("str", str, h)
    q("sizes", h.get_sizes)
    q("orders", h.get_orders)
    q("dist", h.distribution_sizes)
    q("max_size", h.max_size)
    q("max_order", h.max_order)
    q("uniform", h.is_uniform)
    q("hmeta", h.get_hypergraph_metadata)
    q("all_nmeta", h.get_all_nodes_metadata)
    q("all_emeta", h.get_all_edges_metadata)
    q("all_imeta", h.get_all_incidences_metadata)
    q("edge_list", h.get_edge_list)
    q("iter", lambda: list(iter(h)))
    q("degseq", h.degree_sequence)
    for s in (1, 2, 3, 4, 5):
        q(f"edges_s{s}", h.get_edges, size=s)
        q(f"edges_o{s}u", h.get_edges, order=s - 1, up_to=True)
        q(f"weights_s{s}", h.get_weights, size=s, asdict=True)
    if kind == "u":
        q("adj", h.get_adj_dict)
        q("isolated", h.isolated_nodes)
        q("ncc", h.num_connected_components)
        q("num_edges_s2u", h.num_edges, size=2, up_to=True)
    else:
        q("adj_s", h.get_adj_dict, "source")
        q("adj_t", h.get_adj_dict, "target")
        q("sources", h.get_sources)
        q("targets", h.get_targets)
    st, nodes = guard(h.get_nodes)
    for n in (nodes if st == "ok" else []):
        q(f"inc{n!r}", h.get_incident_edges, n)
        q(f"inc2{n!r}", h.get_incident_edges, n, size=2)
        q(f"nb{n!r}", h.get_neighbors, n)
        q(f"deg{n!r}", h.degree, n)
        q(f"nm{n!r}", h.get_node_metadata, n)
        q(f"chk{n!r}", h.check_node, n)
        if kind == "d":
            q(f"se{n!r}", h.get_source_edges, n)
            q(f"te{n!r}", h.get_target_edges, n)
    st, edges = guard(h.get_edges)
    for e in (edges if st == "ok" else []):
        q(f"w{e!r}", h.get_weight, e)
        q(f"em{e!r}", h.get_edge_metadata, e)
        q(f"ce{e!r}", h.check_edge, e)
    st, inc = guard(h.get_all_incidences_metadata)
    for key in (list(inc) if st == "ok" and isinstance(inc, dict) else []):
        if isinstance(key, tuple) and len(key) == 2:
            q(f"im{key!r}", h.get_incidence_metadata, key[0], key[1])
    q("empty_private", lambda: getattr(h, "_empty_edges", "n/a"))
    if not deep:
        return d
    q("empty_names", empty_edge_names, h)
    q("hashing", h.expose_attributes_for_hashing)
    q("structures", h.expose_data_structures)
    q("degdist", h.degree_distribution)
    q("isolated_d", h.isolated_nodes)
    for s in (1, 2, 3):
        q(f"degseq_s{s}", h.degree_sequence, size=s)
        q(f"isolated_s{s}", h.isolated_nodes, size=s)
    if kind == "u":
        q("cc", h.connected_components)
        q("connected", h.is_connected)
        for flt in ({}, {"size": 2}, {"size": 3}, {"order": 1}):
            q(f"lcc{flt}", h.largest_component, **flt)
            q(f"lccsize{flt}", h.largest_component_size, **flt)
            q(f"ncc{flt}", h.num_connected_components, **flt)
    if deep >= 2:
        q("mapping", lambda: list(h.get_mapping().classes_))
        if kind == "u":
            q("inc_matrix", lambda: _matrix(h.incidence_matrix(return_mapping=True)))
            q("bin_inc_matrix", lambda: _matrix(h.binary_incidence_matrix(return_mapping=True)))
            q("adj_matrix", lambda: _matrix(h.adjacency_matrix(return_mapping=True)))
    st, nodes = guard(h.get_nodes)
    for n in (nodes if st == "ok" else []):
        q(f"iso{n!r}", h.is_isolated, n)
        for s in (1, 2, 3):
            q(f"nb{n!r}s{s}", h.get_neighbors, n, size=s)
            q(f"inc{n!r}o{s}", h.get_incident_edges, n, order=s)
            q(f"deg{n!r}s{s}", h.degree, n, size=s)
        if kind == "u":
            q(f"ncomp{n!r}", h.node_connected_component, n)
    return d


def _matrix(r):
    m, mp = r
    return (m.toarray().tolist(), mp)


DEEP2 = ("mapping", "inc_matrix", "bin_inc_matrix", "adj_matrix")


def digest_diff(a, b):
    ks = [k for k in sorted(set(a) | set(b)) if a.get(k) != b.get(k)]
    return None if not ks else f"{ks[0]}: {a.get(ks[0])!r} -> {b.get(ks[0])!r}" + (f" (+{len(ks) - 1} more)" if len(ks) > 1 else "")


# ------------------------------------------------------------------------------------------
# tokens for the comparison with the model

VAL_TOK = {repr(canon(mk())): i for i, (_, mk) in enumerate(VALS)}
KEY_TOK = {repr(canon(k)): i for i, k in enumerate(MD_KEYS)}
assert len(VAL_TOK) == len(VALS) and len(KEY_TOK) == len(MD_KEYS)


def tok_val(v):
    """value -> index of its kind (by structure: a fresh object of the same recipe has the same token)"""
    r = repr(canon(v))
    return VAL_TOK.get(r, r[:200])


def tok_key(k):
    r = repr(canon(k))
    return KEY_TOK.get(r, r[:200])


def tok_md(md):
    if not isinstance(md, dict):
        return ("not-a-dict", repr(md)[:200])
    return tuple(sorted(((tok_key(k), tok_val(v)) for k, v in md.items()), key=repr))


def tok_hmeta(md):
    out = []
    for k, v in md.items():
        if k == "weighted" and isinstance(v, bool):
            out.append((H_WEIGHTED, int(v)))
        elif k == "type" and v in TYPE_TOK:
            out.append((H_TYPE, TYPE_TOK[v]))
        else:
            out.append((tok_key(k), tok_val(v)))
    return tuple(sorted(out, key=repr))


def tok_aux(case, aux):
    """-> ([((key ranks, node rank), md tokens)] in listing order, [(name index, md tokens)], hypergraph md tokens)"""
    rk = {x: i for i, x in enumerate(case["labels"])}
    f = lambda xs: tuple(rk.get(x, repr(x)) for x in xs) if isinstance(xs, tuple) else repr(xs)  # noqa: E731
    inc = []
    for key, md in aux["inc"].items():
        if not (isinstance(key, tuple) and len(key) == 2):
            inc.append((repr(key), tok_md(md)))
            continue
        e, n = key
        if case["kind"] == "u":
            ek = f(e)
        else:
            ek = (f(e[0]), f(e[1])) if isinstance(e, tuple) and len(e) == 2 else repr(e)
        inc.append(((ek, rk.get(n, repr(n))), tok_md(md)))
    empty = [(EMPTY_NAMES.index(k) if k in EMPTY_NAMES else repr(k), "?" if md is None else tok_md(md)) for k, md in aux["empty"]]
    return (inc, empty, tok_hmeta(aux["hmeta"]))


def tok_snap(case, s):
    """python content -> (weighted, {rank: md tokens}, {rank key: (quanta, md tokens)}, aux tokens)"""
    if s[0] == "exc":
        return s
    L = case["labels"]
    rk = {x: i for i, x in enumerate(L)}
    nodes = {rk.get(n, repr(n)): tok_md(md) for n, md in s[1].items()}
    edges = {}
    for k, (w, md) in s[2].items():
        kk = tuple(rk.get(x, repr(x)) for x in k) if case["kind"] == "u" else \
            (tuple(rk.get(x, repr(x)) for x in k[0]), tuple(rk.get(x, repr(x)) for x in k[1]))
        try:
            q = Fraction(w) / WSCALE if case.get("wscale") else Fraction(w) * 4
            q = int(q) if q.denominator == 1 else repr(w)
        except Exception:  # noqa: BLE001
            q = repr(w)
        edges[kk] = (q, tok_md(md))
    return (s[0], nodes, edges, tok_aux(case, s[3]))


def parse_model(kind, line):
    """`w|n:md;...|key=w=md;...|key@n=md;...|name=md;...|md` -> same shape as tok_snap"""
    def md(t):
        return () if t == "-" else tuple(sorted((tuple(int(x) for x in p.split(":")) for p in t.split(",")), key=repr))

    def ints(t):
        return () if t == "_" else tuple(int(x) for x in t.split(","))
    try:
        w, ns, es, ims, ees, hm = line.split("|")
        nodes = {}
        if ns != "~":
            for item in ns.split(";"):
                n, m = item.split(":", 1)
                nodes[int(n)] = md(m)
        edges = {}
        if es != "~":
            for item in es.split(";"):
                k, q, m = item.split("=")
                kk = ints(k) if kind == "u" else tuple(ints(p) for p in k.split(">"))
                edges[kk] = (int(q), md(m))
        inc = []
        if ims != "~":
            for item in ims.split(";"):
                k, m = item.split("=")
                k, n = k.split("@")
                kk = ints(k) if kind == "u" else tuple(ints(p) for p in k.split(">"))
                inc.append(((kk, int(n)), md(m)))
        empty = []
        if ees != "~":
            for item in ees.split(";"):
                k, m = item.split("=")
                empty.append((int(k), md(m)))
        return (w == "1", nodes, edges, (inc, empty, md(hm)))
    except Exception:  # noqa: BLE001
        return ("unparsable", line)


# ------------------------------------------------------------------------------------------
# selections

def all_selections(rng, case, n_nodes_present, tier_full=True):
    kind = case["kind"]
    sels = []
    if kind == "u":
        present = n_nodes_present
        for r in range(len(present) + 1):
            for sub in itertools.combinations(present, r):
                lst = list(sub)
                rng.shuffle(lst)
                if lst and rng.random() < 0.1:
                    lst.append(rng.choice(lst))
                sels.append({"f": "induced", "nodes": lst})
        for r in range(6):
            for sub in itertools.combinations([1, 2, 3, 4, 5], r):
                lst = list(sub)
                rng.shuffle(lst)
                for keep in (True, False):
                    sels.append({"f": "bysizes", "sizes": lst, "keep": keep})
                    sels.append({"f": "byorders", "orders": [s - 1 for s in lst], "keep": keep})
        for _ in range(6):
            lst = [rng.randint(0, 4) for _ in range(rng.randint(2, 5))]    # repetitions, size 0 / order -1 (nothing has it)
            sels.append({"f": "bysizes", "sizes": lst, "keep": rng.random() < 0.5})
            sels.append({"f": "byorders", "orders": [s - 1 for s in lst], "keep": rng.random() < 0.5})
        for flt in ({}, {"size": 2}, {"size": 3}, {"order": 1}, {"order": 2}, {"order": 0}, {"size": 1}, {"size": 0}):
            sels.append({"f": "lcc", **flt})
        sels.append({"f": "lcc", "size": 2, "order": 1, "malformed": True})
        # malformed (model comparison only)
        sels.append({"f": "bysizes", "sizes": None, "keep": True, "malformed": True})
        sels.append({"f": "byorders", "orders": [1], "sizes": [2], "keep": True, "malformed": True})
        if len(present) < len(case["labels"]):
            out = [r for r in range(len(case["labels"])) if r not in present]
            sels.append({"f": "induced", "nodes": list(present[:1]) + out[:1], "malformed": True})
    # get_edges: EVERY combination of (order | size | neither) x up_to x subhypergraph x keep_isolated_nodes x metadata.
    # sub (default True) = the subhypergraph flag, md = the metadata flag (None: not mentioned by the caller).  With
    # subhypergraph=False the call is the plain listing (a list, or {hyperedge: metadata}); keep_isolated_nodes=True is
    # then documented to raise
    filters = [{}] + [x for s in (1, 2, 3, 4, 5) for x in ({"size": s}, {"order": s - 1})]
    for up_to in (False, True):
        for flt in filters:
            for keep in (False, True):
                base = {"f": "edges", **flt, "up_to": up_to, "keep": keep}
                sels.append(dict(base))
                sels.append({**base, "md": True})
                if rng.random() < 0.25:
                    sels.append({**base, "md": False})
            for md in ((None, True) if tier_full or rng.random() < 0.5 else (rng.choice((None, True, False)),)):
                sels.append({"f": "edges", **flt, "up_to": up_to, "keep": False, "sub": False, "md": md})
    for up_to in (False, True):          # the falsy size / the order below every hyperedge
        for flt in ({"size": 0}, {"order": -1}):
            sels.append({"f": "edges", **flt, "up_to": up_to, "keep": rng.random() < 0.5, "md": rng.choice((None, True, False))})
            sels.append({"f": "edges", **flt, "up_to": up_to, "keep": False, "sub": False, "md": rng.choice((None, True))})
    sels.append({"f": "edges", "size": 2, "order": 1, "up_to": False, "keep": True, "malformed": True})
    for md in (None, True):              # documented rejection: isolated nodes can only be kept in a sub-hypergraph
        sels.append({"f": "edges", **rng.choice(filters), "up_to": rng.random() < 0.5, "keep": True, "sub": False, "md": md,
                     "malformed": True})
    return with_style(rng, sels)


def with_style(rng, sels):
    for sel in sels:
        sel["sty"] = rng.randrange(1 << 30)       # seed of the call's presentation, see call_selection
    return sels


def sample_selections(rng, case, present, S, k=14):
    """large sources: a sample of every kind of selection (node subsets of every density, lists of sizes up to the
    largest size present, (order|size, up_to, keep) around the sizes present, the largest component)"""
    kind = case["kind"]
    ps = sorted({len(members(kind, e)) for e in S[2]}) or [1]          # the sizes present
    top = ps[-1]
    pool = ps + ps + [0, top + 1, rng.randint(0, top + 1)]
    sels = []
    if kind == "u":
        for _ in range(k):
            dens = rng.choice([0.1, 0.3, 0.5, 0.8, 0.95, 1.0])
            lst = [r for r in present if rng.random() < dens]
            rng.shuffle(lst)
            if lst and rng.random() < 0.2:
                lst.append(rng.choice(lst))
            sels.append({"f": "induced", "nodes": lst})
        for _ in range(k):
            lst = [rng.choice(pool) for _ in range(rng.randint(1, 5))]
            if rng.random() < 0.5:
                sels.append({"f": "bysizes", "sizes": lst, "keep": rng.random() < 0.5})
            else:
                sels.append({"f": "byorders", "orders": [x - 1 for x in lst], "keep": rng.random() < 0.5})
        for flt in ({}, {"size": 2}, {"size": 3}, {"order": 1}, {"size": top}):
            sels.append({"f": "lcc", **flt})
    for _ in range(2 * k):
        x = rng.choice(pool)
        sel = {"f": "edges", "up_to": rng.random() < 0.5, "keep": rng.random() < 0.5}
        if rng.random() < 0.5:
            sel["size"] = x
        else:
            sel["order"] = x - 1
        flags_at_random(rng, sel)
        sels.append(sel)
    sels.append({"f": "edges", "up_to": False, "keep": False})
    sels.append({"f": "edges", "up_to": False, "keep": True, "md": True})
    return with_style(rng, sels)


def flags_at_random(rng, sel):
    """the two remaining flags of get_edges for a drawn (order | size, up_to, keep) selection"""
    x = rng.random()
    if x < 0.35:
        sel["md"] = True
    elif x < 0.45:
        sel["md"] = False
    if rng.random() < 0.2:
        sel["sub"], sel["keep"] = False, False
    return sel


def layout_selections(rng, case, present, S):
    """component-layout sources: the largest component under every filter, the induced sub-hypergraph on every connected
    component (a node selection that is exactly the node set of its hyperedges), a few size selections"""
    sels = [{"f": "lcc", **flt} for flt in LCC_FILTERS]
    L = case["labels"]
    rk = {x: i for i, x in enumerate(L)}
    for flt in ({}, {"size": 2}, {"size": 3}):
        for comp in components(case["kind"], S, flt):
            lst = sorted(rk[x] for x in comp)
            rng.shuffle(lst)
            sel = {"f": "induced", "nodes": lst}
            if sel not in sels:
                sels.append(sel)
    for s_ in (1, 2, 3):
        sels.append({"f": "bysizes", "sizes": [s_], "keep": rng.random() < 0.5})
        sels.append(flags_at_random(rng, {"f": "edges", "size": s_, "up_to": rng.random() < 0.5, "keep": rng.random() < 0.5}))
    return with_style(rng, sels)


NODE_CONTAINERS = ["list"] * 9 + ["tuple", "tuple", "set", "set", "frozenset", "dict", "dict_keys", "ndarray", "deque"]
SIZE_CONTAINERS = ["list"] * 8 + ["tuple", "tuple", "set", "frozenset", "dict_keys", "ndarray", "generator", "iterator", "range"]


def np_ok(x):
    return isinstance(x, (int, float, str)) and not isinstance(x, bool) and (not isinstance(x, int) or abs(x) < 2 ** 62)


def present_nodes(case, sel, pr):
    """the node selection as handed to subhypergraph(): fresh equal label objects in a re-iterable collection of a drawn
    type (subhypergraph() walks its argument three times: one-shot iterators are not an input of the unchanged code);
    returns (argument, ranks in the order in which the collection yields them)"""
    L = case["labels"]
    ranks = list(sel["nodes"])
    kind = sel.get("as") or pr.choice(NODE_CONTAINERS)
    labels = [L[r] for r in ranks]
    if kind == "ndarray" and not (labels and all(np_ok(x) for x in labels) and len({type(x) for x in labels}) == 1):
        kind = "list"
    objs = [fresh(x) for x in labels]
    if kind == "list" and pr.random() < 0.08 and all(np_ok(x) and not isinstance(x, str) for x in labels):
        import numpy as np
        objs = [(np.int64(x) if isinstance(x, int) else np.float64(x)) if pr.random() < 0.6 else x for x in objs]
    rk = {x: i for i, x in enumerate(L)}
    if kind == "tuple":
        arg = tuple(objs)
    elif kind in ("set", "frozenset"):
        arg = set(objs) if kind == "set" else frozenset(objs)
    elif kind in ("dict", "dict_keys"):
        arg = {x: pr.randrange(3) for x in objs}
        if kind == "dict_keys":
            arg = arg.keys()
    elif kind == "ndarray":
        import numpy as np
        arg = np.array(objs)
    elif kind == "deque":
        arg = collections.deque(objs)
    else:
        arg = list(objs)
    sel["_cont"] = kind
    return arg, [rk[x.item() if hasattr(x, "item") and not isinstance(x, (int, float, str)) else x] for x in arg]


def present_sizes(vals, sel, pr):
    """a list of sizes / orders as handed to subhypergraph_by_orders(): any iterable (it is walked once);
    returns (argument, values in the order in which it yields them)"""
    kind = sel.get("as") or pr.choice(SIZE_CONTAINERS)
    vals = [int(str(v)) for v in vals]
    if kind == "range" and not (vals and vals == list(range(vals[0], vals[0] + len(vals)))):
        kind = "list"
    if kind == "tuple":
        return tuple(vals), vals
    if kind in ("set", "frozenset"):
        arg = set(vals) if kind == "set" else frozenset(vals)
        return arg, list(arg)
    if kind == "dict_keys":
        arg = dict.fromkeys(vals)
        return arg.keys(), list(arg)
    if kind == "ndarray":
        import numpy as np
        return np.array(vals, dtype=np.int64), vals
    if kind == "generator":
        return (v for v in vals), vals
    if kind == "iterator":
        return iter(list(vals)), vals
    if kind == "range":
        return range(vals[0], vals[0] + len(vals)), vals
    if pr.random() < 0.08:
        import numpy as np
        return [np.int64(v) if pr.random() < 0.6 else v for v in vals], vals
    return list(vals), vals


def scribble_in(arg):
    """overwrite a collection that was handed in (after the call returned): the result must not be built on it"""
    try:
        if isinstance(arg, list):
            arg[:] = ["junk-in"]
        elif isinstance(arg, (set, dict)):
            arg.clear()
        elif isinstance(arg, collections.deque):
            arg.clear()
            arg.append("junk-in")
        elif hasattr(arg, "fill") and arg.dtype.kind in "if" and arg.size:
            arg.fill(arg.max() + 1)
    except Exception:  # noqa: BLE001
        pass


def num_arg(v, pr):
    """an order / size: a fresh int, now and then a numpy integer"""
    if v is None:
        return None
    if pr.random() < 0.06:
        import numpy as np
        return np.int64(v)
    return int(str(v))


def flag_arg(b, pr):
    """a flag as the caller may hold it: a bool; now and then 1 / 0, a numpy bool (the result of a comparison), None for False"""
    x = pr.random()
    if x < 0.04:
        return 1 if b else 0
    if x < 0.07:
        import numpy as np
        return np.bool_(bool(b))
    if x < 0.09 and not b:
        return None
    return bool(b)


def spell(pr, fn, names, vals, defaults, k=None, full=False):
    """call fn with the arguments `vals`: the first k positionally, the others by keyword; a keyword argument that has
    its default value is left out half of the time (never when `full`)"""
    if k is None:
        k = pr.choice([0, 0, 0] + list(range(len(names) + 1)) + [len(names)])
    kw = {}
    for name, v, d in zip(names[k:], vals[k:], defaults[k:]):
        is_default = (v is d) or (type(v) is type(d) and v == d)
        if full or not is_default or pr.random() < 0.5:
            kw[name] = v
    return guard(fn, *vals[:k], **kw)


GET_EDGES_ARGS = ["order", "size", "up_to", "subhypergraph", "keep_isolated_nodes", "metadata"]
GET_EDGES_DEFAULTS = [None, None, False, False, False, False]


def call_selection(case, h, sel):
    """one extraction call.  The presentation of the call (label objects, collection types, which arguments go
    positionally / by keyword / are left out, flags as bools or as 1 / 0) is drawn from sel["sty"], so a replay repeats it"""
    f = sel["f"]
    pr = _random.Random(sel.get("sty", 0))
    styled = "sty" in sel and not sel.get("malformed")
    if f == "induced":
        arg, order = present_nodes(case, sel, pr)
        sel["_iter"] = order                               # the order in which the code will meet the nodes
        out = guard(h.subhypergraph, arg) if pr.random() < 0.6 else guard(h.subhypergraph, nodes=arg)
        scribble_in(arg)
        return out
    if f in ("byorders", "bysizes"):
        args = {}
        for name in ("orders", "sizes"):
            if sel.get(name) is not None:
                args[name], sel["_" + name] = present_sizes(sel[name], sel, pr)
            else:
                args[name] = None
        keep = flag_arg(sel["keep"], pr)
        out = spell(pr, h.subhypergraph_by_orders, ["orders", "sizes", "keep_nodes"], [args["orders"], args["sizes"], keep],
                    [None, None, True], k=None if styled else 0, full=not styled)
        for a in args.values():
            scribble_in(a)
        return out
    if f == "edges":
        order, size = num_arg(sel.get("order"), pr), num_arg(sel.get("size"), pr)
        up_to, keep = flag_arg(sel["up_to"], pr), flag_arg(sel["keep"], pr)
        sub = flag_arg(sel.get("sub", True), pr)
        md = sel.get("md")                                 # None: the caller does not mention the flag
        md = False if md is None else flag_arg(md, pr)
        return spell(pr, h.get_edges, GET_EDGES_ARGS, [order, size, up_to, sub, keep, md], GET_EDGES_DEFAULTS,
                     k=None if styled else 0, full=not styled or (sel.get("md") is False and pr.random() < 0.5))
    if f == "lcc":
        order, size = num_arg(sel.get("order"), pr), num_arg(sel.get("size"), pr)
        return spell(pr, h.subhypergraph_largest_component, ["size", "order"], [size, order], [None, None],
                     k=None if styled else 0, full=not styled)
    raise ValueError(f)


def expected(case, S, sel, comp=None):
    """the property's words on the content S = (weighted, nodes, edges) of the source"""
    kind = case["kind"]
    L = case["labels"]
    nodes, edges = S[1], S[2]
    size = lambda k: len(members(kind, k))  # noqa: E731
    f = sel["f"]
    if f in ("induced", "lcc"):
        ns = set(L[r] for r in sel["nodes"]) if f == "induced" else set(comp)
        keep = {k: v for k, v in edges.items() if set(members(kind, k)) <= ns}
        return (S[0], {n: nodes[n] for n in ns}, keep)
    if f in ("bysizes", "byorders"):
        sizes = set(sel["sizes"]) if f == "bysizes" else set(o + 1 for o in sel["orders"])
        keep = {k: v for k, v in edges.items() if size(k) in sizes}
        all_nodes = sel["keep"]
    else:
        if sel.get("size") is None and sel.get("order") is None:
            keep = dict(edges)
        else:
            s = sel["size"] if sel.get("size") is not None else sel["order"] + 1
            keep = {k: v for k, v in edges.items() if (size(k) <= s if sel["up_to"] else size(k) == s)}
        all_nodes = sel["keep"]
    if all_nodes:
        return (S[0], dict(nodes), keep)
    used = set(x for k in keep for x in members(kind, k))
    return (S[0], {n: nodes[n] for n in used}, keep)


def components(kind, S, sel):
    """the connected components of the source restricted to the hyperedges passing the filter (own union-find)"""
    nodes, edges = S[1], S[2]
    s = sel.get("size") if sel.get("size") is not None else (sel["order"] + 1 if sel.get("order") is not None else None)
    parent = {n: n for n in nodes}

    def find(x):
        while parent[x] != x:
            parent[x] = parent[parent[x]]
            x = parent[x]
        return x
    for k in edges:
        m = members(kind, k)
        if s is None or len(m) == s:
            for x in m[1:]:
                parent[find(x)] = find(m[0])
    comps = {}
    for n in nodes:
        comps.setdefault(find(n), set()).add(n)
    return list(comps.values())


def largest_components(kind, S, sel):
    """all connected components of maximum size under the filter"""
    comps = components(kind, S, sel)
    best = max((len(c) for c in comps), default=0)
    return [c for c in comps if len(c) == best]


def model_selection(case, sel, comp_ranks=None):
    k = case["kind"]
    f = sel["f"]
    ints = lambda xs: hgxv.enc_list(xs)  # noqa: E731
    if f == "induced":
        return f"{k} induced 0 1 {ints(sel.get('_iter', sel['nodes']))}"
    if f == "lcc":
        return f"{k} lcc 0 1 {ints(comp_ranks)}"
    if f in ("bysizes", "byorders"):
        os_ = sel.get("_orders", sel.get("orders"))
        ss = sel.get("_sizes", sel.get("sizes"))
        return f"{k} byorders 0 1 {'n' if os_ is None else ints(os_)} {'n' if ss is None else ints(ss)} {int(sel['keep'])}"
    return (f"{k} getedges 0 1 {w_opt(sel.get('order'))} {w_opt(sel.get('size'))} {int(sel['up_to'])} "
            f"{int(bool(sel.get('sub', True)))} {int(sel['keep'])} {int(bool(sel.get('md')))}")


def parse_answer(kind, a):
    """answer of the model's get_edges: 'rej' | 'sub' | ('keys', sorted keys) | ('keysmd', sorted (key, md tokens))"""
    def md(t):
        return () if t == "-" else tuple(sorted((tuple(int(x) for x in p.split(":")) for p in t.split(",")), key=repr))

    def key(t):
        ints = lambda u: () if u == "_" else tuple(int(x) for x in u.split(","))  # noqa: E731
        return ints(t) if kind == "u" else tuple(ints(p) for p in t.split(">"))
    try:
        if a in ("rej", "sub"):
            return a
        head, _, body = a.partition(" ")
        items = [] if body == "~" else body.split(";")
        if head == "keys":
            return ("keys", sorted(key(t) for t in items))
        if head == "keysmd":
            return ("keysmd", sorted((key(t.split("=")[0]), md(t.split("=")[1])) for t in items))
    except Exception:  # noqa: BLE001
        pass
    return ("unparsable", a)


def tok_answer(case, st, r, cls):
    """the implementation's answer to get_edges in the same shape (None: nothing comparable, e.g. unhashable keys)"""
    if st != "ok":
        return "rej"
    if type(r) is cls:
        return "sub"
    rk = {x: i for i, x in enumerate(case["labels"])}

    def key(k):
        f = lambda xs: tuple(rk.get(x, repr(x)) for x in xs)  # noqa: E731
        return f(k) if case["kind"] == "u" else (f(k[0]), f(k[1]))
    try:
        if type(r) is list:
            return ("keys", sorted(key(k) for k in r))
        if type(r) is dict:
            return ("keysmd", sorted((key(k), tok_md(m)) for k, m in r.items()))
    except Exception:  # noqa: BLE001
        pass
    return ("other", type(r).__name__)


# ------------------------------------------------------------------------------------------
# one source: build, all selections, copy rounds

def warm(case, h):
    """ask every query and every extraction once and drop the answers; case["warm_sels"]: selections to ask as well"""
    kind = case["kind"]
    full_digest(kind, h, deep=1)
    for sel in case.get("warm_sels", []):
        call_selection(case, h, dict(sel))
    calls = [lambda: h.get_edges(subhypergraph=True), lambda: h.get_edges(subhypergraph=True, keep_isolated_nodes=True)]
    for s_ in (0, 1, 2, 3, 4):
        for up_to in (False, True):
            calls.append(lambda s_=s_, up_to=up_to: h.get_edges(size=s_, up_to=up_to, subhypergraph=True))
            calls.append(lambda s_=s_, up_to=up_to: h.get_edges(order=s_, up_to=up_to, subhypergraph=True, keep_isolated_nodes=True))
    calls.append(h.copy)
    if kind == "u":
        calls += [lambda: h.subhypergraph(list(h.get_nodes())), lambda: h.subhypergraph(list(h.get_nodes())[:2]),
                  lambda: h.subhypergraph_by_orders(sizes=[1, 2, 3, 4, 5]), lambda: h.subhypergraph_by_orders(orders=[1], keep_nodes=False),
                  h.subhypergraph_largest_component, lambda: h.subhypergraph_largest_component(size=2)]
    for c in calls:
        guard(c)


def build(case, ops=None):
    """realise a history.  With case["copy_at"] = k the object is replaced by its copy() after k operations and the
    original is mutated by case["junk"] afterwards: the rest of the history (and everything the check does) then runs on
    a COPY whose original changed - for the model a copy is the same value, so nothing changes there.
    With case["warm_at"] = k everything is asked once after k operations (see `warm`)"""
    h = new_object(case)
    outs = []
    for i, op in enumerate(case["history"] if ops is None else ops):
        if case.get("copy_at") == i:
            st, c = guard(h.copy)
            if st == "ok" and c is not None:
                for j in case.get("junk", []):
                    apply_py(case, h, j)
                h = c
        if case.get("warm_at") == i:
            warm(case, h)
        outs.append(apply_py(case, h, op)[0])
    return h, outs


def src_key(case, S):
    if S[0] == "exc":
        return repr(S)
    return repr((case["kind"], S[0], canon(S[1]), canon(S[2]), canon(S[3]["inc"]), canon(S[3]["empty"]), canon(S[3]["hmeta"])))


def rank_keys(case, S):
    """canonical rank keys of the hyperedges of the content S (for the mutation generator)"""
    rk = {x: i for i, x in enumerate(case["labels"])}
    out = set()
    for k in S[2]:
        try:
            out.add(tuple(sorted(rk[x] for x in k)) if case["kind"] == "u" else
                    (tuple(sorted(rk[x] for x in k[0])), tuple(sorted(rk[x] for x in k[1]))))
        except Exception:  # noqa: BLE001
            pass
    return out


ORDER_ONLY = [0]


def viol(ctx, case, what):
    """a failing input (values of metadata can be long: the text is cut)"""
    ctx.violation(case, what if len(what) <= 2500 else what[:2500] + " ...")


def enough(ctx):
    """the search goes on while only the MODEL comparison differs (a change of the listing order differs on every
    harmless call): it ends after 5 failing inputs (or 3 hangs)"""
    return len(ctx.violations) >= 5 or TIMEOUTS[0] >= 3


SEL_KEYS = ("f", "nodes", "sizes", "orders", "size", "order", "up_to", "keep", "sub", "md", "malformed", "as")


def listing_wrong(case, S, sel, st, r):
    """get_edges(..., subhypergraph=False): the returned TYPE first (a list; with metadata a dict {hyperedge: metadata}),
    then exactly the hyperedges of the selection, each once, with the metadata the per-hyperedge getter shows"""
    if st != "ok":
        return f"raised {r}"
    want = expected(case, S, {**sel, "keep": True})[2]
    if sel.get("md"):
        if type(r) is not dict:
            return f"returned a {type(r).__name__} instead of the dict hyperedge -> metadata: {r!r}"[:600]
        if set(r) != set(want):
            return f"lists the hyperedges {sorted(r, key=repr)}, the selection holds {sorted(want, key=repr)}"
        bad = [k for k in r if not same(r[k], want[k][1])]
        return f"metadata of {bad[0]!r}: {r[bad[0]]!r}, get_edge_metadata gives {want[bad[0]][1]!r}" if bad else None
    if type(r) is not list:
        return f"returned a {type(r).__name__} instead of the list of hyperedges: {r!r}"[:600]
    if len(set(r)) != len(r) or set(r) != set(want):
        return f"lists the hyperedges {sorted(r, key=repr)}, the selection holds {sorted(want, key=repr)}"
    return None


def result_differs(kind, cls, r2, got):
    if type(r2) is not cls:
        return f"a {type(r2).__name__} instead of a {cls.__name__}"
    g2 = snap(r2)
    if g2[0] == "exc":
        return f"a result that cannot be observed: {g2[1]}"
    for i, what in ((0, "weightedness"), (1, "nodes / node metadata"), (2, "hyperedges / weights / metadata"), (3, "incidence / hypergraph metadata")):
        if not (edges_same(g2[i], got[i]) if i == 2 else same(g2[i], got[i])):
            return f"other {what}: {g2[i]!r} instead of {got[i]!r}"
    return None


def cold_call(ctx, case, full, sel, before, differs):
    """the same call on a freshly built twin of the source that was never asked anything: same answer, twin untouched"""
    h2, _ = build({k: v for k, v in case.items() if k not in ("warm_at", "warm_sels")})
    st2, r2 = call_selection(case, h2, {k: v for k, v in sel.items() if not k.startswith("_")})
    ctx.count("calls_repeated_on_a_never_queried_twin")
    if st2 != "ok":
        viol(ctx, full, f"{sel} on a freshly built, never queried source raised {r2} (it returns after the queries of a digest)")
        return
    why = differs(r2)
    if why:
        viol(ctx, full, f"{sel} on a freshly built, never queried source gives {why}")
    dd = digest_diff(before, full_digest(case["kind"], h2)) if before is not None else None
    if dd:
        viol(ctx, full, f"{sel} as the first call on a freshly built source changed it (or it differs from the queried one): {dd}")


def check_source(ctx, drv, case, only=None):
    """never lets an exception of the implementation (or caused by an unexpected answer of it) escape: on the
    unchanged tree none occurs, so under a changed tree it is an observation about the implementation"""
    case = {**case, "labels": [norm_label(x) for x in case["labels"]]}
    if len(ctx.disagreements) >= 5:
        drv = None                      # the model comparison has said what it had to say; the oracles go on
    try:
        _check_source(ctx, drv, case, only)
    except RuntimeError as e:
        if "lean driver" in str(e):
            raise
        viol(ctx, {**case, "sel": None}, f"exception while exercising the implementation: RuntimeError: {e}")
    except Exception as e:  # noqa: BLE001
        import traceback
        tbs = traceback.extract_tb(e.__traceback__)
        tb = ([t for t in tbs if t.filename.endswith("c05.py")] or tbs)[-1]
        viol(ctx, {**case, "sel": None},
                      f"exception while exercising the implementation: {type(e).__name__}: {str(e)[:120]} ({tb.name}:{tb.lineno})")
    if TIMEOUTS[0] >= 3:
        viol(ctx, {**case, "sel": None}, "calls of the implementation did not return within 10 s (3 times)")


def _check_source(ctx, drv, case, only=None):
    kind = case["kind"]
    L = case["labels"]
    regime(case)
    copyable = case.get("nv", NV_PLAIN) <= NV_COPYABLE       # no value in it that copy.deepcopy refuses
    h, outs = build(case)
    S = snap(h)
    if S[0] == "exc":
        viol(ctx, {**case, "sel": None}, "the source cannot be observed through the public API: " + str(S[1]))
        return
    # remove_node / clear / add_nodes are model operations; one dict OBJECT handed to several items (`sharemd`) and weights of
    # every numeric kind (`xw`) are outside a value-based model with integer quanta
    modelled = not case.get("xw") and not any(op[0] == "sharemd" for op in case["history"])
    if modelled:
        for op, o in zip(case["history"], outs):
            if op[0] in ("rmnodex", "rmedges", "rmnodes") and o != "ok":
                ctx.count("model_op_" + op[0] + "_raised_" + kind)
        for op in case["history"]:
            if op[0] in ("rmnode", "clear", "addnodes", "rmnodex", "rmedges", "rmnodes"):
                ctx.count("model_op_" + op[0] + ("_keep" if op[0] == "rmnode" and op[2] else "") +
                          ("_table" if op[0] == "addnodes" and len(op) > 2 else ""))
        if case.get("extended"):
            ctx.count("sources_extended_sent_to_the_model")
        lines = [f"{kind} new 0 {int(case['weighted'])}"] + [model_line(case, 0, op) for op in case["history"]] + [f"{kind} q 0"]
        want = ["ok"] + [("ok" if o == "ok" else "rej") for o in outs] + [tok_snap(case, S)]
    else:
        lines, want = [], []
    tags = [("build", None)] * len(lines)
    present = [r for r, x in enumerate(L) if x in S[1]]
    if only is None:
        rng = ctx.rng
        if case.get("layout"):
            sels = layout_selections(rng, case, present, S)
        elif case.get("large"):
            sels = sample_selections(rng, case, present, S)
        else:
            sels = all_selections(rng, case, present)
        for sel in sels:
            if sel.get("malformed") or not sel.get("sub", True):
                continue
            if copyable and rng.random() < 0.02:
                sel["copy_result"] = True
            if rng.random() < 0.03:
                sel["result_lives"] = gen_ops(rng, kind, S[0], len(L), set(), rng.randint(2, 5), p_aux=0.0, ov=case.get("ov", 0.0))
        pk = rank_keys(case, S)
        incs = [list(x) for x in case.get("incs", [])]

        share_round = [False]

        def ops(ext=False):
            out = _ops(ext)
            if incs and rng.random() < 0.5:
                # an in-place edit of an incidence dict that exists: the only call through which a copy that shares
                # the per-incidence dicts with its original shows
                raw, node = rng.choice(incs)
                out.insert(rng.randint(0, len(out)), ["attri", raw, node, rkey(rng), rv(rng)])
            return out

        def _ops(ext=False):
            return gen_ops(rng, kind, S[0], len(L), pk if rng.random() < 0.7 else set(), rng.randint(2 if ext else 1, 6),
                           extended=ext, p_aux=rng.choice([0.1, 0.35]), incs=list(incs), ov=case.get("ov", 0.0),
                           p_share=0.2 if share_round[0] else 0.0)
        copies = [{"f": "copy", "ops_cp": ops(), "ops_orig": ops(), "cold": rng.random() < 0.4,
                   "order": [rng.random() < 0.5 for _ in range(12)]}
                  for _ in range((1 if rng.random() < 0.3 else 0) if case.get("layout") or case.get("large") else 2)]
        if not case.get("layout"):
            # (a third of these rounds with one dict object shared by several items: oracles only; the others also go to the model)
            share_round[0] = rng.random() < 0.35
            copies.append({"f": "copy", "extended": True, "ops_cp": ops(True), "ops_orig": ops(True),
                           "order": [rng.random() < 0.5 for _ in range(12)]})
            share_round[0] = False
        # one dict object that is the metadata of several items: an attribute set through one of them after the copy
        # shows on the others - in the copy like in a never-copied object (copy rounds, demand 3)
        ids = [id(md) for md in S[1].values()] + [id(v[1]) for v in S[2].values()]
        sharing = [r for r, x in enumerate(L) if x in S[1] and ids.count(id(S[1][x])) > 1]
        for cp in copies:
            for name in ("ops_cp", "ops_orig"):
                if sharing and rng.random() < 0.8:
                    cp[name].insert(rng.randint(0, len(cp[name])), ["attrn", rng.choice(sharing), rkey(rng), rv(rng)])
        if not copyable:
            copies = []
        # a few of the calls are repeated on a freshly built, never queried twin of the source (the digests taken around
        # every call ask every getter first: whatever a call needs to have been asked before is hidden by them)
        for i in rng.sample(range(len(sels)), min(len(sels), 3 if case.get("layout") else 8)):
            if not sels[i].get("malformed"):
                sels[i]["cold"] = True
    else:
        sels = [s for s in only if s.get("f") != "copy"]
        copies = [s for s in only if s.get("f") == "copy"]
    before = full_digest(kind, h, fast=True)
    before_c = full_digest(kind, h) if any(sel.get("cold") for sel in sels) else None    # comparable with another object's
    deep_before = full_digest(kind, h, deep=2)
    skey = src_key(case, S)
    shapes = set()
    for sel in sels:
        if enough(ctx):
            break
        full = {**case, "sel": sel}
        st, r = call_selection(case, h, sel)
        # the source as every getter shows it after the first call of each SHAPE of call (function, flags, which of order /
        # size), its stored tables after every call (and once more everything after all calls, see below)
        shape = (sel["f"], sel.get("sub", True), bool(sel.get("md")), bool(sel.get("keep")), bool(sel.get("up_to")),
                 sel.get("size") is not None, sel.get("order") is not None, sel.get("malformed", False))
        if shape in shapes:
            after = full_digest(kind, h, fast=True, light=True)
            dd = digest_diff({k: before.get(k) for k in after}, after)
            if dd:
                after = full_digest(kind, h, fast=True)
        else:
            shapes.add(shape)
            after = full_digest(kind, h, fast=True)
            dd = digest_diff(before, after)
        if dd:
            viol(ctx, full, f"{sel} changed the source: {dd}")
            before = after
        malformed = sel.get("malformed", False)
        ckey = skey + repr(sorted((k, v) for k, v in sel.items() if k in SEL_KEYS))
        if sel["f"] == "edges":
            ctx.count(f"get_edges_sub{int(bool(sel.get('sub', True)))}_keep{int(bool(sel['keep']))}_md{sel.get('md')}")
        if sel["f"] == "edges" and not sel.get("sub", True):
            # the plain listing of the same selection: a list of hyperedges / {hyperedge: metadata}
            if not malformed:
                why = listing_wrong(case, S, sel, st, r)
                if why:
                    viol(ctx, full, f"{sel}: {why}")
                elif sel.get("cold"):
                    cold_call(ctx, case, full, sel, before_c, lambda r2: None if same(r2, r) else f"{r2!r} instead of {r!r}")
            ctx.case(ckey, False, sample=None)
            ctx.count("sel_edges_listing" + ("_malformed" if malformed else ""))
            if modelled:
                lines.append(model_selection(case, sel))
                want.append(("ans", tok_answer(case, st, r, type(h))))
                tags.append(("sel", full))
            continue
        if st == "ok" and type(r) is not type(h):
            # the returned TYPE first: an extraction returns a hypergraph of the source's class
            if not malformed:
                viol(ctx, full, f"{sel} returned a {type(r).__name__} instead of the extracted {type(h).__name__}: {r!r}"[:600])
            ctx.case(ckey, False, sample=None)
            ctx.count("results_of_another_type")
            if modelled and sel["f"] == "edges":
                lines.append(model_selection(case, sel))
                want.append(("ans", tok_answer(case, st, r, type(h))))
                tags.append(("sel", full))
            continue
        comp = None
        if sel["f"] == "lcc":
            stc, comp = guard(h.largest_component, size=sel.get("size"), order=sel.get("order"))
            if stc != "ok":
                comp = None
        nontrivial = False
        got = None
        if st == "ok":
            got = snap(r)
            if got[0] == "exc":
                viol(ctx, full, f"{sel}: the result cannot be observed: {got[1]}")
                got = None
        if st == "ok" and got is not None and sel.get("copy_result"):
            # the extracted object is an object like any other: its copy is equal to it
            deep_r = 2 if ctx.rng.random() < 0.25 else 1
            d_r = full_digest(kind, r, deep=deep_r)
            stc2, rc = guard(r.copy)
            if stc2 != "ok":
                viol(ctx, full, f"copy() of the result of {sel} raised {rc}")
            else:
                dd = digest_diff(d_r, full_digest(kind, rc, deep=deep_r)) if type(rc) is type(r) else f"it is a {type(rc).__name__}"
                dd = dd or listings_unequal(rc, r)
                if dd:
                    viol(ctx, full, f"copy() of the result of {sel} is not equal to it: {dd}")
            ctx.count("copies_of_results")
        if st == "ok" and got is not None and sel.get("result_lives"):
            # the extracted object is a full object: it takes a further history like an object built by hand with the
            # same content (nodes and hyperedges inserted in the result's listing order)
            why = lives_like_twin(case, r, got, sel["result_lives"])
            if why:
                viol(ctx, full, f"the result of {sel} mutated by {sel['result_lives']} differs from a hand-built object "
                                    f"with the result's content under the same calls: {why}")
            dd = digest_diff(before, full_digest(kind, h, fast=True))
            if dd:
                viol(ctx, full, f"mutating the result of {sel} changed the source: {dd}")
            ctx.count("results_mutated")
            st2, r = call_selection(case, h, sel)            # a fresh result for the oracles below
            got = snap(r) if st2 == "ok" else None
            if got is None or got[0] == "exc":
                viol(ctx, full, f"{sel}: the second call raised / cannot be observed")
                got, st = None, "exc"
        if not malformed:
            if st != "ok":
                if not (sel["f"] == "lcc" and not S[1]):       # largest component of the empty hypergraph: max() of nothing
                    viol(ctx, full, f"{sel} raised {r}")
            elif got is not None:
                if sel["f"] == "lcc":
                    if comp is None:
                        viol(ctx, full, f"largest_component({sel}) raised")
                    elif not any(set(comp) == c for c in largest_components(kind, S, sel)) or len(set(comp)) != len(list(comp)):
                        viol(ctx, full, f"largest_component{sel} = {sorted(comp, key=repr)} is not a connected component of maximum size")
                exp = expected(case, S, sel, comp) if not (sel["f"] == "lcc" and comp is None) else None
                if exp is not None:
                    if got[0] != exp[0]:
                        viol(ctx, full, f"{sel}: is_weighted() = {got[0]}, source {exp[0]}")
                    if not edges_same(got[2], exp[2]):
                        viol(ctx, full, f"{sel}: hyperedges/weights/metadata {got[2]} != selected part of the source {exp[2]}")
                    if set(got[1]) != set(exp[1]):
                        viol(ctx, full, f"{sel}: node set {sorted(got[1], key=repr)} != documented {sorted(exp[1], key=repr)}")
                    elif not same(got[1], exp[1]):
                        viol(ctx, full, f"{sel}: node metadata {got[1]} != source's {exp[1]}")
                    if sel.get("cold"):
                        cold_call(ctx, case, full, sel, before_c,
                                  lambda r2: result_differs(kind, type(h), r2, got))
                    why = incidence_ok(kind, r, got)
                    if why:
                        viol(ctx, full, f"{sel}: result is not a consistent hypergraph: {why}")
                    nontrivial = 0 < len(exp[2]) < len(S[2])
                    ctx.count("shared_node_metadata_objects",
                              sum(1 for n in got[1] if n in S[1] and got[1][n] is S[1][n]))
                    ctx.count("shared_edge_metadata_objects",
                              sum(1 for k in got[2] if k in S[2] and got[2][k][1] is S[2][k][1]))
        ctx.case(ckey, nontrivial, sample=full if nontrivial else None)
        ctx.count("sel_" + sel["f"] + ("_malformed" if malformed else ""))
        if sel.get("_cont"):
            ctx.count("node_selection_as_" + sel["_cont"])
        if st != "ok":
            ctx.count("rejected_selections")
        if case.get("layout") and sel["f"] == "lcc" and comp is not None:
            sizes = sorted(len(c) for c in components(kind, S, sel))
            ctx.count("lcc_layout_" + ("tie" if sizes[-2:-1] == sizes[-1:] else "gap1" if sizes[-2:-1] == [sizes[-1] - 1] else "other"))
        # model
        if not modelled or (sel["f"] == "lcc" and comp is None):
            continue
        rk = {x: i for i, x in enumerate(L)}
        lines.append(model_selection(case, sel, [rk[x] for x in comp] if comp is not None else None))
        want.append(("ans", tok_answer(case, st, r, type(h))) if sel["f"] == "edges" else "ok" if st == "ok" else "rej")
        tags.append(("sel", full))
        if st == "ok" and got is not None:
            lines.append(f"{kind} q 1")
            want.append(tok_snap(case, got))
            tags.append(("result", full))
        lines.append(f"{kind} q 0")
        want.append(tok_snap(case, S))
        tags.append(("source-after", full))
        if enough(ctx):
            break

    dd = digest_diff(deep_before, full_digest(kind, h, deep=2))
    if dd:
        viol(ctx, {**case, "sel": None}, f"the extractions changed the source: {dd}")
    for cp in copies:
        check_copy(ctx, case, h, S, cp, lines, want, tags, skey)
    if only is None and not enough(ctx) and (not case.get("layout") or ctx.rng.random() < 0.25):
        # ask, change the object in place, ask again: the same selections on the same object after a few further
        # calls (half of the time calls that leave the cheap signatures - numbers of nodes / hyperedges - as they are)
        rng = ctx.rng
        asked = [{k: v for k, v in sel.items() if not k.startswith("_") and k not in ("copy_result", "result_lives", "cold")}
                 for sel in sels if not sel.get("malformed")]
        again = rng.sample(asked, min(len(asked), 14))
        if rng.random() < 0.5:
            more = gen_silent_ops(rng, case, S, rng.randint(1, 3))
        else:
            more = gen_ops(rng, kind, S[0], len(L), rank_keys(case, S), rng.randint(1, 3), p_aux=0.1,
                           incs=[list(x) for x in case.get("incs", [])], ov=case.get("ov", 0.0))
        if again and more:
            hist = list(case["history"])
            case2 = {**case, "history": hist + more, "warm_at": len(hist), "warm_sels": again, "again": True}
            ctx.count("sources_asked_again_after_a_change")
            _check_source(ctx, drv, case2, only=[dict(sel) for sel in again])
    if only is not None and case.get("again"):
        return _finish_model(ctx, drv, case, lines, want, tags, modelled)
    ctx.count("sources_" + ("layout" if case.get("layout") else "extended" if case.get("extended") else "modelled"))
    if case.get("large"):
        ctx.count("sources_large")
    if case.get("warm_at") is not None:
        ctx.count("sources_warmed_in_mid_history")
    if case.get("wscale"):
        ctx.count("sources_with_integer_weights_beyond_2^60")
    ctx.count("labels_" + label_class(L))
    nv = case.get("nv", NV_PLAIN)
    ctx.count("sources_values_" + ("plain" if nv <= NV_PLAIN else "of_every_copyable_kind" if nv <= NV_COPYABLE else "incl_uncopyable"))
    if case.get("xw"):
        ctx.count("sources_with_weights_of_every_numeric_kind")
        for w, name in ((0, "zero"), (float("nan"), "nan"), (float("inf"), "inf")):
            if any(weq(v[0], w) for v in S[2].values()):
                ctx.count("sources_with_a_weight_" + name)
    if case.get("flavour"):
        ctx.count("sources_flavour_" + case["flavour"])
    kinds = set()
    for md in list(S[1].values()) + [v[1] for v in S[2].values()] + list(S[3]["inc"].values()) + \
            [{k: v for k, v in S[3]["hmeta"].items() if k not in ("weighted", "type")}] + \
            [m for _, m in S[3]["empty"] if isinstance(m, dict)]:
        kinds |= {tok_val(v) for v in md.values()} if isinstance(md, dict) else set()
    for i in kinds:
        if isinstance(i, int) and i >= NV_PLAIN:
            ctx.count("sources_holding_a_value:" + VALS[i][0])
    ids = [id(md) for md in list(S[1].values()) + [v[1] for v in S[2].values()]]
    if len(set(ids)) < len(ids):
        ctx.count("sources_with_one_metadata_dict_shared_by_several_items")
    if kind == "d":
        ov = sum(1 for k in S[2] if set(k[0]) & set(k[1]))
        ctx.count("directed_sources_with_overlapping_sides" if ov else "directed_sources_disjoint_sides")
        ctx.count("directed_hyperedges_with_overlapping_sides", ov)
        ctx.count("directed_hyperedges_with_an_empty_side", sum(1 for k in S[2] if not k[0] or not k[1]))
    elif () in S[2]:
        ctx.count("sources_with_the_nodeless_hyperedge")

    _finish_model(ctx, drv, case, lines, want, tags, modelled)


def _finish_model(ctx, drv, case, lines, want, tags, modelled):
    kind = case["kind"]
    if drv is None or not modelled:
        return
    ans = drv.batch(lines)
    for ln, a, w, (tag, full) in zip(lines, ans, want, tags):
        if isinstance(w, tuple) and w and w[0] == "ans":
            got = ("ans", parse_answer(kind, a))
        else:
            got = a if isinstance(w, str) else parse_model(kind, a)
        same = got == w
        if same and not isinstance(w, str) and w[0] not in ("exc", "ans") and ORDER_ONLY[0] < 2:
            # the model mirrors the construction order of the code: listings must also agree as sequences
            # (incidence metadata and empty edges are compared as sequences already).  The property does not speak
            # about listing order: such a difference is reported twice per run, afterwards contents only are compared
            # so that the search for a failing input goes on
            same = list(got[1]) == list(w[1]) and list(got[2]) == list(w[2])
            if not same:
                ORDER_ONLY[0] += 1
                ctx.count("order_only_differences")
                ctx.disagree(full if full is not None else {**case, "sel": None},
                             f"[{tag}] (listing order only) model answers {a!r} to {ln!r}, implementation gives {w!r}")
                continue
        if not same:
            ctx.disagree(full if full is not None else {**case, "sel": None},
                         f"[{tag}] model answers {a!r} to {ln!r}, implementation gives {w!r}")
            break


def dup(md):
    try:
        return _copy.deepcopy(md)
    except Exception:  # noqa: BLE001      (a value deepcopy refuses: a new dict around the same values)
        return dict(md) if isinstance(md, dict) else md


def lives_like_twin(case, r, got, ops):
    """apply `ops` to the result r and to a twin built by hand from the content `got` of r; compare every public query
    (level 0: no internal ids).  Structural calls only - the metadata dicts of a result are those of the source by design"""
    kind = case["kind"]
    twin = new_object({**case, "weighted": got[0]})
    for n, md in got[1].items():
        twin.add_node(n, dup(md))
    for k, (w, md) in got[2].items():
        twin.add_edge(k, w if got[0] else None, dup(md))
    def dig(o):      # without the queries that show internal ids
        return {k: v for k, v in full_digest(kind, o).items() if k not in ("adj", "adj_s", "adj_t", "edge_list", "empty_private")}
    dd = digest_diff(dig(twin), dig(r))
    if dd:
        return "before any call: " + dd
    outs_r = [apply_py(case, r, op)[0] for op in ops if op[0] not in ("attrn", "attre")]
    outs_t = [apply_py(case, twin, op)[0] for op in ops if op[0] not in ("attrn", "attre")]
    if outs_r != outs_t:
        return f"accepted / rejected calls {outs_r} vs {outs_t}"
    return digest_diff(dig(twin), dig(r))


LISTINGS = [("get_nodes(metadata=True)", lambda o: o.get_nodes(metadata=True)),
            ("get_edges(metadata=True)", lambda o: o.get_edges(metadata=True)),
            ("get_weights(asdict=True)", lambda o: o.get_weights(asdict=True)),
            ("get_weights()", lambda o: o.get_weights()),
            ("get_hypergraph_metadata()", lambda o: o.get_hypergraph_metadata()),
            ("get_all_incidences_metadata()", lambda o: o.get_all_incidences_metadata()),
            ("get_all_nodes_metadata()", lambda o: o.get_all_nodes_metadata()),
            ("get_all_edges_metadata()", lambda o: o.get_all_edges_metadata()),
            ("the metadata of the empty edges", lambda o: getattr(o, "_empty_edges", None))]


def listings_unequal(a, b):
    """'copy() returns an EQUAL hypergraph' in the user's sense: each public listing of the copy compares equal (Python ==)
    to the original's.  This is what copy.deepcopy gives for every value it accepts - also for a nan weight or a nan inside
    metadata, which deepcopy hands over as the very object (container == looks at identity first) - and no more is demanded:
    values whose == is not defined elementwise (numpy arrays) or is identity (instances without __eq__) are compared by
    structure (see canon, strict)"""
    def f():
        for name, fn in LISTINGS:
            if not same(fn(a), fn(b), strict=True):
                return name
        return None
    st, v = guard(f)
    return v if st == "ok" else "listings raised " + str(v)


def check_copy(ctx, case, h, S, cp, lines, want, tags, skey):
    """h is left unchanged: the 'original' that is mutated is itself a fresh rebuild of the same history"""
    kind = case["kind"]
    full = {**case, "sel": cp}
    orig, _ = build(case)
    if cp.get("cold"):
        # copy() is the FIRST call on a freshly built object (no getter has run on it); the picture of the original before
        # the copy is taken from a second build of the same history
        st, c = guard(orig.copy)
        d0 = full_digest(kind, build(case)[0], deep=2)
        ctx.count("copies_of_a_never_queried_object")
    else:
        d0 = full_digest(kind, orig, deep=2)
        st, c = guard(orig.copy)
    if st != "ok":
        viol(ctx, full, f"copy() raised {c}")
        return
    if c is orig or type(c) is not type(orig):
        viol(ctx, full, "copy() returned the object itself / another type")
        return
    dd = digest_diff(d0, full_digest(kind, c, deep=2))
    if dd:
        viol(ctx, full, f"copy() is not equal to the original: {dd}")
    else:
        name = listings_unequal(c, orig)
        if name:
            viol(ctx, full, f"copy() is not equal to the original: {name} of the copy does not compare equal (==) to the original's")
    d0 = {k: v for k, v in d0.items() if k not in DEEP2}
    dd = digest_diff(d0, full_digest(kind, orig, deep=1))
    if dd:
        viol(ctx, full, f"copy() changed the original: {dd}")
    # (1) mutate the copy only -> original as before
    changed_cp = changed_orig = False
    outs_cp = []
    for op in cp["ops_cp"]:
        outs_cp.append(apply_py(case, c, op)[0])
    d_cp = full_digest(kind, c, deep=1)
    changed_cp = digest_diff(d0, d_cp) is not None
    dd = digest_diff(d0, full_digest(kind, orig, deep=1))
    if dd:
        viol(ctx, full, f"mutating the copy ({cp['ops_cp']}) changed the original: {dd}")
    # (2) mutate the original only -> copy as before
    outs_orig = []
    for op in cp["ops_orig"]:
        outs_orig.append(apply_py(case, orig, op)[0])
    d_orig = full_digest(kind, orig, deep=1)
    changed_orig = digest_diff(d0, d_orig) is not None
    dd = digest_diff(d_cp, full_digest(kind, c, deep=1))
    if dd:
        viol(ctx, full, f"mutating the original ({cp['ops_orig']}) changed the copy: {dd}")
    # (3) each equals a never-copied object with the same history, and accepted / rejected the same calls
    for name, obj_d, ops, outs in (("original", d_orig, cp["ops_orig"], outs_orig), ("copy", d_cp, cp["ops_cp"], outs_cp)):
        ref, routs = build(case, case["history"] + ops)
        dd = digest_diff(full_digest(kind, ref, deep=1), obj_d)
        if dd:
            viol(ctx, full, f"the {name} after its mutations differs from a never-copied object with the same history: {dd}")
        routs = routs[len(case["history"]):]
        if routs != outs:
            i = [a == b for a, b in zip(routs, outs)].index(False)
            viol(ctx, full, f"the {name} {'accepted' if outs[i] == 'ok' else 'rejected'} {ops[i]} which a never-copied object "
                                f"with the same history {'accepted' if routs[i] == 'ok' else 'rejected'}")
    # (4) a copy of the (mutated) copy equals it
    st2, c2 = guard(c.copy)
    if st2 != "ok":
        viol(ctx, full, f"copy() of the mutated copy raised {c2}")
    else:
        dd = digest_diff(d_cp, full_digest(kind, c2, deep=1)) if type(c2) is type(c) else f"it is a {type(c2).__name__}"
        dd = dd or listings_unequal(c2, c)
        if dd:
            viol(ctx, full, f"the copy of the mutated copy is not equal to it: {dd}")
    ctx.case(skey + repr(sorted(cp.items(), key=repr)), changed_cp and changed_orig, sample=None)
    ctx.count("sel_copy" + ("_extended" if cp.get("extended") else ""))
    if any(op[0] == "sharemd" for op in list(cp["ops_cp"]) + list(cp["ops_orig"])):
        return
    # model: slot 2 := copy of slot 0, slot 3 := copy of slot 0 standing for the original that is mutated; interleave
    lines += [f"{kind} copy 0 2", f"{kind} copy 0 3"]
    want += ["ok", "ok"]
    tags += [("copy", full)] * 2
    a, b = list(zip(cp["ops_cp"], outs_cp)), list(zip(cp["ops_orig"], outs_orig))
    order = list(cp.get("order", []))
    while a or b:
        first = (order.pop(0) if order else True)
        if (first and a) or not b:
            op, o = a.pop(0)
            lines.append(model_line(case, 2, op))
        else:
            op, o = b.pop(0)
            lines.append(model_line(case, 3, op))
        want.append("ok" if o == "ok" else "rej")
        tags.append(("copy-op", full))
        if op[0] in ("rmnode", "clear", "addnodes", "rmnodex", "rmedges", "rmnodes"):
            ctx.count("model_op_in_copy_round_" + op[0])
    for slot, obj in ((2, c), (3, orig)):
        s = snap(obj)
        lines.append(f"{kind} q {slot}")
        want.append(tok_snap(case, s))
        tags.append(("copy-state", full))
    lines.append(f"{kind} q 0")
    want.append(tok_snap(case, S))
    tags.append(("source-after-copy", full))


# ------------------------------------------------------------------------------------------

def V(name):
    return [n for n, _ in VALS].index(name)


FIXED_SOURCES = [
    # the DESIGN's D19 example: weights 5.0 and 7.0, ids 0 and 1
    {"kind": "u", "weighted": True, "labels": [1, 2, 3, 4, 9],
     "history": [["addnode", 4, [[2, 0]]], ["addnode", 0, [[0, 0]]], ["addedge", [0, 1], 20, [[1, 1]]],
                 ["addedge", [1, 2, 3], 28, [[1, 2]]], ["addedge", [3], 8, None]]},
    {"kind": "d", "weighted": True, "labels": [1, 2, 3, 4, 9],
     "history": [["addnode", 4, [[2, 0]]], ["addnode", 0, [[0, 0]]], ["addedge", [[0], [1]], 20, [[1, 1]]],
                 ["addedge", [[1, 2], [3]], 28, [[1, 2]]]]},
    {"kind": "u", "weighted": False, "labels": ["A", "B", "C"], "history": []},
    # incidence metadata (one stored under an unsorted tuple, one of a hyperedge removed afterwards), empty edges,
    # hypergraph-level metadata
    {"kind": "u", "weighted": True, "labels": ["a", "b", "c", "d", "iso"], "incs": [[[1, 0, 2], 0], [[1, 3], 3]],
     "history": [["addnode", 4, [[0, 1]]], ["addedge", [0, 1, 2], 10, [[1, 1]]], ["addedge", [1, 3], 2, None],
                 ["addedge", [2], 28, None], ["setim", [1, 0, 2], 0, [[0, 0]]], ["setim", [1, 3], 3, [[1, 1]]],
                 ["setim", [2], 2, []], ["rmedge", [2]], ["addempty", 0, [[2, 3]]], ["addempty", 2, []],
                 ["attrh", 0, 4], ["attri", [1, 0, 2], 0, 2, 5]]},
    {"kind": "d", "weighted": False, "labels": [3, 5, 8, 13], "incs": [[[[1], [0, 2]], 2]],
     "history": [["addedge", [[1], [2, 0]], None, [[0, 0]]], ["addedge", [[3], [1]], None, None],
                 ["setim", [[1], [0, 2]], 2, [[0, 6]]], ["setim", [[3], [1]], 0, []], ["sethm", [[1, 1]]], ["attrh", 2, 0]]},
    # node identifiers as they come out of an edge-list file: every record parsed on its own, a node of several
    # hyperedges is several equal int objects (ints beyond the small-int cache); the same with run-time strings
    {"kind": "u", "weighted": True, "labels": [1001, 1002, 1003, 1004, 1005, 1006, 1007],
     "history": [["addedge", [0, 1], 6, [[0, 0]]], ["addedge", [0, 2, 3], 10, [[0, 1]]], ["addedge", [3, 4], 14, None],
                 ["addedge", [5, 6], 18, None], ["addedge", [0], 22, [[1, 2]]], ["setnm", 0, [[2, 1]]]]},
    {"kind": "u", "weighted": False, "labels": ["gene-a", "gene-b", "gene-c", "gene-d", "x"],
     "history": [["addedge", [1, 0], None, [[0, 0]]], ["addedge", [2, 1, 3], None, None], ["addedge", [3, 0], None, None],
                 ["addnode", 4, [[1, 1]]], ["addedge", [1], None, None]]},
    # directed hyperedges whose source and target overlap (feedback hyperedge, identical sides, self-loop), an empty
    # side; sizes as get_sizes() reports them: 3, 2, 4, 2, 3, 1
    {"kind": "d", "weighted": True, "labels": [1, 2, 3, 4, 5, 6, 7, 8], "ov": 0.5,
     "history": [["addnode", 7, [[0, 1]]], ["addedge", [[0], [0, 1]], 4, None], ["addedge", [[2], [3]], 8, [[1, 1]]],
                 ["addedge", [[1, 4], [4, 1]], 12, None], ["addedge", [[5], [5]], 16, [[2, 2]]],
                 ["addedge", [[0, 1], [2]], 20, None], ["addedge", [[], [6]], 24, None], ["setnm", 5, [[0, 3]]]]},
    {"kind": "d", "weighted": False, "labels": ["p", "q", "rr", "ss"], "ov": 0.5,
     "history": [["addedge", [[0], [0]], None, [[0, 0]]], ["addedge", [[0, 1], [1, 2]], None, None],
                 ["addedge", [[3], [3, 0]], None, None], ["addedge", [[2], [1]], None, [[1, 4]]], ["rmedge", [[0], [0]]],
                 ["addedge", [[1], [1]], None, None]]},
    # integer weights far beyond 2**53 (q * (2**60 + 1)): exact as ints, not as floats
    {"kind": "u", "weighted": True, "labels": [300, 301, 302, 303], "wscale": True,
     "history": [["addedge", [0, 1], 3, None], ["addedge", [1, 2, 3], 5, [[0, 0]]], ["addedge", [1, 0], 7, None], ["addedge", [3], 1, None]]},
    # the node-less hyperedge () has size 0 (order -1)
    {"kind": "u", "weighted": True, "labels": [0, 1, 2], "ov": 0.5,
     "history": [["addedge", [], 6, [[0, 2]]], ["addedge", [0, 1], 10, None], ["addnode", 2, None], ["addedge", [1], 4, None]]},
    # metadata VALUES are objects of any kind: callables, instances of local classes, nan, sets, nested containers with
    # non-string keys - on nodes, hyperedges, incidences and the hypergraph itself, for both classes
    {"kind": "d", "weighted": True, "labels": [1, 2, 3, 4, 5, 6, 7], "nv": NV_COPYABLE, "incs": [[[[0, 1], [2]], 2]],
     "history": [["addnode", 6, [[0, V("lambda")]]], ["addnode", 0, [[1, V("str")]]],
                 ["addedge", [[0, 1], [2]], 8, [[0, V("local function with a closure")]]], ["addedge", [[2], [3, 4]], 6, None],
                 ["addedge", [[5], [5]], 4, [[3, V("nan")], [4, V("instance of a local class")]]],
                 ["setim", [[0, 1], [2]], 2, [[2, V("nested")]]], ["attrh", 5, V("set")], ["setnm", 3, [[0, V("list of nans")]]]]},
    {"kind": "u", "weighted": False, "labels": ["a", "b", "c", "d", "e"], "nv": NV_COPYABLE, "incs": [[[0, 1], 1]],
     "history": [["addnode", 4, [[0, V("enum member of a local Enum")]]], ["addedge", [0, 1], None, [[1, V("lambda")]]],
                 ["addedge", [1, 2, 3], None, [[0, V("numpy array")], [3, V("Decimal NaN")]]], ["addedge", [3], None, None],
                 ["setim", [0, 1], 1, [[5, V("instance with __slots__")]]], ["addempty", 0, [[0, V("local class")]]],
                 ["sethm", [[4, V("cyclic list")], [1, V("bytes")]]], ["setnm", 2, [[2, V("numpy nan")], [0, V("nan")]]]]},
    # weights of every numeric kind (nan, inf, 0, an int beyond 2**64, a Fraction), one dict object shared by two nodes and a hyperedge
    {"kind": "u", "weighted": True, "labels": [10, 20, 30, 40, 50], "nv": NV_COPYABLE, "extended": True, "xw": True,
     "history": [["addedge", [0, 1], 1, [[0, V("nan")]]], ["addedge", [1, 2, 3], 2, None], ["addedge", [3], 7, [[1, V("int")]]],
                 ["addedge", [2, 4], 6, None], ["addedge", [0, 4, 1], 5, None], ["addedge", [1, 0], 8, None],
                 ["sharemd", [0, 3], [1, 2, 3], [[0, V("list")]]], ["attrn", 0, 1, V("inf")]]},
    {"kind": "d", "weighted": True, "labels": ["p", "q", "r", "s"], "nv": NV_COPYABLE, "extended": True, "xw": True,
     "history": [["addedge", [[0], [1]], 1, None], ["addedge", [[1, 2], [3]], 3, [[0, V("-inf")]]], ["addedge", [[3], [0]], 7, None],
                 ["addedge", [[0], [1]], 12, None], ["sharemd", [1, 2], None, [[2, V("dict")]]], ["attrn", 2, 0, V("True")]]},
    # values copy.deepcopy refuses (a generator object, a lock): they travel with every extraction; no copy() is asked
    {"kind": "u", "weighted": True, "labels": [5, 6, 7, 8], "nv": NV_ALL,
     "history": [["addnode", 3, [[0, V("generator object")]]], ["addedge", [0, 1], 6, [[1, V("lock")]]],
                 ["addedge", [1, 2], 10, [[0, V("instance holding a lock")]]], ["addedge", [2], 4, None], ["attrh", 0, V("memoryview")]]},
]


def layout_grid(rng, rounds, all_modes):
    """every layout x every order of first appearance x every mode (quick: for three components one mode drawn per
    layout and order), `rounds` times (fresh random details each time)"""
    out = []
    for _ in range(rounds):
        for sizes in LAYOUTS:
            for perm in itertools.permutations(range(len(sizes))):
                modes = layout_modes(sizes)
                for mode in (modes if all_modes or len(sizes) == 2 else [rng.choice(modes)]):
                    out.append((sizes, perm, mode))
    return out


def gen_source_large(rng, kind=None):
    """SIZE is a dimension: 20-70 nodes (sizes around powers of two included), one to three hyperedges per node"""
    n = rng.choice([20, 31, 32, 33, 48, 63, 64, 65, 70])
    return {**gen_source(rng, n=n, length=rng.randint(n, 3 * n), labels=gen_labels_large, top=rng.choice([9, 12, 17]), kind=kind), "large": True}


def gen_labels_large(rng, n):
    r = rng.random()
    if r < 0.3:
        return sorted(rng.sample(range(0, 3 * n), n))
    if r < 0.6:
        return sorted(rng.sample(range(257, 100000), n))
    if r < 0.8:
        return sorted("v%03d" % i for i in rng.sample(range(1000), n))
    return sorted(rng.sample([i / 8 for i in range(1, 2000, 3)] + [2 ** 63 + i for i in range(100)], n))


def gen_source_halfway(rng):
    """a small history with several calls that may raise half-way (see `gen_batch_op`); for the directed class a node on both
    sides of one hyperedge is removed (alone and inside a remove_nodes batch)"""
    case = gen_source(rng)
    kind, n = case["kind"], len(case["labels"])
    hist = list(case["history"])
    for _ in range(rng.randint(2, 4)):
        hist.insert(rng.randint(len(hist) // 2, len(hist)), gen_batch_op(rng, kind, n, hist))
    if kind == "d" and n >= 2:
        a = rng.randrange(n)
        s_ = [a] + [r for r in rng.sample(range(n), min(n, rng.randint(0, 2))) if r != a]
        t_ = [a] + [r for r in rng.sample(range(n), min(n, rng.randint(0, 2))) if r != a]
        hist.append(["addedge", [s_, t_], rng.randint(1, 12) if case["weighted"] else None, gen_md(rng)])
        if rng.random() < 0.5:
            hist.append(["rmnodex", a, rng.random() < 0.6])
        else:
            ns = [r for r in rng.sample(range(n), min(n, 2)) if r != a]
            ns.insert(rng.randint(0, len(ns)), a)
            hist.append(["rmnodes", ns, rng.random() < 0.6])
        hist += gen_ops(rng, "d", case["weighted"], n, set(), rng.randint(0, 2), ov=case.get("ov", 0.0))
        hist.append(gen_batch_op(rng, kind, n, hist))
    return {**case, "history": hist, "extended": True}


def check_halfway(ctx, drv, case):
    """model / implementation comparison of the state LEFT by every call that may raise half-way (Model/C05Batch.lean):
    verdict of every call of the history, full content after each such call and at the end"""
    if drv is None:
        return
    case = {**case, "labels": [norm_label(x) for x in case["labels"]]}
    kind = case["kind"]
    regime(case)
    try:
        h = new_object(case)
        lines, want = [f"{kind} new 0 {int(case['weighted'])}"], ["ok"]
        raised = 0
        for op in list(case["history"]) + [None]:
            if op is not None:
                o = apply_py(case, h, op)[0]
                lines.append(model_line(case, 0, op))
                want.append("ok" if o == "ok" else "rej")
            if op is None or op[0] in ("rmnodex", "rmedges", "rmnodes"):
                if op is not None:
                    ctx.count("halfway_" + op[0] + "_" + kind + ("_raised" if o != "ok" else "_returned"))
                    raised += o != "ok"
                S = snap(h)
                if S[0] == "exc":
                    viol(ctx, {**case, "sel": None, "halfway": True},
                         "the object cannot be observed through the public API after " + repr(op) + ": " + str(S[1]))
                    return
                lines.append(f"{kind} q 0")
                want.append(tok_snap(case, S))
    except Exception as e:  # noqa: BLE001
        viol(ctx, {**case, "sel": None, "halfway": True}, f"exception while exercising the implementation: {type(e).__name__}: {str(e)[:120]}")
        return
    full = {**case, "sel": None, "halfway": True}
    ctx.case("halfway" + repr(case["history"]) + repr(case["labels"]), raised > 0, sample=full if raised else None)
    _finish_model(ctx, drv, case, lines, want, [("halfway", full)] * len(lines), True)


def run(ctx):
    drv = ctx.driver() if ctx.model_available else None
    n = ctx.scale(24, 520)
    n_ext = ctx.scale(6, 120)
    n_large = ctx.scale(2, 30)
    grid = layout_grid(ctx.rng, ctx.scale(1, 4), ctx.tier != "quick")

    def stop():
        return enough(ctx) or (ctx.time_left() is not None and ctx.time_left() < 15)
    import os
    for case in ([] if os.environ.get("C05_NO_FIXED") else FIXED_SOURCES):     # (switch: detection by the random stream alone)
        if not stop():
            check_source(ctx, drv, case)
    flavours = [("xw", "u", True), ("xw", "d", True), ("xw", "u", True), ("nocopy", "u", True), ("nocopy", "d", True),
                ("nocopy", "u", False), ("nocopy", "u", True), ("share", "u", True), ("share", "d", False), ("share", "u", False)]
    for _ in range(ctx.scale(1, 12)):
        for fl in flavours:
            if not stop():
                check_source(ctx, drv, gen_source_flavoured(ctx.rng, *fl))
    # interleave the three classes so that a run cut short by the budget has seen all of them
    gi = 0
    n_large_done = 0
    per = max(1, -(-len(grid) // max(1, n)))
    for i in range(n):
        if stop():
            break
        check_source(ctx, drv, gen_source(ctx.rng))
        if i < n_ext * 4 and i % 4 == 0 and not stop():
            check_source(ctx, drv, gen_source_extended(ctx.rng))
        if not stop():
            for _ in range(3):
                check_halfway(ctx, drv, gen_source_halfway(ctx.rng))
        if i % max(1, n // n_large) == 1 and not stop():
            n_large_done += 1
            check_source(ctx, drv, gen_source_large(ctx.rng, "ud"[n_large_done % 2]))
        for sizes, perm, mode in grid[gi:gi + per]:
            if stop():
                break
            check_source(ctx, drv, gen_layout_source(ctx.rng, sizes, perm, mode))
        gi += per


def replay(ctx, case):
    drv = ctx.driver() if ctx.model_available else None
    case = dict(case)
    sel = case.pop("sel", None)
    if case.pop("halfway", None):
        check_halfway(ctx, drv, case)
        return
    check_source(ctx, drv, case, only=None if sel is None else [sel])
