"""C15 - Hy-MMSBM: correspondence of lean/Hgxv/Model/C15.lean with hypergraphx.communities.hy_mmsbm
(model.py, _linear_ops.py) and independent property oracles on the implementation.

Three streams of cases, all from ctx.rng:
  closed  : (u, w, hypergraph, D) with dyadic entries; the REAL numpy routines run on object arrays of exact
            fractions (hgxv.Q) -> exact equality with the Rat model for qf/bf/qf_and_sum/bf_and_sum/poisson_params,
            1e-9 for the quantities that go through float constants (C, C', C'', kappa, expected statistics);
            oracle = the definitions, by brute force over ALL hyperedges of size 2..D.
  update  : one `_w_update` / `_u_update` in exact arithmetic (exact equality with the model) + oracles
            (non-negative, symmetric/diagonal, one-step ascent of the penalised objective).
  fit     : real float `fit` for an increasing list of n_iter, same seed, with tolerance in {not passed, None, 0, small,
            medium, large} and check_convergence_every in {not passed, 0, 1, 2, 3, 5, ..}; oracles = supplied parameters
            untouched, finite, non-negative, symmetric/diagonal, exact Poisson log-likelihood monotone in n_iter (penalised
            when w_prior > 0) whichever exit of the loop was taken; a reference run without stopping rule records the
            trajectory of (u, w): the model's loop control (`ctrl`) run on that trajectory must give the implementation's
            training_iter / tolerance_reached and the returned parameters must be the trajectory state of that iteration
            divided by C() (theorem C15_fit_returns); update steps and whole short fits are replayed by the model.
  session : ONE long-lived HyMMSBM object and a pool of hypergraphs on the same nodes (two with the same number of hyperedges,
            one with another number, one on another number of nodes): construct -> queries -> fit(H_a) -> queries on H_a and on the
            other inputs -> writes by the caller into the arrays it handed in / into the attributes / into a hypergraph ->
            fit(H_b) -> queries -> ..; after EVERY step the property's clauses are evaluated with the object's CURRENT arrays
            (Poisson parameter = pair sum, hyperedge sums, expected statistics = brute-force sums, supplied parameters stay,
            finite, non-negative, symmetric/diagonal), the same step is made on a FRESH object holding the state before the step
            (every answer, the arrays and the training attributes must agree), the Lean object model (`Obj`, `fitObj`, `poisObj`)
            replays the session, returned arrays are overwritten by the harness and the questions repeated.
  magnitude : the float path where the small exact streams cannot go - N from 8 to 120000 nodes (around 2^63 and around the float
            range of binom(N-2, d-2), powers of two), maximum size D up to N (hundreds to thousands, sizes beyond 46341 on
            the largest), K in 1..4, u and w from recipes with entries between 1e-100 and 1e+100 (per-column scales, rows spread
            over 3 orders, zeros; w diagonal / full / with holes / off-diagonal 9..16 orders below the diagonal / off-diagonal
            only; every affinity below 1e-8), hyperedges of size 2 .. D and up to 6000 of them (4095/4096/4097).  EVERY closed form is
            compared within a RELATIVE 1e-9 with a reference that stays exact: log_kappa (int, numpy integer, unsorted array,
            the full ranges) against math.log of the exact integer binom(N-2,d-2) d (d-1)/2; C and its summands, _C_prime,
            _C_second against the definitions binom(N-2,d-2)/kappa_d, binom(N-3,d-3)/kappa_d, binom(N-2,d-2) d/(N kappa_d) as
            correctly rounded quotients of exact integers (math.fsum); expected_degree (average, per node),
            dimension_sequence / degree_sequence(expected=True) against these constants times pair sums formed by running sums
            (additions of non-negative terms only); poisson_params / hyperedge sums on hand-built CSR, dense and the real
            binary_incidence_matrix of a real Hypergraph; qf / bf / qf_and_sum / bf_and_sum on the large arrays.  The Lean model
            answers the same questions: the three constants for thousands of sizes (`cbig`), kappa through the two products of
            log_binomial as exact naturals (`kap`, theorem C15_log_kappa), Poisson parameters / pair sum / average degree on the
            exact rationals of the floats for N <= 400.  15% of the cases (N <= 2500) also run `fit` AT SCALE on the same data
            (hundreds to thousands of nodes / hyperedges, sizes beyond 1000, supplied u or w with tiny / huge entries, n_iter
            1..4): supplied parameter untouched, finite, non-negative, symmetric / diagonal, max_hye_size = largest size, the
            returned parameter against n update steps written from their description (running sums) from the same initial
            draw and divided by C() / sqrt(C()), penalised likelihood (closed form of the sum over all hyperedges) ascends.
            The first eight cases of every run are pinned to the rare regimes (MAG_FORCED).
Fixed cases replayed at the start of every run: the D28 witness (known finding), the D46 regression cases (repaired defect:
an update entry with a vanishing denominator was 0/0; ordinary cases, any non-finite parameter is a violation) and five fit
cases whose supplied parameters are scaled by 2^-300 .. 2^300.
"""
import itertools
import math
import signal
import sys
import time
import warnings
from fractions import Fraction

import hgxv
from hgxv import Q

RULE = ("closed/update cases: N in 2..7 nodes, K in 1..3, u entries k/8 (k<=16, about 20% zeros), w symmetric or diagonal "
        "with entries k/8, D in 2..N, 1..9 distinct hyperedges of size 2..D, unweighted or with weights k/4 or integer, priors "
        "0 / 1/2 / 1 / 5 or a symmetric dyadic array, about 13% of the update cases (10% of the fit cases with supplied u) with a "
        "community held by a single node or by nobody, and supplied affinities with a community without affinity (vanishing "
        "denominators: the repaired branch of D46); 8 fixed D46 regression cases on every run, 8% of the supplied memberships scaled by 2^-10/-20/-30; fit cases: seed x (which of u, w is supplied) x assortative x "
        "w_prior in {0,1,5} or a symmetric positive array x u_prior in {0,1} or a positive array x max_hye_size None/given x "
        "tolerance (not passed / None / 0 / 1e-9..100) x check_convergence_every (not passed / 0 / 1..12) x K, assortative "
        "passed or inferred x hypergraph built directly or through a history (shuffled insertion, non-contiguous labels, "
        "temporary and re-inserted hyperedges), 14% of the supplied memberships scaled by 2^s, s in -300..300, 10% of the supplied "
        "affinities by 2^s, s in -200..200, 5 fixed fit cases at these scales on every run; n_iter = 1..8 plus k*every, k*every+1, k*every+2 (k=1..3) and one of "
        "24/40/64 when a tolerance is set, all on the same data. Distinct = canonical text of the "
        "whole input; non-trivial = (closed/update) K >= 2, some hyperedge of size >= 3, at least two different rows of u, "
        "(fit) the likelihood moved by more than 1e-9 between two consecutive n_iter; session cases: one model object (which of u, w "
        "supplied, priors, max_hye_size None / covering all / covering some of the pool, seed) x a pool of 3-5 hypergraphs on N in 3..6 "
        "nodes (H0, H1 with the same number of hyperedges, one with another number, one equal in content to H0 but built by another "
        "history, one on N+-1 nodes) x 8-16 steps from {query block on a pool entry, fit on a pool entry (n_iter 1..12, tolerance not "
        "passed / None / 0 / float, check_convergence_every not passed / 0 / 1..5), write into the caller's u / w / prior arrays, rebind "
        "obj.u / obj.w, replace a hyperedge of a pool hypergraph in place}; a query block follows every other step, the first fit is "
        "followed by query blocks on the trained hypergraph, on the one with the same number of hyperedges, on the one with another "
        "number and on the one with another number of nodes; non-trivial = (session) a fit that inferred something and a later query "
        "block on another pool entry; magnitude cases: a recipe (seed of a numpy generator, N in 8..120000 from the classes small / mid / "
        "large / larger (up to 6000) / around 2^63 (N 62..74) / around the float range (N 1015..1045) / huge (20000..120000), powers of "
        "two and one above, D = N in 40%, else in N/2..N, 2..40 or anywhere, K in 1..4, u = base in [0.05,1) or multiples of 1/16, 0/10/30% "
        "zeros, rows flat / spread over 10^0..10^3 / one row x1000, per-column scales 10^-12..10^12, overall 10^-90..10^90, w = multiples of "
        "1/8 times 10^-45..10^45 of kind diagonal / full / some pairs without affinity / off-diagonal 10^-9..10^-16 of the diagonal / "
        "off-diagonal only / one community without self-affinity, 1-5 hyperedges of size 2, 3, D, D-1, D/2 or random plus, in 7%, 100..6000 small "
        "ones (4095/4096/4097), incidence matrix hand-built CSR / dense / through a real Hypergraph) x sets of sizes 'all', an int, "
        "arange(3, D+1), an unsorted sample, and for log_kappa sizes up to N incl. the middle size (N+2)/2 as int, numpy.int64 and arrays; "
        "15% of the cases with N <= 2500 carry a fit at scale (u supplied 3:1 w supplied, assortative or not, prior 0/1/5, n_iter from [1,2,3] / "
        "[1,2] / [1,3] / [2,4], max_hye_size None or D, half of them with 20..1500 extra small hyperedges); "
        "the first eight magnitude cases of a run are pinned (65537 nodes with D = N; N 1015..1045 with D = N; 4097 hyperedges incl. one of "
        "size N with a fit; every affinity below 1e-8 and not diagonal; u 1e-90 with w 1e-45; u 1e90 with w 1e45; a fit with sizes beyond 1000; "
        "a fit with w supplied at 1e30); non-trivial = (magnitude) N >= 70 or a scale of at least 1e8 "
        "or at most 1e-8; seed cases (extension round): constructor arguments (K, assortative passed or left out; u, w supplied or "
        "not, entries k/8) x priors (0.0, a power of two, an array of powers of two; w_prior symmetric) x raw draws of a stub generator "
        "(multiples of 1/16 in (0, 2], random() handed out as they are, exponential(scale) as scale * draw) x N in 3..5, K in 1..3, 1..5 "
        "hyperedges x max_hye_size None / N / largest size x n_iter 1..3 x tolerance not passed / None / 0.0 / 1e6 x "
        "check_convergence_every not passed / 1 / 2; every third case is malformed or raising, the classes in turn: negative w, "
        "asymmetric w, non-diagonal w with assortative=True, negative u, u and w with different K, assortative not inferable, K not "
        "inferable, max_hye_size too small, check_convergence_every=0, w with a zero upper and non-zero lower triangle; the constructor's "
        "verdict, K, assortative, the arrays built by _init_w / _init_u from the raw draws, the whole fit (exact model from the raw draws) "
        "and log_likelihood are compared with the model; non-trivial = (seed) accepted, K >= 2, something inferred, or a rejection")
ASSUMPTIONS = [
    "hyperedges have size >= 2 (size 1 has Poisson parameter 0 and makes the updates divide by zero): excluded from the generator",
    "N >= 3 for the per-node expected degree (the closed form divides by N-2); D <= N",
    "n_iter >= 1 (n_iter = 0 fails on the unbound loop variable); check_convergence_every >= 0 (0 with a tolerance must raise)",
    "convergence tests whose float norm is within 1e-9 (relative) of the tolerance are not compared with the exact model",
    "array priors have positive entries (the initial draw uses 1/prior); priors are floats or arrays, not ints; seed is an int",
    "node labels are integers, all N nodes present; row i of u belongs to the i-th node in sorted label order",
    "hyperedge weights are positive",
    "sessions: what one object promises is taken from the unchanged code - a parameter that is set (supplied, or left by an earlier fit, "
    "returned or raised) is fixed for every later fit; the generator is drawn from in the first fit only, so a fresh object with the "
    "same seed reproduces it; queries read u, w, max_hye_size at the time of the call (arrays handed to the constructor are stored by "
    "reference: a write by the caller is a write to the object); fit on a hypergraph with another number of nodes only when nothing is "
    "left to infer (it is a no-op then)",
    "magnitude stream: 'up to rounding' is relative - 1e-9 of the value, plus 1e-12 of the minuend where the code itself subtracts (the "
    "square of the summed memberships minus its diagonal); the inputs keep every product u_ia w_ab u_jb and every sum of them inside the "
    "normal binary64 range (1e-280 .. 1e+280) and no row of u more than 1e3 above the others, so that these are rounding errors and not "
    "overflow / cancellation of the closed forms themselves; sizes are Python ints, numpy.int64 or int64 arrays (what np.arange and "
    "np.array give; an int32 array beyond 46341 overflows in d (d-1) on the unchanged code and is not generated); log_kappa is compared in "
    "log space within 1e-9 max(1, |value|)",
]
TRUSTED = [
    "seed stream: numpy's Generator.exponential(scale) is scale times a standard exponential variate and Generator.random(shape) is "
    "non-negative (the stub generator hands out recorded draws in exactly this way)",
    "binary64 evaluation of the float paths is compared with the exact rational model within 1e-9 (relative or absolute)",
    "numpy object-array arithmetic (@, *, +, -, /, sum, matmul, outer) applies the Fraction operators entrywise",
    "math.log / np.log for the likelihood oracle",
    "magnitude stream: math.log of an exact Python integer of any size, math.lgamma beyond 20000 (spot use), correctly rounded int / int "
    "true division, math.fsum, numpy cumsum / einsum for the running pair sums (self-checked against the explicit double sum for N <= 40)",
]
BUDGET_S = {"quick": 55, "thorough": 880}
if hasattr(sys, "set_int_max_str_digits"):
    sys.set_int_max_str_digits(0)
TOL = 1e-9

# -------------------------------------------------------------------------------------------------
# helpers


class Timeout(Exception):
    pass


def _alarm(signum, frame):
    raise Timeout()


def guarded(f, seconds=20):
    """run f(); unexpected exceptions / hangs become observations"""
    old = signal.signal(signal.SIGALRM, _alarm)
    signal.alarm(seconds)
    try:
        with warnings.catch_warnings():
            warnings.simplefilter("ignore")
            return ("ok", f())
    except Timeout:
        return ("exc", "timeout")
    except Exception as e:  # noqa: BLE001
        return ("exc", type(e).__name__ + ": " + str(e)[:120])
    finally:
        signal.alarm(0)
        signal.signal(signal.SIGALRM, old)


def qarr(x):
    import numpy as np
    src = np.array(x, dtype=object)
    a = np.empty(src.shape, dtype=object)
    for idx, v in np.ndenumerate(src):
        a[idx] = Q(Fraction(v))
    return a


def F(x):
    return Fraction(x)


def close(a, b, tol=TOL):
    a, b = float(a), float(b)
    if not (math.isfinite(a) and math.isfinite(b)):
        return False
    return abs(a - b) <= tol * max(1.0, abs(a), abs(b))


def mat_close(A, B, tol=TOL):
    A, B = [list(r) for r in A], [list(r) for r in B]
    return len(A) == len(B) and all(len(r) == len(s) and all(close(x, y, tol) for x, y in zip(r, s)) for r, s in zip(A, B))


def enc_mat(M):
    return hgxv.enc_lists([[F(x) for x in row] for row in M])


def dec_mat(s):
    return hgxv.dec_lists(s)


def bilin(ui, w, uj):
    return sum(ui[a] * w[a][b] * uj[b] for a in range(len(ui)) for b in range(len(uj)))


def lam(u, w, e):
    """Poisson parameter by its definition: sum over node pairs i<j of the hyperedge"""
    e = sorted(e)
    return sum(bilin(u[i], w, u[j]) for x, i in enumerate(e) for j in e[x + 1:])


def kappa(N, d):
    return Fraction(math.comb(N - 2, d - 2) * d * (d - 1), 2)


def all_edges(N, d):
    return itertools.combinations(range(N), d)


# -------------------------------------------------------------------------------------------------
# generators

def gen_u(rng, N, K):
    u = [[Fraction(0 if rng.random() < 0.2 else rng.randint(1, 16), 8) for _ in range(K)] for _ in range(N)]
    return u


def single_holder(rng, u, N, K):
    """memberships in which a community k >= 1 is held by one node only (or by nobody) while community 0 is held by every
    node: the data keep positive Poisson parameters, the denominators of the updates that belong to k vanish (the branch
    of the D46 repair: entry := 0 instead of 0/0)"""
    u = [list(row) for row in u]
    for i in range(N):
        if u[i][0] == 0:
            u[i][0] = Fraction(rng.randint(1, 16), 8)
    for k in rng.sample(range(1, K), rng.randint(1, K - 1)):
        holder = rng.randrange(N) if rng.random() < 0.8 else None
        for i in range(N):
            u[i][k] = Fraction(rng.randint(1, 16), 8) if i == holder else Fraction(0)
    return u


def gen_w(rng, K, diagonal):
    w = [[Fraction(0)] * K for _ in range(K)]
    for a in range(K):
        for b in range(a, K):
            if a == b or not diagonal:
                v = Fraction(rng.randint(0 if a != b else 1, 12), 8)
                w[a][b] = w[b][a] = v
    return w


def gen_edges(rng, N, D, nmax=9, positive_u=None):
    E = rng.randint(1, nmax)
    seen, edges = set(), []
    for _ in range(E):
        d = rng.choice([2, 2, 3, 3, 4, 5, 6, 7])
        d = max(2, min(d, D))
        e = tuple(sorted(rng.sample(range(N), d)))
        if e not in seen:
            seen.add(e)
            edges.append(e)
    mode = rng.choice(["unweighted", "int", "quarter"])
    if mode == "unweighted":
        weights = None
    elif mode == "int":
        weights = [rng.randint(1, 5) for _ in edges]
    else:
        weights = [rng.randint(1, 12) / 4 for _ in edges]
    return edges, weights


def gen_prior(rng, rows, cols, symmetric):
    r = rng.random()
    if r < 0.75:
        return rng.choice([0.0, 0.5, 1.0, 5.0])
    M = [[Fraction(rng.randint(0, 8), 4) for _ in range(cols)] for _ in range(rows)]
    if symmetric:
        for a in range(rows):
            for b in range(a):
                M[a][b] = M[b][a]
    return M


def prior_matrix(p, rows, cols):
    if isinstance(p, (int, float)):
        return [[Fraction(p)] * cols for _ in range(rows)]
    return [[Fraction(x) for x in row] for row in p]


def gen_history(rng, N, edges):
    """how the Hypergraph object is reached: non-contiguous (strictly increasing) integer labels, shuffled insertion of
    nodes and hyperedges, nodes of a hyperedge passed in any order, temporary hyperedges, removed and re-inserted ones"""
    if rng.random() < 0.45:
        return None
    step = rng.choice([1, 1, 2, 7])
    base = rng.choice([0, 0, 3, 100])
    labels = [base + step * i + (rng.randint(0, step - 1) if step > 1 else 0) for i in range(N)]
    node_order = list(range(N))
    rng.shuffle(node_order)
    edge_order = list(range(len(edges)))
    rng.shuffle(edge_order)
    perms = [rng.sample(list(e), len(e)) for e in edges]
    Dtrue = max(len(e) for e in edges)
    temp = []
    for _ in range(rng.randint(0, 2)):
        e = tuple(sorted(rng.sample(range(N), rng.randint(2, Dtrue))))
        if e not in set(edges) and e not in temp:
            temp.append(e)
    readd = rng.sample(range(len(edges)), rng.randint(0, min(2, len(edges))))
    return {"labels": labels, "node_order": node_order, "edge_order": edge_order, "perms": perms, "temp": temp, "readd": readd}


def build_hypergraph(N, edges, weights, hist=None):
    from hypergraphx import Hypergraph
    h = Hypergraph(weighted=weights is not None)
    if not hist:
        h.add_nodes(list(range(N)))
        if weights is None:
            h.add_edges([tuple(e) for e in edges])
        else:
            h.add_edges([tuple(e) for e in edges], weights=list(weights))
        return h
    L = hist["labels"]

    def lab(e):
        return tuple(L[i] for i in e)

    def add(k):
        if weights is None:
            h.add_edge(lab(hist["perms"][k]))
        else:
            h.add_edge(lab(hist["perms"][k]), weight=weights[k])
    h.add_nodes([L[i] for i in hist["node_order"]])
    for t in hist["temp"]:
        if weights is None:
            h.add_edge(lab(t))
        else:
            h.add_edge(lab(t), weight=7)
    for k in hist["edge_order"]:
        add(k)
    for t in hist["temp"]:
        h.remove_edge(lab(t))
    for k in hist["readd"]:
        h.remove_edge(lab(edges[k]))
        add(k)
    return h


def data_mismatch(cols, hw, edges, weights):
    """the implementation's incidence columns / weights against the hypergraph that was built (index space)"""
    want = sorted((tuple(sorted(e)), float(1 if weights is None else w)) for e, w in zip(edges, weights or [1] * len(edges)))
    got = sorted((tuple(sorted(c)), float(w)) for c, w in zip(cols, hw))
    return None if want == got else f"binary_incidence_matrix / get_weights give {got}, the hypergraph has {want}"


def incidence_and_weights(h, N):
    """the implementation's own incidence matrix (anchor: linalg.binary_incidence_matrix) and weights"""
    import numpy as np
    from hypergraphx.linalg.linalg import binary_incidence_matrix
    B = binary_incidence_matrix(h)
    Bd = np.asarray(B.todense())
    cols = [tuple(int(i) for i in np.nonzero(Bd[:, e])[0]) for e in range(Bd.shape[1])]
    return B, Bd, cols, list(h.get_weights())


# -------------------------------------------------------------------------------------------------
# stream 1: linear operations, Poisson parameters, closed forms

def check_closed(ctx, drv, case):
    import numpy as np
    from hypergraphx.communities.hy_mmsbm import _linear_ops as lo
    from hypergraphx.communities.hy_mmsbm.model import HyMMSBM
    N, K, D = case["N"], case["K"], case["D"]
    u = [[F(x) for x in r] for r in case["u"]]
    w = [[F(x) for x in r] for r in case["w"]]
    edges = [tuple(e) for e in case["edges"]]
    weights = case["weights"]
    uq, wq = qarr(u), qarr(w)
    bad = []          # violations (what)
    lines, expect = [], []   # model queries and the implementation's answers

    def viol(what):
        bad.append(what)

    def ask(line, kind, val):
        lines.append(line)
        expect.append((kind, val))

    ask("setu " + enc_mat(u), "ok", None)
    ask("setw " + enc_mat(w), "ok", None)

    # ---- _linear_ops on exact arrays
    st, r = guarded(lambda: (lo.qf(uq, wq), lo.bf(uq, uq, wq), lo.qf_and_sum(uq, wq), lo.bf_and_sum(uq, wq),
                             lo.qf(uq[0], wq), lo.bf(uq[0], uq[N - 1], wq), lo.bf(uq, uq[N - 1], wq), lo.bf(uq[0], uq, wq)))
    if st != "ok":
        viol(f"_linear_ops raised {r}")
    else:
        qf_, bf_, qfs, bfs, qf0, bf0, bf_col, bf_row = r
        if [F(x) for x in bf_col] != [bilin(u[i], w, u[N - 1]) for i in range(N)] or \
                [F(x) for x in bf_row] != [bilin(u[0], w, u[j]) for j in range(N)]:
            viol("bf(batch, vector, w) / bf(vector, batch, w) differ from u_i^T w u_j")
        want_qf = [bilin(u[i], w, u[i]) for i in range(N)]
        want_bf = [[bilin(u[i], w, u[j]) for j in range(N)] for i in range(N)]
        pair_sum = sum(bilin(u[i], w, u[j]) for i in range(N) for j in range(i + 1, N))
        if [F(x) for x in qf_] != want_qf or F(qf0) != want_qf[0]:
            viol(f"qf(u, w) = {list(qf_)} but u_i^T w u_i = {want_qf}")
        if [[F(x) for x in row] for row in bf_] != want_bf or F(bf0) != want_bf[0][N - 1]:
            viol("bf(u, u, w) differs from u_i^T w u_j")
        if F(qfs) != sum(want_qf):
            viol(f"qf_and_sum = {qfs}, definition {sum(want_qf)}")
        if F(bfs) != pair_sum:
            viol(f"bf_and_sum = {bfs}, but sum_(i<j) u_i^T w u_j = {pair_sum}")
        ask("qf", "rats", [F(x) for x in qf_])
        ask("bf", "ratss", [[F(x) for x in row] for row in bf_])
        ask("qfsum", "rats", [F(qfs)])
        ask("bfsum", "rats", [F(bfs)])

    # ---- Poisson parameters of the data hyperedges, through the real incidence matrix
    hist = case.get("hist")
    labels = hist["labels"] if hist else list(range(N))

    def inc_and_map():
        from hypergraphx.linalg.linalg import binary_incidence_matrix
        h = build_hypergraph(N, edges, weights, hist)
        B2, mapping = binary_incidence_matrix(h, return_mapping=True)
        return incidence_and_weights(h, N), B2, mapping
    st, r = guarded(inc_and_map)
    if st != "ok":
        viol(f"binary_incidence_matrix / Hypergraph raised {r}")
        cols = None
    else:
        (B, Bd, cols, hw), B2, mapping = r
        mm = data_mismatch(cols, hw, edges, weights)
        if mm:
            viol(mm)
        if Bd.shape != (N, len(edges)) or (B2 != B).nnz:
            viol(f"binary_incidence_matrix: shape {Bd.shape} for {N} nodes and {len(edges)} hyperedges, or return_mapping changes the matrix")
        if {int(k): v for k, v in dict(mapping).items()} != {i: labels[i] for i in range(N)}:
            viol(f"binary_incidence_matrix(return_mapping=True) maps {dict(mapping)}, the rows are the nodes {labels} in sorted order")
    model = None
    st, r = guarded(lambda: HyMMSBM(u=uq, w=wq, max_hye_size=D, u_prior=0.0, w_prior=1.0))
    if st != "ok":
        viol(f"HyMMSBM(u, w) raised {r}")
    else:
        model = r
        diag = all(w[a][b] == 0 for a in range(K) for b in range(K) if a != b)
        if bool(model.assortative) != diag or model.K != K or model.N != N:
            viol(f"inferred assortative/K/N = {model.assortative}/{model.K}/{model.N}, expected {diag}/{K}/{N}")
    if model is not None and cols is not None:
        Bo = Bd.astype(object)
        st, r = guarded(lambda: model.poisson_params(Bo, return_edge_sum=True))
        if st != "ok":
            viol(f"poisson_params raised {r}")
        else:
            pp, es = r
            want = [lam(u, w, e) for e in cols]
            if [F(x) for x in pp] != want:
                viol(f"poisson_params = {[str(F(x)) for x in pp]} but the pair sums are {[str(x) for x in want]} (hyperedges {cols})")
            want_es = [[sum(u[i][a] for i in e) for a in range(K)] for e in cols]
            if [[F(x) for x in row] for row in es] != want_es:
                viol("edge sums differ from sum_(i in e) u_i")
            ask("data " + hgxv.enc_lists(cols) + " " + hgxv.enc_list([F(x) for x in hw]), "ok", None)
            ask("pois", "rats", [F(x) for x in pp])
            ask("esum", "ratss", [[F(x) for x in row] for row in es])
        # float path with the sparse matrix
        uf, wf = np.array(u, dtype=float), np.array(w, dtype=float)
        st, r = guarded(lambda: HyMMSBM(u=uf, w=wf, max_hye_size=D).poisson_params(B))
        if st != "ok":
            viol(f"poisson_params(sparse) raised {r}")
        elif not all(close(x, y) for x, y in zip(r, [lam(u, w, e) for e in cols])) or len(r) != len(cols):
            viol(f"poisson_params(sparse, float) = {list(r)} differs from the pair sums")

    # ---- constants and expected statistics
    if model is not None:
        S = sum(bilin(u[i], w, u[j]) for i in range(N) for j in range(i + 1, N))
        lam_all = {d: {e: lam(u, w, e) for e in all_edges(N, d)} for d in range(2, D + 1)}
        dsets = [("all", list(range(2, D + 1)))]
        d1 = case["d_single"]
        dsets.append((d1, [d1]))
        if D >= 3:
            dsets.append((np.arange(3, D + 1), list(range(3, D + 1))))
        if case.get("d_subset"):
            dsets.append((np.array(case["d_subset"]), list(case["d_subset"])))
        for darg, ds in dsets:
            dtxt = hgxv.enc_list(ds)
            # C, summands, C', C'', kappa
            def consts():
                out = [model.C(darg), model.C(darg, return_summands=True), model._C_second(darg)]
                out.append(model._C_prime(darg) if N >= 3 else None)
                out.append([math.exp(model.log_kappa(d)) for d in ds])
                out.append(np.exp(model.log_kappa(np.array(ds))))
                return out
            st, r = guarded(consts)
            if st != "ok":
                viol(f"C/_C_prime/_C_second/log_kappa raised {r} for d={ds}")
                continue
            Cv, Cs, C2, C1, kap, kapv = r
            # definitions: C = sum_d binom(N-2,d-2)/kappa_d ; C' = sum binom(N-3,d-3)/kappa_d ; C'' = sum binom(N-2,d-2) d / (N kappa_d)
            kdef = [kappa(N, d) for d in ds]
            # kappa itself: (number of hyperedges of size d containing a fixed node pair) * (number of node pairs in one)
            kcount = [Fraction(sum(1 for e in all_edges(N, d) if 0 in e and 1 in e) * sum(1 for _ in itertools.combinations(range(d), 2)))
                      for d in ds]
            if kdef != kcount:
                viol("internal: kappa definition")  # never happens; keeps the oracle honest
            if not all(close(x, y) for x, y in zip(kap, kdef)) or not all(close(x, y) for x, y in zip(kapv, kdef)):
                viol(f"exp(log_kappa(d)) = {kap} but binom(N-2,d-2) d (d-1)/2 = {[str(k) for k in kdef]} (N={N}, d={ds})")
            wantC = [Fraction(math.comb(N - 2, d - 2)) / kappa(N, d) for d in ds]
            if not close(Cv, sum(wantC)) or not all(close(x, y) for x, y in zip(np.atleast_1d(Cs), wantC)):
                viol(f"C({ds}) = {Cv} but sum binom(N-2,d-2)/kappa_d = {sum(wantC)}")
            wantC2 = sum(Fraction(math.comb(N - 2, d - 2) * d) / kappa(N, d) for d in ds) / N
            if not close(C2, wantC2):
                viol(f"_C_second({ds}) = {C2} but sum binom(N-2,d-2) d /(N kappa_d) = {wantC2}")
            if N >= 3:
                wantC1 = sum(Fraction(math.comb(N - 3, d - 3) if d >= 3 else 0) / kappa(N, d) for d in ds)
                if not close(C1, wantC1):
                    viol(f"_C_prime({ds}) = {C1} but sum binom(N-3,d-3)/kappa_d = {wantC1}")
                ask(f"consts {N} {dtxt}", "consts", (Cv, list(np.atleast_1d(Cs)), C1, C2, kap))
            # expected degrees: sum over ALL hyperedges of the sizes in ds
            st, r = guarded(lambda: (model.expected_degree(per_node=True, d=darg) if N >= 3 else None,
                                     model.expected_degree(per_node=False, d=darg)))
            if st != "ok":
                viol(f"expected_degree raised {r} for d={ds}")
                continue
            per_node, avg = r
            want_node = [sum(l / kappa(N, d) for d in ds for e, l in lam_all[d].items() if i in e) for i in range(N)]
            want_avg = sum(want_node) / N
            if per_node is not None:
                if len(per_node) != N or not all(close(x, y) for x, y in zip(per_node, want_node)):
                    viol(f"expected_degree(per_node=True, d={ds}) = {[float(x) for x in per_node]} but the sum over all "
                         f"hyperedges of lambda_e/kappa_e is {[float(x) for x in want_node]}")
                ask("expdeg " + dtxt, "tol", [F(x) for x in per_node])
            if not close(avg, want_avg):
                viol(f"expected_degree(d={ds}) = {float(avg)} but the average over nodes of the summed lambda_e/kappa_e is {float(want_avg)}")
            ask("expavg " + dtxt, "tol", [F(avg)])
        # dimension / degree sequences (expected)
        for dyadic in (True, False):
            ds = list(range(2 if dyadic else 3, D + 1))
            st, r = guarded(lambda: (model.dimension_sequence(include_dyadic=dyadic, expected=True),
                                     model.degree_sequence(include_dyadic=dyadic, expected=True) if N >= 3 else None))
            if st != "ok":
                viol(f"dimension_sequence/degree_sequence(expected=True, include_dyadic={dyadic}) raised {r}")
                continue
            dim, deg = r
            want_dim = {d: sum(lam_all[d].values()) / kappa(N, d) for d in ds}
            want_keys = [d for d in ds if want_dim[d] > 0]
            got = {int(k): v for k, v in dim.items()}
            # the property fixes the VALUE per size; a size that is listed with value 0 or left out with value 0 is the same claim
            if any(k not in ds for k in got) or not all(close(got.get(d, 0), want_dim[d]) for d in ds):
                viol(f"dimension_sequence(expected=True, include_dyadic={dyadic}) = { {k: float(v) for k, v in got.items()} } but the "
                     f"expected counts sum_e lambda_e/kappa_d are { {d: float(want_dim[d]) for d in want_keys} }")
            ask("dimseq " + hgxv.enc_list(ds), "dimseq", got)
            if deg is not None:
                want_deg = [sum(l / kappa(N, d) for d in ds for e, l in lam_all[d].items() if i in e) for i in range(N)]
                if len(deg) != N or not all(close(x, y) for x, y in zip(deg, want_deg)):
                    viol(f"degree_sequence(expected=True, include_dyadic={dyadic}) differs from the summed lambda_e/kappa_e")

    nontrivial = K >= 2 and any(len(e) >= 3 for e in edges) and len({tuple(r) for r in u}) >= 2
    ctx.case(repr(("closed", N, K, D, u, w, edges, weights)), nontrivial, sample=case)
    for what in bad:
        ctx.violation(case, what)
    compare(ctx, drv, case, lines, expect)


def compare(ctx, drv, case, lines, expect):
    if drv is None or not lines:
        return
    ans = drv.batch(lines)
    for ln, a, (kind, val) in zip(lines, ans, expect):
        ok = True
        try:
            if kind == "ok":
                ok = a == "ok"
            elif kind == "raw":
                ok = a == val
            elif kind == "rats":
                ok = hgxv.dec_list(a) == list(val)
            elif kind == "ratss":
                ok = dec_mat(a) == [list(r) for r in val]
            elif kind == "tol":
                got = hgxv.dec_list(a)
                ok = len(got) == len(val) and all(close(x, y) for x, y in zip(got, val))
            elif kind == "toll":
                ok = a != "nonfinite" and mat_close(dec_mat(a), val)
            elif kind == "consts":
                Cv, Cs, C1, C2, kap = val
                p = a.split(";")
                ok = (len(p) == 5 and close(hgxv.dec_num(p[0]), Cv) and close(hgxv.dec_num(p[2]), C1)
                      and close(hgxv.dec_num(p[3]), C2)
                      and all(close(x, y) for x, y in zip(hgxv.dec_list(p[1]), Cs)) and len(hgxv.dec_list(p[1])) == len(Cs)
                      and all(close(x, y) for x, y in zip(hgxv.dec_list(p[4]), kap)))
            elif kind == "dimseq":
                got = {}
                if a != "-":
                    for item in a.split(","):
                        k, v = item.split(":")
                        got[int(k)] = hgxv.dec_num(v)
                ok = sorted(got) == sorted(val) and all(close(got[k], val[k]) for k in val)
            elif kind == "fit":
                if val == "rej":
                    ok = a == "rej"
                else:
                    Dm, uu, ww, it, reached = val
                    p = a.split("|")
                    ok = (len(p) == 5 and int(p[0]) == Dm and mat_close(dec_mat(p[1]), uu, 1e-8) and mat_close(dec_mat(p[2]), ww, 1e-8)
                          and p[3] == str(it) and p[4] == str(int(reached)))
            elif kind == "toll12":
                ok = a not in ("nonfinite", "badprior") and mat_close(dec_mat(a), val, 1e-12)
            elif kind == "fitseed":
                Dm, uu, ww, it, reached = val
                p = a.split("|")
                ok = (len(p) == 6 and p[0] == "ok" and int(p[1]) == Dm and mat_close(dec_mat(p[2]), uu, 1e-8)
                      and mat_close(dec_mat(p[3]), ww, 1e-8) and p[4] == str(it) and p[5] == str(int(reached)))
            elif kind == "llparts":
                got_ll, A = val
                first, lams = a.split("|")
                lams = [float(x) for x in hgxv.dec_list(lams)]
                if all(x > 0 for x in lams):
                    ref = -float(hgxv.dec_num(first)) + sum(wt * math.log(x) for wt, x in zip(A, lams))
                    ok = got_ll[0] == "ok" and close(got_ll[1], ref)
                    val = got_ll
            elif kind in ("ofit", "ostate"):
                # the Lean object after a call of fit / at the end of a session against the implementation's attributes
                returned, sn = val if kind == "ofit" else (None, val)
                p = a.split("|")
                if kind == "ofit":
                    ok = p[0] == ("ret" if returned else "raise")
                    p = p[1:]
                ok = ok and len(p) == 6 and int(p[0]) == (-1 if sn["max_hye_size"] is None else sn["max_hye_size"])
                for txt, arr in ((p[1], sn["u"]), (p[2], sn["w"])):
                    ok = ok and ((txt == "none") == (arr is None)) and (arr is None or mat_close(dec_mat(txt), arr.tolist(), 1e-8))
                if kind == "ofit" and returned:
                    ok = ok and p[3] == "1" and sn["trained"] is True and p[4] == str(sn["training_iter"]) \
                        and p[5] == str(int(bool(sn["tolerance_reached"])))
                if not ok:
                    val = {k: (v.tolist() if hasattr(v, "tolist") else v) for k, v in sn.items()}
        except Exception as e:  # noqa: BLE001
            ok = False
            a = f"{a[:80]} ({type(e).__name__})"
        if not ok:
            ctx.disagree({**case, "line": ln[:400]}, f"model answers {a[:200]!r} to {ln[:60]!r}, implementation gives {str(val)[:200]}")


def gen_closed(rng):
    N = rng.choice([2, 3, 3, 4, 4, 5, 5, 6, 7])
    K = rng.randint(1, 3)
    D = rng.randint(2, N)
    diag = rng.random() < 0.4
    edges, weights = gen_edges(rng, N, D)
    sub = rng.sample(range(2, D + 1), rng.randint(1, D - 1))     # non-contiguous, unsorted sizes
    return {"kind": "closed", "N": N, "K": K, "D": D, "u": gen_u(rng, N, K), "w": gen_w(rng, K, diag),
            "edges": edges, "weights": weights, "d_single": rng.randint(2, D), "d_subset": sub,
            "hist": gen_history(rng, N, edges)}


# -------------------------------------------------------------------------------------------------
# stream 2: one update in exact arithmetic

def objective(u, w, cols, A, rmat, N):
    """penalised objective of the w-step, exact pieces + float logs:
    sum_e A_e log lambda_e - sum_(i<j) u_i^T w u_j - sum_ab r_ab w_ab   (and the unpenalised one)"""
    ls = [lam(u, w, e) for e in cols]
    if any(l <= 0 for l in ls):
        return None, None
    data = sum(float(a) * math.log(l) for a, l in zip(A, ls))   # math.log accepts Fractions of any size
    S = sum(bilin(u[i], w, u[j]) for i in range(N) for j in range(i + 1, N))
    pen = sum(rmat[a][b] * w[a][b] for a in range(len(w)) for b in range(len(w)))
    return data - float(S), data - float(S) - float(pen)


def check_update(ctx, drv, case):
    import numpy as np
    from hypergraphx.communities.hy_mmsbm.model import HyMMSBM
    N, K = case["N"], case["K"]
    u = [[F(x) for x in r] for r in case["u"]]
    w = [[F(x) for x in r] for r in case["w"]]
    edges = [tuple(e) for e in case["edges"]]
    weights = case["weights"]
    wp, up = case["w_prior"], case["u_prior"]
    bad, lines, expect = [], [], []
    diag = all(w[a][b] == 0 for a in range(K) for b in range(K) if a != b)

    def conv(p):
        return float(p) if isinstance(p, (int, float)) else qarr(p)
    st, r = guarded(lambda: (HyMMSBM(u=qarr(u), w=qarr(w), u_prior=conv(up), w_prior=conv(wp), max_hye_size=N),
                             incidence_and_weights(build_hypergraph(N, edges, weights, case.get("hist")), N)))
    if st != "ok":
        ctx.case(repr(("update", case)), False)
        ctx.violation(case, f"constructing the model / incidence matrix raised {r}")
        return
    model, (B, Bd, cols, hw) = r
    Bo = Bd.astype(object)
    A = qarr([F(x) for x in hw])
    rw, ru = prior_matrix(wp, K, K), prior_matrix(up, N, K)
    lams = [lam(u, w, e) for e in cols]
    lines += ["setu " + enc_mat(u), "setw " + enc_mat(w),
              "data " + hgxv.enc_lists(cols) + " " + hgxv.enc_list([F(x) for x in hw])]
    expect += [("ok", None)] * 3
    # since the repair of D46 only a vanishing Poisson parameter (multiplier = weight / parameter) can make an update fail:
    # an entry whose denominator vanishes is set to 0 by the code (model: `safeDiv`), and that must be the only such entry
    lam_ok = all(lams)
    wden = [[Fraction(1, 2) * (sum(u[i][a] for i in range(N)) * sum(u[i][b] for i in range(N)) - sum(u[i][a] * u[i][b] for i in range(N)))
             + rw[a][b] for b in range(K)] for a in range(K)]
    if lam_ok and any(x == 0 for row in wden for x in row):
        ctx.count("w_updates_with_a_vanishing_denominator")
    # ---- w update
    st, r = guarded(lambda: model._w_update(Bo, A))
    if st != "ok":
        if lam_ok:
            bad.append(f"_w_update raised {r} although every Poisson parameter is non-zero (denominators: "
                       f"{[[str(x) for x in row] for row in wden]}; an entry with a vanishing denominator is 0/0 and must become 0)")
        lines.append("wupd " + enc_mat(rw))
        expect.append(("raw", "nonfinite"))
    else:
        w1 = [[F(x) for x in row] for row in r]
        lines.append("wupd " + enc_mat(rw))
        expect.append(("ratss", w1))
        if any(x < 0 for row in w1 for x in row):
            bad.append(f"_w_update produced a negative entry: {[[str(x) for x in row] for row in w1]}")
        sym_prior = all(rw[a][b] == rw[b][a] for a in range(K) for b in range(K))
        if sym_prior and any(w1[a][b] != w1[b][a] for a in range(K) for b in range(K)):
            bad.append("_w_update of a symmetric w is not symmetric")
        if diag and any(w1[a][b] != 0 for a in range(K) for b in range(K) if a != b):
            bad.append("_w_update of a diagonal w is not diagonal")
        # one-step ascent of the penalised objective (C15_ascent); needs the hypotheses of the theorem
        if sym_prior and all(l > 0 for l in lams) and all(x >= 0 for row in rw for x in row):
            p0, q0 = objective(u, w, cols, [F(x) for x in hw], rw, N)
            p1, q1 = objective(u, w1, cols, [F(x) for x in hw], rw, N)
            if q1 is None:
                bad.append("a Poisson parameter became non-positive after one _w_update")
            elif q1 < q0 - TOL * max(1.0, abs(q0)):
                bad.append(f"one _w_update decreased the penalised log-likelihood: {q0!r} -> {q1!r} (w_prior={wp})")
            elif all(x == 0 for row in rw for x in row) and p1 < p0 - TOL * max(1.0, abs(p0)):
                bad.append(f"one _w_update with w_prior=0 decreased the log-likelihood: {p0!r} -> {p1!r}")
            elif p1 < p0 - TOL * max(1.0, abs(p0)):
                ctx.count("D28_one_step_plain_decrease_with_prior")
    # ---- u update
    uden = [[sum(w[a][c] * sum(u[j][c] for j in range(N)) for c in range(K)) - sum(u[i][c] * w[c][a] for c in range(K)) + ru[i][a]
             for a in range(K)] for i in range(N)]
    if lam_ok and any(x == 0 for row in uden for x in row):
        ctx.count("u_updates_with_a_vanishing_denominator")
    st, r = guarded(lambda: model._u_update(Bo, A))
    lines.append("uupd " + enc_mat(ru))
    if st != "ok":
        if lam_ok:
            bad.append(f"_u_update raised {r} although every Poisson parameter is non-zero (denominators: "
                       f"{[[str(x) for x in row] for row in uden]}; an entry with a vanishing denominator is 0/0 and must become 0)")
        expect.append(("raw", "nonfinite"))
    else:
        u1 = [[F(x) for x in row] for row in r]
        expect.append(("ratss", u1))
        if any(x < 0 for row in u1 for x in row) and all(x >= 0 for row in ru for x in row):
            bad.append(f"_u_update produced a negative entry: {[[str(x) for x in row] for row in u1]}")
    nontrivial = K >= 2 and any(len(e) >= 3 for e in edges) and len({tuple(r) for r in u}) >= 2 and all(lams)
    ctx.case(repr(("update", N, K, u, w, edges, weights, wp, up)), nontrivial, sample=case)
    for what in bad:
        ctx.violation(case, what)
    compare(ctx, drv, case, lines, expect)


def gen_update(rng):
    N = rng.choice([2, 3, 4, 4, 5, 5, 6, 7])
    K = rng.randint(1, 3)
    diag = rng.random() < 0.4
    edges, weights = gen_edges(rng, N, N, nmax=7)
    u = gen_u(rng, N, K)
    r = rng.random()
    if r < 0.6:   # mostly strictly positive memberships: every Poisson parameter positive
        u = [[x if x > 0 else Fraction(rng.randint(1, 16), 8) for x in row] for row in u]
    single = 0.6 <= r < 0.8 and K >= 2
    if single:
        u = single_holder(rng, u, N, K)
    case = {"kind": "update", "N": N, "K": K, "u": u, "w": gen_w(rng, K, diag), "edges": edges, "weights": weights,
            "w_prior": gen_prior(rng, K, K, True), "u_prior": gen_prior(rng, N, K, False), "hist": gen_history(rng, N, edges)}
    if single and rng.random() < 0.6:    # without a prior the denominators of the single-holder community are exactly 0
        case["w_prior"] = case["u_prior"] = 0.0
    return case


# -------------------------------------------------------------------------------------------------
# stream 3: fit

def exact_loglik(u, w, cols, A, N, D, rmat):
    """exact Poisson log-likelihood (up to the sum of log A_e!) of the data under (u, w, max size D):
    sum_e A_e log(lambda_e/kappa_e) - sum over ALL hyperedges of size 2..D of lambda_e/kappa_e ;
    second value: minus the exponential-prior term C(D) * sum_ab r_ab w_ab (log-posterior up to a constant)"""
    import numpy as np
    u = np.asarray(u, dtype=float)
    w = np.asarray(w, dtype=float)
    G = u @ w @ u.T

    def lam_f(e):
        return sum(G[i, j] for x, i in enumerate(e) for j in e[x + 1:])
    data = 0.0
    for e, a in zip(cols, A):
        l = lam_f(e)
        if not (l > 0) or len(e) > D:
            return None, None
        data += a * math.log(l / float(kappa(N, len(e))))
    norm = sum(lam_f(e) / float(kappa(N, d)) for d in range(2, D + 1) for e in all_edges(N, d))
    Cd = sum(2.0 / (d * (d - 1)) for d in range(2, D + 1))
    pen = Cd * float(np.sum(np.asarray(rmat, dtype=float) * w))
    return data - norm, data - norm - pen


def conv_prior(p):
    """a prior as the constructor takes it: float, or float array"""
    import numpy as np
    if isinstance(p, (int, float, Fraction)):
        return float(p)
    return np.array([[float(F(x)) for x in row] for row in p])


def prior_is_zero(p):
    return isinstance(p, (int, float, Fraction)) and float(p) == 0.0


def stop_of(case):
    """(tolerance, check_convergence_every) in effect; 'default' = the argument is not passed (None / 10)"""
    tol = case.get("tolerance", "default")
    if isinstance(tol, dict):
        raise ValueError("tolerance not resolved")
    ev = case.get("every", "default")
    return (None if tol == "default" else tol), (10 if ev == "default" else ev)


def run_fit(case, n_iter, record, no_stop=False):
    """one real fit; returns the model and the list of recorded update calls.
    no_stop: the reference run (tolerance / check_convergence_every not passed)"""
    import numpy as np
    from hypergraphx.communities.hy_mmsbm.model import HyMMSBM
    N, K = case["N"], case["K"]
    u_sup = None if case["u"] is None else np.array([[float(F(x)) for x in r] for r in case["u"]])
    w_sup = None if case["w"] is None else np.array([[float(F(x)) for x in r] for r in case["w"]])
    u_copy = None if u_sup is None else u_sup.copy()
    w_copy = None if w_sup is None else w_sup.copy()
    h = build_hypergraph(N, [tuple(e) for e in case["edges"]], case["weights"], case.get("hist"))
    up, wp = conv_prior(case["u_prior"]), conv_prior(case["w_prior"])
    kw = {}
    if case.get("pass_K", True) or (u_sup is None and w_sup is None):
        kw["K"] = K
    if case.get("pass_assortative", True) or w_sup is None:
        kw["assortative"] = case["assortative"]
    m = HyMMSBM(u=u_sup, w=w_sup, max_hye_size=case["max_hye_size"], u_prior=up, w_prior=wp, seed=case["seed"], **kw)
    if case.get("w_init") is not None:
        # deterministic initial value instead of the random draw (used by the D28 witness only)
        w0 = np.array([[float(F(x)) for x in r] for r in case["w_init"]])
        m._init_w = lambda: setattr(m, "w", w0.copy())
    steps = []
    if record:
        real_w, real_u = m._w_update, m._u_update

        def rec_w(B, A):
            out = real_w(B, A)
            steps.append(("w", np.array(m.u, dtype=float).copy(), np.array(m.w, dtype=float).copy(), np.array(out, dtype=float).copy()))
            return out

        def rec_u(B, A):
            out = real_u(B, A)
            steps.append(("u", np.array(m.u, dtype=float).copy(), np.array(m.w, dtype=float).copy(), np.array(out, dtype=float).copy()))
            return out
        m._w_update, m._u_update = rec_w, rec_u
    fkw = {}
    if not no_stop:
        if case.get("tolerance", "default") != "default":
            fkw["tolerance"] = case["tolerance"]
        if case.get("every", "default") != "default":
            fkw["check_convergence_every"] = case["every"]
    m.fit(h, n_iter=n_iter, **fkw)
    priors = (up, None if isinstance(up, float) else up.copy(), wp, None if isinstance(wp, float) else wp.copy())
    return m, steps, (u_sup, u_copy, w_sup, w_copy), h, priors


def trajectory(steps, free_w, free_u, p_fixed, n):
    """states (u, w) after 0, 1, 2, .. passes of the loop body, from the recorded update calls of the reference run"""
    if not (free_w or free_u):
        return [p_fixed] * (n + 1)
    per = int(free_w) + int(free_u)
    if not steps or len(steps) % per:
        return None
    u, w = steps[0][1], steps[0][2]
    T = [(u, w)]
    for i in range(0, len(steps), per):
        j = i
        if free_w:
            if steps[j][0] != "w":
                return None
            w = steps[j][3]
            j += 1
        if free_u:
            if steps[j][0] != "u":
                return None
            u = steps[j][3]
        T.append((u, w))
    return T


def underflow_regime(kind, u, w, edges, ru, rw):
    """diagnosis for a non-finite update result (D46, repaired): is the float state (u, w) one in which the update divides
    by (numerically) zero?  The Poisson parameters of the data and the update's denominators, by their definitions in
    binary64; `None` when all are of ordinary size.  In binary64 a membership column that shrinks doubly exponentially
    reaches 1e-200 and its products underflow to exactly 0; the repaired updates store 0 where the denominator vanishes."""
    import numpy as np
    tiny = 1e-250
    with np.errstate(all="ignore"):
        G = u @ w @ u.T
        lams = [sum(G[i, j] for x, i in enumerate(e) for j in e[x + 1:]) for e in edges]
        us = u.sum(axis=0)
        if kind == "w":
            den = 0.5 * (np.outer(us, us) - u.T @ u) + np.asarray(rw, dtype=float)
        else:
            den = (w @ us)[None, :] - u @ w + np.asarray(ru, dtype=float)
    if any(not (abs(l) >= tiny) for l in lams):
        return f"a Poisson parameter of the data is {min(abs(float(l)) for l in lams):.3g} in binary64"
    if not np.all(np.abs(den) >= tiny):
        return f"a denominator of the {kind}-update is {float(np.min(np.abs(den))):.3g} in binary64"
    return None


def frob(x, y):
    import numpy as np
    d = (np.asarray(x, dtype=float) - np.asarray(y, dtype=float)).ravel()
    return math.sqrt(math.fsum(float(t) * float(t) for t in d))


def predict_stop(T, tol, every, n, N, K, margin):
    """the stopping rule by its description: at it > 0, it % every == 0 the loop is left when both
    ||w - old_w||_F / K and ||u - old_u||_F / N are below the tolerance; else it runs to it = n-1.
    Returns (training_iter, tolerance_reached, a test was within `margin` of the tolerance)"""
    border = False
    if tol is not None:
        for it in range(1, n):
            if it % every:
                continue
            dw = frob(T[it + 1][1], T[it][1]) / K
            du = frob(T[it + 1][0], T[it][0]) / N
            size = max(1.0, max(abs(float(x)) for x in T[it + 1][1].ravel()), max(abs(float(x)) for x in T[it + 1][0].ravel()))
            for dd in (dw, du):
                # undecidable in binary64: within the relative margin, or closer to the tolerance than the rounding noise
                # of the distance itself (a distance that is exactly 0 in exact arithmetic is 1 ulp of the entries here)
                if dd > 0 and (abs(dd - tol) <= margin * max(dd, abs(tol)) or abs(dd - tol) <= 1e-12 * size):
                    border = True
            if dw < tol and du < tol:
                return it, True, border
    return n - 1, False, border


def enc_traj(T):
    us = "|".join(enc_mat(u.tolist()) for u, _ in T)
    ws = "|".join(enc_mat(w.tolist()) for _, w in T)
    return f"traj {us} {ws}"


def check_fit(ctx, drv, case, nmax=8, model_replay=True):
    import numpy as np
    N, K = case["N"], case["K"]
    edges = [tuple(e) for e in case["edges"]]
    wts = case["weights"] if case["weights"] is not None else [1] * len(edges)
    Dtrue = max(len(e) for e in edges)
    rw = prior_matrix(case["w_prior"], K, K)
    ru = prior_matrix(case["u_prior"], N, K)
    orig_case = case
    every = stop_of({**case, "tolerance": None})[1]
    n_list = list(case.get("n_list") or range(1, nmax + 1))
    free_w, free_u = case["w"] is None, case["u"] is None
    bad, differ = [], []
    liks = []
    moved = False
    expect_rej = case["max_hye_size"] is not None and case["max_hye_size"] < Dtrue
    expect_zde = case.get("tolerance", "default") not in ("default", None) and every == 0     # `it % 0`
    # ---- reference run: no stopping rule, the largest n_iter; gives the trajectory of (u, w)
    T = None
    ref_steps = []
    Nref = max(n_list)
    st, r = guarded(lambda: run_fit(case, Nref, record=True, no_stop=True), seconds=40)
    if st == "ok":
        m, ref_steps, sup, h, _ = r
        p_fixed = (np.asarray(m.u, dtype=float), np.asarray(m.w, dtype=float))
        T = trajectory(ref_steps, free_w, free_u, p_fixed, Nref)
        if T is None or len(T) != Nref + 1:
            bad.append(f"fit(n_iter={Nref}) made {len(ref_steps)} update calls, not one w-update and/or one u-update per iteration")
            T = None
        st2, r2 = guarded(lambda: incidence_and_weights(h, N))
        if st2 != "ok":
            bad.append(f"binary_incidence_matrix raised {r2}")
        else:
            mm = data_mismatch(r2[2], r2[3], edges, case["weights"])
            if mm:
                bad.append(mm)
        # "keeps all parameters finite": the first non-finite update result of the reference run is a violation, whatever the
        # state it comes from.  (D46, repaired: a state whose denominators had underflowed / vanished gave 0/0; that class
        # was only counted before the repair - a repaired defect that returns must be reported.)
        per = int(free_w) + int(free_u)
        for idx, (kind, ui, wi, out) in enumerate(ref_steps):
            if not np.all(np.isfinite(out)):
                why = underflow_regime(kind, ui, wi, edges, ru, rw) if np.all(np.isfinite(ui)) and np.all(np.isfinite(wi)) else None
                bad.append(f"fit(n_iter={Nref}): the {kind}-update of iteration {idx // per} gave a non-finite value from the finite "
                           f"state u={ui.tolist()}, w={wi.tolist()}"
                           + (f" ({why}: the D46 class - an entry whose denominator vanishes must be set to 0)" if why else ""))
                break
    elif not (expect_rej and r.startswith("ValueError")):
        bad.append(f"fit(n_iter={Nref}) raised {r}")
    if isinstance(case.get("tolerance"), dict):
        # a tolerance next to the decision boundary of this very trajectory: `factor` times the larger of the two
        # normalised distances at the k-th convergence test (the same rule on replay: the reference run is deterministic)
        spec, resolved = case["tolerance"], 1e-3
        checks = [it for it in range(1, Nref) if every >= 1 and it % every == 0]
        if T is not None and checks:
            itc = checks[min(spec["k"], len(checks) - 1)]
            base = max(frob(T[itc + 1][1], T[itc][1]) / K, frob(T[itc + 1][0], T[itc][0]) / N)
            size = max(1.0, float(np.max(np.abs(T[itc + 1][1]))), float(np.max(np.abs(T[itc + 1][0]))))
            if math.isfinite(base) and base > 1e-10 * size:
                resolved = base * spec["factor"]
            elif base > 0:
                # the distance itself is rounding noise (e.g. K = 1 with supplied u: the w-update is at its fixed point after
                # one pass, exact distance 0, binary64 distance 1 ulp): a boundary relative to it cannot be compared with the
                # exact model; the default 1e-3 is used
                ctx.count("boundary_tolerance_within_rounding_noise_replaced")
        case = {**case, "tolerance": resolved}
        ctx.count("fit_cases_tolerance_at_decision_boundary")
    tol, every = stop_of(case)
    if T is not None and drv is not None and model_replay and not (expect_rej or expect_zde or bad):
        compare(ctx, drv, orig_case, [enc_traj(T)], [("ok", None)])
    Cdef = None
    for n in ([] if bad else n_list):
        st, r = guarded(lambda: run_fit(case, n, record=False))
        if st != "ok":
            if expect_rej and r.startswith("ValueError"):
                if drv is not None:
                    compare(ctx, drv, case, *fit_lines(case, None, None, n, ru, rw, 1.0, "rej"))
                ctx.count("fit_rejected_max_hye_size")
                break
            if expect_zde and r.startswith("ZeroDivisionError"):
                if drv is not None and T is not None:
                    compare(ctx, drv, case, *fit_lines(case, T[0][0], T[0][1], n, ru, rw, 1.0, "rej"))
                ctx.count("fit_rejected_check_every_0")
                break
            bad.append(f"fit(n_iter={n}, tolerance={tol}, check_convergence_every={every}) raised {r}")
            break
        m, _, (u_sup, u_copy, w_sup, w_copy), h, (up, up_copy, wp, wp_copy) = r
        if expect_rej:
            bad.append(f"fit accepted a hypergraph with a hyperedge of size {Dtrue} > max_hye_size={case['max_hye_size']} "
                       "(the data is impossible under the model; the code announces a ValueError)")
            break
        if expect_zde:
            differ.append(f"fit(n_iter={n}, tolerance={tol}, check_convergence_every=0) returned; the model says `it % 0` raises")
            break
        tag = f"fit(n_iter={n}, tolerance={tol}, check_convergence_every={every})"
        uu, ww = np.asarray(m.u, dtype=float), np.asarray(m.w, dtype=float)
        # supplied parameters stay (same values, and the caller's arrays were not written)
        if u_sup is not None and (uu.shape != u_copy.shape or not np.array_equal(uu, u_copy) or not np.array_equal(u_sup, u_copy)):
            bad.append(f"{tag} changed the supplied u")
        if w_sup is not None and (ww.shape != w_copy.shape or not np.array_equal(ww, w_copy) or not np.array_equal(w_sup, w_copy)):
            bad.append(f"{tag} changed the supplied w")
        if case["max_hye_size"] is not None and m.max_hye_size != case["max_hye_size"]:
            bad.append(f"{tag} changed the supplied max_hye_size to {m.max_hye_size}")
        diag_sup = case["w"] is not None and all(F(case["w"][a][b]) == 0 for a in range(K) for b in range(K) if a != b)
        want_assort = case["assortative"] if (case.get("pass_assortative", True) or case["w"] is None) else diag_sup
        if m.K != K or bool(m.assortative) != bool(want_assort):
            bad.append(f"{tag}: K / assortative = {m.K} / {m.assortative}, constructed with {K} / {want_assort}")
        for name, now, orig, cp in (("u_prior", m.u_prior, up, up_copy), ("w_prior", m.w_prior, wp, wp_copy)):
            same = (now == orig) if cp is None else (isinstance(now, np.ndarray) and np.array_equal(now, cp) and np.array_equal(orig, cp))
            if not (isinstance(same, (bool, np.bool_)) and same):
                bad.append(f"{tag} changed {name}")
        if uu.shape != (N, K) or ww.shape != (K, K):
            bad.append(f"shapes after fit: u {uu.shape}, w {ww.shape}")
            break
        if not (np.all(np.isfinite(uu)) and np.all(np.isfinite(ww))):
            bad.append(f"{tag} produced a non-finite parameter")
            break
        scale = max(1.0, float(np.max(np.abs(ww))), float(np.max(np.abs(uu))))
        if np.min(uu) < -TOL * scale or np.min(ww) < -TOL * scale:
            bad.append(f"{tag} produced a negative parameter (min u {np.min(uu)}, min w {np.min(ww)})")
        if np.max(np.abs(ww - ww.T)) > TOL * scale:
            bad.append(f"{tag}: w is not symmetric: {ww.tolist()}")
        if case["assortative"] and np.any(ww - np.diag(np.diag(ww)) != 0):
            bad.append(f"{tag} with assortative=True: w is not diagonal: {ww.tolist()}")
        Dm = m.max_hye_size
        if Dm is None or Dm < Dtrue:
            bad.append(f"after fit max_hye_size = {Dm} but the data has a hyperedge of size {Dtrue}: the observed hyperedge is "
                       "impossible under the inferred model (exact Poisson likelihood of the data undefined)")
            break
        if case["max_hye_size"] is None and Dm != Dtrue:
            bad.append(f"inferred max_hye_size = {Dm}, the largest hyperedge has size {Dtrue}")
        # likelihood along n_iter (memberships supplied, affinity inferred): the data are the hyperedges that were inserted
        if case["u"] is not None and case["w"] is None:
            plain, pen = exact_loglik(uu, ww, edges, wts, N, Dm, rw)
            if plain is None:
                bad.append(f"{tag}: a data hyperedge has Poisson parameter <= 0 under the inferred w")
                break
            liks.append((n, plain, pen))
        # ---- both exits of the loop (C15_fit_returns): the returned parameters are the trajectory state of the stopping
        # iteration, the inferred one divided by C() resp. sqrt(C())
        if T is not None:
            it_star, reached, border = predict_stop(T, tol, every, n, N, K, 1e-9)
            if border:
                ctx.count("runs_with_borderline_convergence_test_skipped")
            else:
                Cdef = sum(2.0 / (d * (d - 1)) for d in range(2, Dm + 1))
                ut, wt = T[it_star + 1]
                if free_w:
                    wt = wt / Cdef
                elif free_u:
                    ut = ut / math.sqrt(Cdef)
                got_it, got_reached = getattr(m, "training_iter", None), getattr(m, "tolerance_reached", None)
                if not (np.allclose(uu, ut, rtol=1e-9, atol=1e-12) and np.allclose(ww, wt, rtol=1e-9, atol=1e-12)):
                    differ.append(f"{tag}: the loop is left at it={it_star} ({'tolerance reached' if reached else 'end of range'}); the state "
                                  f"after {it_star + 1} passes divided by C()={Cdef:.6g} is w={wt.tolist()} u[0]={ut[0].tolist()}, fit returned "
                                  f"w={ww.tolist()} u[0]={uu[0].tolist()} (training_iter={got_it}, tolerance_reached={got_reached})")
                elif got_it != it_star or bool(got_reached) != reached:
                    differ.append(f"{tag}: training_iter / tolerance_reached = {got_it} / {got_reached}, the stopping rule gives {it_star} / {reached}")
                if drv is not None and model_replay:
                    tl = "none" if tol is None else hgxv.enc_num(float(tol))
                    a = drv.batch([f"ctrl {tl} {every} {n}"])[0].split("|")
                    ctx.count("loop_control_replayed_by_model")
                    if len(a) != 3 or a[0] != str(it_star) or a[1] != str(int(reached)):
                        differ.append(f"{tag}: the model's loop leaves at it|reached = {a[:2]} on the recorded trajectory, the stopping rule gives {it_star}|{int(reached)}")
                    elif not (np.array_equal(T[int(a[2])][0], T[it_star + 1][0]) and np.array_equal(T[int(a[2])][1], T[it_star + 1][1])):
                        differ.append(f"{tag}: the model's loop ends in trajectory state {a[2]}, expected state {it_star + 1}")
                ctx.count("runs_left_by_break" if reached else "runs_left_at_end_of_range")
            # the whole fit by the model (short runs on small data: exact rationals grow quickly)
            _, _, border6 = predict_stop(T, tol, every, n, N, K, 1e-6)
            if drv is not None and model_replay and n <= case.get("model_fit_upto", 0) and not border6:
                Cd = sum(2.0 / (d * (d - 1)) for d in range(2, Dm + 1))
                compare(ctx, drv, {**case, "n_iter": n},
                        *fit_lines(case, T[0][0], T[0][1], n, ru, rw, math.sqrt(Cd),
                                   (Dm, uu.tolist(), ww.tolist(), getattr(m, "training_iter", None), bool(getattr(m, "tolerance_reached", None)))))
                ctx.count("whole_fits_replayed_by_model")
    # replay of recorded update steps by the model, from the implementation's current (u, w)
    if drv is not None and model_replay and ref_steps and not bad:
        # the first step and the last step of iteration 8 (later states of a run with u and w both inferred are too
        # ill-conditioned - entries 1e-26 next to 50 - for a 1e-9 comparison of binary64 with exact arithmetic)
        per = int(free_w) + int(free_u)
        last = ref_steps[min(len(ref_steps), 8 * per) - 1]
        for kind, ui, wi, out in ([ref_steps[0], last] if len(ref_steps) > 1 else [ref_steps[0]]):
            if not (np.all(np.isfinite(ui)) and np.all(np.isfinite(wi)) and np.all(np.isfinite(out))):
                continue
            lines = ["setu " + enc_mat(ui.tolist()), "setw " + enc_mat(wi.tolist()),
                     "data " + hgxv.enc_lists(edges) + " " + hgxv.enc_list([F(x) for x in wts]),
                     ("wupd " + enc_mat(rw)) if kind == "w" else ("uupd " + enc_mat(ru))]
            compare(ctx, drv, case, lines, [("ok", None)] * 3 + [("toll", out.tolist())])
            ctx.count("update_steps_replayed_by_model")
    # monotonicity
    d28 = None
    for (n0, p0, q0), (n1, p1, q1) in zip(liks, liks[1:]):
        if abs(p1 - p0) > TOL * max(1.0, abs(p0)):
            moved = True
        if q1 < q0 - TOL * max(1.0, abs(q0)):
            bad.append(f"penalised exact log-likelihood decreased from n_iter={n0} to {n1}: {q0!r} -> {q1!r} "
                       f"(w_prior={case['w_prior']}, tolerance={tol}, check_convergence_every={every})")
        if p1 < p0 - TOL * max(1.0, abs(p0)):
            if prior_is_zero(case["w_prior"]):
                bad.append(f"exact Poisson log-likelihood decreased from n_iter={n0} to {n1}: {p0!r} -> {p1!r} "
                           f"(w_prior=0, tolerance={tol}, check_convergence_every={every})")
            elif d28 is None:
                d28 = (n0, n1, p0, p1)
    if d28 is not None:
        ctx.count("D28_fit_runs_with_plain_decrease")
    ctx.count("fit_runs_prior_%s" % ("%g" % float(case["w_prior"]) if isinstance(case["w_prior"], (int, float, Fraction)) else "array"))
    ctx.count("fit_runs_tolerance_%s" % ("none" if tol is None else ("%g" % tol if tol in (0.0, 1.0, 100.0) else ("small" if tol < 1e-4 else "medium"))))
    ctx.case(repr(("fit", sorted(orig_case.items(), key=lambda kv: kv[0]).__repr__())), moved or case["u"] is None or case["w"] is not None,
             sample=orig_case)
    for what in bad:
        ctx.violation(orig_case, what)
    for what in differ:
        ctx.disagree(orig_case, what)
    if isinstance(orig_case.get("tolerance"), dict) and not orig_case.get("twin") and not (bad or differ):
        # the same data with the tolerance on the other side of the same convergence test: a test that is off by a
        # factor (wrong normalisation) changes the decision on one of the two sides
        spec = orig_case["tolerance"]
        twin = {**orig_case, "twin": True, "model_fit_upto": 0,
                "tolerance": {"k": spec["k"], "factor": {1.05: 0.95, 0.95: 1.05, 1.5: 0.7, 0.7: 1.5}.get(spec["factor"], 1.0 / spec["factor"])}}
        check_fit(ctx, drv, twin, nmax=nmax, model_replay=model_replay)
    return d28, liks


def fit_lines(case, u0, w0, n, ru, rw, sqrtC, val):
    N, K = case["N"], case["K"]
    edges = [tuple(e) for e in case["edges"]]
    weights = case["weights"] if case["weights"] is not None else [1] * len(edges)
    u_set = case["u"] if case["u"] is not None else (u0.tolist() if u0 is not None else [[0] * K] * N)
    w_set = case["w"] if case["w"] is not None else (w0.tolist() if w0 is not None else [[0] * K] * K)
    tol, every = stop_of(case)
    lines = ["setu " + enc_mat(u_set), "setw " + enc_mat(w_set),
             "data " + hgxv.enc_lists(edges) + " " + hgxv.enc_list([F(x) for x in weights]),
             "fit %d %d %d %s %s %s %d %s %d" % (case["u"] is not None, case["w"] is not None,
                                                -1 if case["max_hye_size"] is None else case["max_hye_size"],
                                                enc_mat(ru), enc_mat(rw), hgxv.enc_num(float(sqrtC)), n,
                                                "none" if tol is None else hgxv.enc_num(float(tol)), every)]
    return lines, [("ok", None)] * 3 + [("fit", val)]


def gen_tolerance(rng):
    r = rng.random()
    if r < 0.18:
        return "default"
    if r < 0.25:
        return None
    if r < 0.40:
        return rng.choice([0.5, 1.0, 100.0])
    if r < 0.58:
        return rng.choice([1e-1, 1e-2, 1e-3]) * rng.randint(1, 9)
    if r < 0.66:
        return rng.choice([1e-6, 1e-9]) * rng.randint(1, 9)
    if r < 0.70:
        return 0.0
    # resolved in check_fit from the reference trajectory: just above / below the distances at the k-th convergence test
    return {"k": rng.randint(0, 3), "factor": rng.choice([1.05, 1.05, 0.95, 1.5, 0.7])}


def gen_every(rng, tol):
    r = rng.random()
    if r < 0.22:
        return "default"
    if r < 0.50:
        return 1
    if r < 0.88:
        return rng.choice([2, 3, 5])
    if r < 0.97:
        return rng.choice([7, 10, 12])
    return 0


def make_n_list(rng, tol, every):
    ns = set(range(1, 9))
    if tol is not None and every >= 1:
        for k in (1, 2, 3):
            ns.update({k * every, k * every + 1, k * every + 2})
        ns.add(rng.choice([24, 40, 64]))
    return sorted(x for x in ns if 1 <= x <= 64)


def gen_fit(rng):
    N = rng.choice([3, 4, 4, 5, 5, 6, 7])
    K = rng.randint(1, 3)
    assort = rng.random() < 0.5
    edges, weights = gen_edges(rng, N, N, nmax=8)
    Dtrue = max(len(e) for e in edges)
    which = rng.choice(["u", "u", "u", "w", "none", "both"])
    u = w = None
    if which in ("u", "both"):
        u = [[Fraction(rng.randint(1, 16), 8) for _ in range(K)] for _ in range(N)]
        if K >= 2 and rng.random() < 0.15:
            u = single_holder(rng, u, N, K)
        if rng.random() < 0.14:      # the property does not depend on the scale of the memberships (exact in binary64: 2^s)
            sc = Fraction(2) ** rng.choice([-10, -20, -30, -10, -20, -30, -60, -100, -200, -300, 10, 30, 100, 200, 300])
            u = [[x * sc for x in row] for row in u]
    if which in ("w", "both"):
        w = gen_w(rng, K, assort)
        for a in range(K):   # strictly positive where allowed: the u-update divides by w @ u_sum
            for b in range(K):
                if (a == b or not assort) and w[a][b] == 0:
                    w[a][b] = w[b][a] = Fraction(1, 2)
        if K >= 2 and rng.random() < 0.15:   # a community without any affinity: its column of `_u_update` has denominator 0
            k = rng.randint(1, K - 1)
            for b in range(K):
                w[k][b] = w[b][k] = Fraction(0)
        if rng.random() < 0.1:       # tiny / huge affinities (exact in binary64: 2^s)
            sc = Fraction(2) ** rng.choice([-200, -100, -30, -27, -10, 10, 30, 100, 200])
            w = [[x * sc for x in row] for row in w]
    r = rng.random()
    mhs = None if r < 0.5 else (rng.randint(Dtrue, N) if r < 0.93 or Dtrue <= 2 else rng.randint(2, Dtrue - 1))
    small = len(edges) <= 4 and N <= 4 and which != "none"   # exact rationals explode when u and w both move
    w_prior = rng.choice([0.0, 1.0, 5.0])
    u_prior = rng.choice([0.0, 0.0, 1.0])
    if rng.random() < 0.15:     # array priors (positive entries: the initial draw uses 1 / prior)
        w_prior = [[Fraction(rng.randint(1, 8), 4) for _ in range(K)] for _ in range(K)]
        for a in range(K):
            for b in range(a):
                w_prior[a][b] = w_prior[b][a]
    if rng.random() < 0.15:
        u_prior = [[Fraction(rng.randint(1, 8), 4) for _ in range(K)] for _ in range(N)]
    tol = gen_tolerance(rng)
    every = gen_every(rng, tol)
    tol_eff = None if tol == "default" else (1.0 if isinstance(tol, dict) else tol)
    ev_eff = 10 if every == "default" else every
    upto = 0
    if rng.random() < 0.6:
        upto = (3 if (len(edges) <= 3 and which == "u") else 2) if small else 1
    return {"kind": "fit", "N": N, "K": K, "assortative": assort, "edges": edges, "weights": weights, "u": u, "w": w,
            "w_prior": w_prior, "u_prior": u_prior, "max_hye_size": mhs,
            "seed": rng.randint(0, 10 ** 6), "model_fit_upto": upto,
            "tolerance": tol, "every": every, "n_list": make_n_list(rng, tol_eff, ev_eff),
            "pass_K": rng.random() < 0.7, "pass_assortative": rng.random() < 0.7,
            "hist": gen_history(rng, N, edges)}


# -------------------------------------------------------------------------------------------------
# stream 4: sessions on ONE long-lived model object
#
# What the object promises is read off the unchanged code (and written down in the Lean `Obj` / `fitObj`):
#   * the state carried from call to call is u, w, max_hye_size, the priors and the training attributes - nothing else;
#   * a query reads the CURRENT u, w, max_hye_size and its own argument;
#   * fit treats every parameter that is set as fixed (supplied, or left by an earlier fit - also by one that raised after the
#     initial draws were stored), so only the first fit draws from the generator and infers anything;
#   * arrays handed to the constructor are stored by reference.
# Hence the reference for every step: a FRESH object holding the state before the step (same seed), on which the same step is made.

SNAP_ATTRS = ("K", "assortative", "max_hye_size", "trained", "training_iter", "tolerance_reached", "tolerance")


def farr(x):
    import numpy as np
    return None if x is None else np.array(x, dtype=float)


def snapshot(m):
    """(copies of) the attributes a HyMMSBM instance carries from one call to the next"""
    import numpy as np
    sn = {a: getattr(m, a, "<missing>") for a in SNAP_ATTRS}
    for a in ("assortative", "trained", "tolerance_reached"):
        if isinstance(sn[a], (bool, np.bool_)):
            sn[a] = bool(sn[a])
    for a in ("K", "max_hye_size", "training_iter"):
        if isinstance(sn[a], (int, np.integer)) and not isinstance(sn[a], bool):
            sn[a] = int(sn[a])
    sn["u"], sn["w"] = farr(getattr(m, "u", None)), farr(getattr(m, "w", None))
    for name in ("u_prior", "w_prior"):
        p = getattr(m, name, "<missing>")
        sn[name] = farr(p) if isinstance(p, np.ndarray) else p
    return sn


def fresh_object(sn, seed):
    """a new object that holds the parameters of the snapshot"""
    import numpy as np
    from hypergraphx.communities.hy_mmsbm.model import HyMMSBM

    def cp(p):
        return p.copy() if isinstance(p, np.ndarray) else p
    ref = HyMMSBM(K=sn["K"], assortative=sn["assortative"], max_hye_size=sn["max_hye_size"],
                  u_prior=cp(sn["u_prior"]), w_prior=cp(sn["w_prior"]), seed=seed)
    ref.u = None if sn["u"] is None else sn["u"].copy()
    ref.w = None if sn["w"] is None else sn["w"].copy()
    return ref


def plain(r):
    """an answer as nested python lists / dicts of floats"""
    import numpy as np
    if isinstance(r, dict):
        return {int(k): plain(v) for k, v in r.items()}
    if isinstance(r, (tuple, list)):
        return [plain(x) for x in r]
    if isinstance(r, np.ndarray):
        return np.asarray(r, dtype=float).tolist()
    if isinstance(r, (bool, np.bool_)):
        return bool(r)
    if isinstance(r, (np.generic, int, float)):
        return float(r)
    return r


def same_obj(x, y):
    """two answers of the same code on equal parameters: equal up to the last bits"""
    import numpy as np
    if isinstance(x, dict) or isinstance(y, dict):
        return isinstance(x, dict) and isinstance(y, dict) and sorted(x) == sorted(y) and all(same_obj(x[k], y[k]) for k in x)
    if x is None or y is None or isinstance(x, (str, bool)) or isinstance(y, (str, bool)):
        return type(x) is type(y) and x == y
    try:
        xa, ya = np.asarray(x, dtype=float), np.asarray(y, dtype=float)
    except (TypeError, ValueError):      # ragged / mixed: element by element
        return isinstance(x, list) and isinstance(y, list) and len(x) == len(y) and all(same_obj(a, b) for a, b in zip(x, y))
    if xa.shape != ya.shape:
        return False
    if xa.size == 0:
        return True
    with np.errstate(all="ignore"):
        fx, fy = np.isfinite(xa), np.isfinite(ya)
        scale = max(1.0, float(np.max(np.abs(np.where(fx, xa, 0.0)))), float(np.max(np.abs(np.where(fy, ya, 0.0)))))
        ok = (xa == ya) | (np.isnan(xa) & np.isnan(ya)) | (fx & fy & (np.abs(xa - ya) <= 1e-12 * scale + 1e-12 * np.abs(ya)))
    return bool(np.all(ok))


def same_ans(a, b):
    if a[0] != b[0]:
        return False
    if a[0] == "exc":
        return a[1].split(":")[0] == b[1].split(":")[0]
    return same_obj(a[1], b[1])


def snap_diff(a, b, names=None):
    """names of the state components in which two snapshots differ"""
    out = []
    for k in (names or list(SNAP_ATTRS) + ["u", "w", "u_prior", "w_prior"]):
        x, y = a.get(k), b.get(k)
        if not same_obj(plain(x), plain(y)):
            out.append(k)
    return out


def pool_entry(N, ent):
    """the live Hypergraph of a pool entry, its incidence matrix (sparse / dense), hyperedges as index lists, weights"""
    st, r = guarded(lambda: build_hypergraph(ent["N"], [tuple(e) for e in ent["edges"]], ent["weights"], ent.get("hist")))
    if st != "ok":
        return None, f"Hypergraph raised {r}"
    live = {"h": r, "N": ent["N"], "edges": [tuple(e) for e in ent["edges"]],
            "weights": None if ent["weights"] is None else list(ent["weights"]),
            "labels": ent["hist"]["labels"] if ent.get("hist") else list(range(ent["N"]))}
    return live, refresh_entry(live)


def refresh_entry(live):
    """recompute the incidence matrix of a pool entry after its hypergraph was built / edited; returns a complaint or None"""
    st, r = guarded(lambda: incidence_and_weights(live["h"], live["N"]))
    if st != "ok":
        live["B"] = None
        return f"binary_incidence_matrix raised {r}"
    live["B"], live["Bd"], live["cols"], live["hw"] = r
    live["Bd"] = live["Bd"].astype(float)
    if live["Bd"].shape != (live["N"], len(live["edges"])):
        return f"binary_incidence_matrix: shape {live['Bd'].shape} for {live['N']} nodes and {len(live['edges'])} hyperedges"
    return data_mismatch(live["cols"], live["hw"], live["edges"], live["weights"])


def entry_untouched(live):
    """the hypergraph of a pool entry still holds the hyperedges / weights it was built with (cheap; no incidence matrix)"""
    st, r = guarded(lambda: (sorted(tuple(sorted(e)) for e in live["h"].get_edges()), sorted(float(x) for x in live["h"].get_weights()),
                             live["h"].num_nodes()))
    if st != "ok":
        return f"get_edges / get_weights raised {r}"
    L = live["labels"]
    want = (sorted(tuple(sorted(L[i] for i in e)) for e in live["edges"]),
            sorted(float(1 if live["weights"] is None else x) for x in (live["weights"] or [1] * len(live["edges"]))), live["N"])
    return None if r == want else f"the hypergraph now holds {r}, it was built with {want}"


def session_dsets(case, D):
    """(tag, maker of a fresh `d` argument, list of sizes) for the closed forms"""
    import numpy as np
    out = []
    if D is not None:
        out.append(("all", lambda: "all", list(range(2, D + 1))))
    d1 = case["d_single"]
    out.append(("single", lambda: d1, [d1]))
    sub = list(case["d_subset"])
    out.append(("subset", lambda: np.array(sub), sub))
    return out


def query_block(obj, live, case, light=False):
    """every query of the property's anchors with one pool entry as argument (`light`: without log_likelihood, which returns
    a float and rebuilds the incidence matrix).
    Returns {name: ('ok', plain value) | ('exc', text)} and the raw returned objects (to be overwritten afterwards)"""
    import numpy as np
    ans, raw = {}, {}

    def g(name, f):
        st, r = guarded(f, seconds=10)
        ans[name] = (st, plain(r) if st == "ok" else r)
        if st == "ok":
            raw[name] = r
    D = getattr(obj, "max_hye_size", None)
    Bc = live["Bd"].copy()
    g("pp_sparse", lambda: obj.poisson_params(live["B"]))
    g("pp_dense", lambda: obj.poisson_params(Bc, return_edge_sum=True))
    # the same incidence matrix in other forms the signature admits (integer / Fortran-ordered dense array, CSC sparse; not COO:
    # with SciPy 1.18 `coo_array(B).T @ vector` of a one-column matrix is a 0-d value and the code's shape assertion fires)
    forms = {"int": live["Bd"].astype(np.int64), "fortran": np.asfortranarray(live["Bd"]), "csc": live["B"].tocsc()}
    if not light:
        for fname, Bf in forms.items():
            g("pp_" + fname, lambda: obj.poisson_params(Bf))
    ans["arg_untouched"] = ("ok", bool(np.array_equal(Bc, live["Bd"]) and (live["B"] != forms["csc"]).nnz == 0
                                       and np.array_equal(forms["int"], live["Bd"]) and np.array_equal(forms["fortran"], live["Bd"])))
    if not light:
        g("loglik", lambda: obj.log_likelihood(live["h"]))
    for tag, mk, ds in session_dsets(case, D if isinstance(D, (int, np.integer)) else None):
        darg = mk()      # one `d` object for the calls of this size set: it must come back as it went in
        g("deg_node:" + tag, lambda: obj.expected_degree(per_node=True, d=darg))
        g("deg_avg:" + tag, lambda: obj.expected_degree(per_node=False, d=darg))
        g("consts:" + tag, lambda: [obj.C(darg), obj.C(darg, return_summands=True), obj._C_prime(darg), obj._C_second(darg)])
        if isinstance(darg, np.ndarray) and not np.array_equal(darg, np.array(ds)):
            ans["arg_untouched"] = ("ok", False)
    g("deg_avg:default", lambda: obj.expected_degree())
    for dy in (True, False):
        g("dimseq:%d" % dy, lambda: obj.dimension_sequence(include_dyadic=dy, expected=True))
        g("degseq:%d" % dy, lambda: obj.degree_sequence(include_dyadic=dy, expected=True))
    return ans, raw


def scribble(x):
    """overwrite a returned object in place"""
    import numpy as np
    if isinstance(x, np.ndarray):
        if x.flags.writeable and x.size:
            x[...] = -7.0
    elif isinstance(x, dict):
        for k in list(x):
            x[k] = -7.0
        x[-1] = -7.0
    elif isinstance(x, (list, tuple)):
        for t in x:
            scribble(t)


def lam_float(G, e):
    e = sorted(e)
    return math.fsum(float(G[i, j]) for x, i in enumerate(e) for j in e[x + 1:])


def block_oracle(sn, live, ans, case, where):
    """the property's clauses for one query block, from the definitions, with the CURRENT arrays of the object"""
    import numpy as np
    bad = []
    u, w, D = sn["u"], sn["w"], sn["max_hye_size"]
    if u is None or w is None or live["N"] != u.shape[0] or not (np.all(np.isfinite(u)) and np.all(np.isfinite(w))):
        return bad
    N, K = u.shape
    G = u @ w @ u.T
    cols = live["cols"]
    want = [lam_float(G, e) for e in cols]
    for name in ("pp_sparse", "pp_dense", "pp_int", "pp_fortran", "pp_csc"):
        if name not in ans:
            continue
        st, r = ans[name]
        if st != "ok":
            bad.append(f"{where}: poisson_params ({name[3:]} incidence matrix, {len(cols)} hyperedges on {live['N']} nodes) raised {r}")
            continue
        pp = r[0] if name == "pp_dense" else r
        if len(pp) != len(want) or not all(close(x, y) for x, y in zip(pp, want)):
            bad.append(f"{where}: poisson_params ({name[3:]}) = {pp} but the sums over the node pairs of u_i^T w u_j are {want} "
                       f"(hyperedges {cols}, current u = {u.tolist()}, w = {w.tolist()})")
        if name == "pp_dense":
            want_es = [[math.fsum(float(u[i][a]) for i in e) for a in range(K)] for e in cols]
            if not mat_close(r[1], want_es):
                bad.append(f"{where}: the hyperedge sums returned by poisson_params = {r[1]} but sum_(i in e) u_i = {want_es}")
    if not isinstance(D, int) or D > N or D < 2:
        return bad
    lam_all = {d: {e: lam_float(G, e) for e in all_edges(N, d)} for d in range(2, N + 1)}
    for tag, _, ds in session_dsets(case, D):
        want_node = [math.fsum(l / float(kappa(N, d)) for d in ds for e, l in lam_all[d].items() if i in e) for i in range(N)]
        want_avg = math.fsum(want_node) / N
        st, r = ans["deg_node:" + tag]
        if st != "ok":
            bad.append(f"{where}: expected_degree(per_node=True, d={ds}) raised {r}")
        elif len(r) != N or not all(close(x, y) for x, y in zip(r, want_node)):
            bad.append(f"{where}: expected_degree(per_node=True, d={ds}) = {r} but the sums over all hyperedges of lambda_e/kappa_e "
                       f"are {want_node} (current u = {u.tolist()}, w = {w.tolist()})")
        st, r = ans["deg_avg:" + tag]
        if st != "ok":
            bad.append(f"{where}: expected_degree(d={ds}) raised {r}")
        elif not close(r, want_avg):
            bad.append(f"{where}: expected_degree(d={ds}) = {r} but the average over the nodes is {want_avg}")
    for dy in (True, False):
        ds = list(range(2 if dy else 3, D + 1))
        st, r = ans["dimseq:%d" % dy]
        want_dim = {d: math.fsum(lam_all[d].values()) / float(kappa(N, d)) for d in ds}
        if st != "ok":
            bad.append(f"{where}: dimension_sequence(expected=True, include_dyadic={dy}) raised {r}")
        elif any(k not in ds for k in r) or not all(close(r.get(d, 0.0), want_dim[d]) for d in ds):
            bad.append(f"{where}: dimension_sequence(expected=True, include_dyadic={dy}) = {r} but the expected counts "
                       f"sum_e lambda_e/kappa_d are {want_dim}")
        st, r = ans["degseq:%d" % dy]
        want_deg = [math.fsum(l / float(kappa(N, d)) for d in ds for e, l in lam_all[d].items() if i in e) for i in range(N)]
        if st != "ok":
            bad.append(f"{where}: degree_sequence(expected=True, include_dyadic={dy}) raised {r}")
        elif len(r) != N or not all(close(x, y) for x, y in zip(r, want_deg)):
            bad.append(f"{where}: degree_sequence(expected=True, include_dyadic={dy}) = {r} differs from the summed lambda_e/kappa_e {want_deg}")
    return bad


def loglik_by_its_docstring(sn, live, pp):
    """-sum_(i<j) u_i^T w u_j + sum_e A_e log lambda_e (what HyMMSBM.log_likelihood documents), with the Poisson parameters
    `pp` that the object itself reported for this input (they are compared with the pair sums separately; taking the logarithm
    of independently computed ones would amplify the rounding of a nearly vanishing parameter), or None"""
    import numpy as np
    u, w = sn["u"], sn["w"]
    if u is None or w is None or live["N"] != u.shape[0] or len(pp) != len(live["hw"]):
        return None
    if any(not (l > 1e-300) for l in pp):
        return None
    G = u @ w @ u.T
    pairs = math.fsum(float(G[i, j]) for i in range(len(G)) for j in range(i + 1, len(G)))
    return -pairs + math.fsum(float(a) * math.log(l) for a, l in zip(live["hw"], pp))


def model_block_lines(sn, live, ans, case):
    """the query block for the Lean object model: Poisson parameters / hyperedge sums through `poisObj` / `edgeSumObj` on the
    object's state, the closed forms through `osync` + the stateless commands"""
    lines, expect = [], []
    if live["N"] != (sn["u"].shape[0] if sn["u"] is not None else live["N"]):
        return lines, expect
    lines.append("data " + hgxv.enc_lists(live["cols"]) + " " + hgxv.enc_list([F(x) for x in live["hw"]]))
    expect.append(("ok", None))
    uninit = sn["u"] is None or sn["w"] is None
    st, r = ans["pp_dense"]
    if uninit:
        lines.append("opois")
        expect.append(("raw", "uninit" if st == "exc" else "the implementation returned"))
        return lines, expect
    if st == "ok":
        lines += ["opois", "oesum"]
        expect += [("tol", [F(x) for x in r[0]]), ("toll", r[1])]
    lines.append("osync")
    expect.append(("ok", None))
    D, N = sn["max_hye_size"], sn["u"].shape[0]
    if isinstance(D, int) and 2 <= D <= N:
        for tag, _, ds in session_dsets(case, D):
            st, r = ans["deg_node:" + tag]
            if st == "ok":
                lines.append("expdeg " + hgxv.enc_list(ds))
                expect.append(("tol", [F(x) for x in r]))
            st, r = ans["deg_avg:" + tag]
            if st == "ok":
                lines.append("expavg " + hgxv.enc_list(ds))
                expect.append(("tol", [F(r)]))
        for dy in (True, False):
            st, r = ans["dimseq:%d" % dy]
            if st == "ok":
                lines.append("dimseq " + hgxv.enc_list(list(range(2 if dy else 3, D + 1))))
                expect.append(("dimseq", r))
    return lines, expect


def enc_opt(x):
    return "none" if x is None else enc_mat(x.tolist())


def show_step(step):
    return "%s%s" % (step[0], tuple(hgxv.jsonable(x) for x in step[1:]))


def check_session(ctx, drv, case):
    import numpy as np
    from hypergraphx.communities.hy_mmsbm.model import HyMMSBM
    N, K, seed = case["N"], case["K"], case["seed"]
    bad, differ = [], []
    key = repr(("session", sorted(case.items(), key=lambda kv: kv[0]).__repr__()))

    def done(nontrivial=False):
        ctx.case(key, nontrivial, sample=case)
        for what in bad[:4]:
            ctx.violation(case, what)
        for what in differ[:4]:
            ctx.disagree(case, what)

    # ---- the pool of hypergraphs
    pool = []
    for j, ent in enumerate(case["pool"]):
        live, complaint = pool_entry(N, ent)
        if live is None or complaint:
            bad.append(f"pool hypergraph {j}: {complaint}")
            return done()
        pool.append(live)
    # ---- the object; the harness keeps the arrays it hands in
    mk = lambda M: None if M is None else np.array([[float(F(x)) for x in r] for r in M])
    hand = {"u": mk(case["u"]), "w": mk(case["w"]), "u_prior": conv_prior(case["u_prior"]), "w_prior": conv_prior(case["w_prior"])}
    kw = {}
    if case.get("pass_K", True) or (hand["u"] is None and hand["w"] is None):
        kw["K"] = K
    if case.get("pass_assortative", True) or hand["w"] is None:
        kw["assortative"] = case["assortative"]
    st, m = guarded(lambda: HyMMSBM(u=hand["u"], w=hand["w"], max_hye_size=case["max_hye_size"], u_prior=hand["u_prior"],
                                    w_prior=hand["w_prior"], seed=seed, **kw))
    if st != "ok":
        bad.append(f"HyMMSBM(..) raised {m}")
        return done()
    sn = snapshot(m)
    want_assort = bool(case["assortative"])
    if "assortative" not in kw:      # inferred from the supplied w: diagonal or not
        want_assort = all(F(case["w"][a][b]) == 0 for a in range(K) for b in range(K) if a != b)
    if sn["K"] != K or sn["assortative"] != want_assort:
        bad.append(f"constructed with K / assortative = {K} / {want_assort}, the object says {sn['K']} / {sn['assortative']}")
        return done()
    # what the supplied arrays must contain (the harness's own writes are applied to these copies as well)
    supplied = {k: (None if hand[k] is None else hand[k].copy()) for k in ("u", "w")}
    use_model = drv is not None
    if use_model:
        compare(ctx, drv, case, ["onew %s %s %d" % (enc_opt(sn["u"]), enc_opt(sn["w"]), -1 if sn["max_hye_size"] is None else sn["max_hye_size"])],
                [("ok", None)])
    inferred_something = False
    foreign_query_after_fit = False
    last_fit_entry = None
    draws_used = False
    for idx, step in enumerate(case["steps"]):
        if bad or differ:
            break
        op = step[0]
        where = f"step {idx} {show_step(step)}"
        pre = snapshot(m)
        if "<missing>" in [pre[a] for a in SNAP_ATTRS]:
            bad.append(f"{where}: the object lost an attribute: { {a: pre[a] for a in SNAP_ATTRS} }")
            break
        # ================================================================================ query block
        if op == "q":
            live = pool[step[1]]
            ans, raw = query_block(m, live, case)
            post = snapshot(m)
            st, ref = guarded(lambda: fresh_object(pre, seed))
            if st != "ok":
                differ.append(f"{where}: a fresh object with the current parameters could not be made: {ref}")
                break
            ref_ans, _ = query_block(ref, live, case)
            # (1) the definitions, with the current arrays
            bad += block_oracle(pre, live, ans, case, where)
            # (2) a fresh object holding the same parameters answers the same
            for name in ans:
                if not same_ans(ans[name], ref_ans[name]):
                    differ.append(f"{where}: {name} on the long-lived object = {str(ans[name])[:300]}, on a fresh object with the same "
                                  f"u, w, max_hye_size = {str(ref_ans[name])[:300]} (history: {[show_step(s) for s in case['steps'][:idx]]})")
                    break
            if ans["arg_untouched"] != ("ok", True):
                bad.append(f"{where}: a query wrote into the incidence matrix / the array of sizes it was given")
            want_ll = loglik_by_its_docstring(pre, live, ans["pp_sparse"][1]) if ans["pp_sparse"][0] == "ok" else None
            if want_ll is not None and ans["loglik"][0] == "ok" and not close(ans["loglik"][1], want_ll):
                differ.append(f"{where}: log_likelihood = {ans['loglik'][1]!r}, but -sum_(i<j) u_i^T w u_j + sum_e A_e log(lambda_e) with the "
                              f"Poisson parameters the object reports for the same hypergraph = {want_ll!r}")
            changed = snap_diff(pre, post)
            if changed:
                differ.append(f"{where}: the queries changed the object's {changed}")
            complaint = entry_untouched(live)
            if complaint:
                bad.append(f"{where}: after the queries, pool hypergraph {step[1]}: {complaint}")
            # (3) the Lean object model
            if use_model and not (bad or differ):
                compare(ctx, drv, {**case, "at": where}, *model_block_lines(pre, live, ans, case))
                ctx.count("session_query_blocks_replayed_by_model")
            # (4) overwrite what was returned, ask again
            for r in raw.values():
                scribble(r)
            again, raw2 = query_block(m, live, case, light=True)
            for name in again:
                if not same_ans(ans[name], again[name]):
                    bad.append(f"{where}: {name} = {str(again[name])[:300]} after the caller overwrote the arrays returned by the previous "
                               f"queries; it was {str(ans[name])[:300]} (the parameters did not change)")
                    break
            for r in raw2.values():
                scribble(r)
            ctx.count("session_query_blocks")
            if live["N"] != N:
                ctx.count("session_query_blocks_other_number_of_nodes")
            if last_fit_entry is not None and step[1] != last_fit_entry:
                ctx.count("session_query_blocks_on_another_input_than_the_last_fit")
                if inferred_something and live["N"] == N:
                    foreign_query_after_fit = True
            continue
        # ================================================================================ fit
        if op == "fit":
            _, j, n, tol, every = step
            live = pool[j]
            both_set = pre["u"] is not None and pre["w"] is not None
            if live["N"] != N and not both_set:
                ctx.count("session_steps_skipped")
                continue
            tol_eff = None if tol == "default" else tol
            ev_eff = 10 if every == "default" else every
            fkw = {}
            if tol != "default":
                fkw["tolerance"] = tol
            if every != "default":
                fkw["check_convergence_every"] = every
            Dtrue = max(len(e) for e in live["edges"])
            expect_rej = pre["max_hye_size"] is not None and pre["max_hye_size"] < Dtrue
            expect_zde = (not expect_rej) and tol_eff is not None and ev_eff == 0
            tag = f"{where} [fit(pool[{j}], n_iter={n}, tolerance={tol}, check_convergence_every={every})]"
            st, r = guarded(lambda: m.fit(live["h"], n_iter=n, **fkw), seconds=30)
            post = snapshot(m)
            # ---- reference: the same call on a fresh object holding the state before the call (same seed: the first fit draws)
            st2, ref = guarded(lambda: fresh_object(pre, seed))
            if st2 != "ok":
                differ.append(f"{where}: a fresh object with the current parameters could not be made: {ref}")
                break
            st2, r2 = guarded(lambda: ref.fit(live["h"], n_iter=n, **fkw), seconds=30)
            ref_post = snapshot(ref)
            # ---- the property's clauses
            if st != "ok":
                if expect_rej and r.startswith("ValueError"):
                    ctx.count("session_fits_rejected_max_hye_size")
                elif expect_zde and r.startswith("ZeroDivisionError"):
                    ctx.count("session_fits_rejected_check_every_0")
                else:
                    bad.append(f"{tag} raised {r}")
            elif expect_rej:
                bad.append(f"{tag} accepted a hypergraph with a hyperedge of size {Dtrue} > max_hye_size={pre['max_hye_size']} "
                           "(the data is impossible under the model; the code announces a ValueError)")
            elif expect_zde:
                differ.append(f"{tag} returned; the model says `it % 0` raises")
            for name in ("u", "w"):
                if supplied[name] is not None:
                    now = post[name]
                    if now is None or now.shape != supplied[name].shape or not np.array_equal(now, supplied[name]) or \
                            not np.array_equal(hand[name], supplied[name]):
                        bad.append(f"{tag} changed the supplied {name}: it was {supplied[name].tolist()}, the object holds "
                                   f"{None if now is None else now.tolist()}, the caller's array {hand[name].tolist()}")
                elif pre[name] is not None and (post[name] is None or not np.array_equal(post[name], pre[name])):
                    differ.append(f"{tag} changed {name}, which an earlier call of fit had left set (the model: a parameter that is "
                                  f"set is fixed): {pre[name].tolist()} -> {None if post[name] is None else post[name].tolist()}")
            if case["max_hye_size"] is not None and post["max_hye_size"] != case["max_hye_size"]:
                bad.append(f"{tag} changed the supplied max_hye_size {case['max_hye_size']} to {post['max_hye_size']}")
            for name in ("u_prior", "w_prior", "K", "assortative"):
                if not same_obj(plain(pre[name]), plain(post[name])) or type(pre[name]) is not type(post[name]):
                    bad.append(f"{tag} changed {name}")
            if st == "ok" and not (expect_rej or expect_zde):
                uu, ww = post["u"], post["w"]
                if uu is None or ww is None or uu.shape != (live["N"] if pre["u"] is None else pre["u"].shape[0], K) or ww.shape != (K, K):
                    bad.append(f"{tag}: shapes after fit: u {None if uu is None else uu.shape}, w {None if ww is None else ww.shape}")
                elif not (np.all(np.isfinite(uu)) and np.all(np.isfinite(ww))):
                    bad.append(f"{tag} produced a non-finite parameter")
                else:
                    scale = max(1.0, float(np.max(np.abs(ww))), float(np.max(np.abs(uu))))
                    if np.min(uu) < -TOL * scale or np.min(ww) < -TOL * scale:
                        bad.append(f"{tag} produced a negative parameter (min u {np.min(uu)}, min w {np.min(ww)})")
                    if np.max(np.abs(ww - ww.T)) > TOL * scale:
                        bad.append(f"{tag}: w is not symmetric: {ww.tolist()}")
                    if want_assort and np.any(ww - np.diag(np.diag(ww)) != 0):
                        bad.append(f"{tag} with assortative=True: w is not diagonal: {ww.tolist()}")
                Dm = post["max_hye_size"]
                if not isinstance(Dm, int) or Dm < Dtrue:
                    bad.append(f"{tag}: max_hye_size = {Dm} afterwards but the data has a hyperedge of size {Dtrue}")
                elif pre["max_hye_size"] is None and Dm != Dtrue:
                    bad.append(f"{tag}: inferred max_hye_size = {Dm}, the largest hyperedge has size {Dtrue}")
                elif pre["max_hye_size"] is not None and Dm != pre["max_hye_size"]:
                    differ.append(f"{tag} changed max_hye_size {pre['max_hye_size']} -> {Dm}, which was set before the call")
            # ---- the fresh object
            if (st, r.split(":")[0] if st != "ok" else None) != (st2, r2.split(":")[0] if st2 != "ok" else None):
                differ.append(f"{tag}: {'returned' if st == 'ok' else 'raised ' + r} on the long-lived object, "
                              f"{'returned' if st2 == 'ok' else 'raised ' + r2} on a fresh object with the same u, w, max_hye_size, seed")
            else:
                names = list(SNAP_ATTRS) + ["u", "w", "u_prior", "w_prior"]
                if st != "ok":      # `trained` / `training_iter` of an earlier call survive a call that raises
                    names = [a for a in names if a not in ("trained", "training_iter")]
                changed = snap_diff(post, ref_post, names)
                if changed:
                    differ.append(f"{tag}: afterwards {changed} differ between the long-lived object "
                                  f"{ {k: plain(post[k]) for k in changed} } and a fresh object with the same u, w, max_hye_size, seed "
                                  f"{ {k: plain(ref_post[k]) for k in changed} } (history: {[show_step(s) for s in case['steps'][:idx]]})")
            complaint = entry_untouched(live)
            if complaint:
                bad.append(f"{tag}: afterwards pool hypergraph {j}: {complaint}")
            if not both_set and st == "ok":
                inferred_something = True
            last_fit_entry = j
            ctx.count("session_fits")
            if both_set:
                ctx.count("session_fits_with_nothing_left_to_infer")
            # ---- the Lean object model
            if use_model and not (bad or differ):
                u0 = w0 = None
                feasible = True
                if not both_set:
                    def draws():
                        pr = fresh_object(pre, seed)
                        if pr.w is None:
                            pr._init_w()
                        if pr.u is None:
                            pr._init_u(live["N"])
                        return farr(pr.u), farr(pr.w)
                    std, dr = guarded(draws)
                    small = len(live["edges"]) <= 4 and N <= 4 and not (pre["u"] is None and pre["w"] is None)
                    upto = ((3 if (len(live["edges"]) <= 3 and pre["u"] is not None) else 2) if small else 1)
                    if std != "ok" or not (np.all(np.isfinite(dr[0])) and np.all(np.isfinite(dr[1]))):
                        feasible = False
                    elif st == "ok" and not (tol_eff in (None, 0.0) and n <= upto):
                        feasible = False       # exact rationals explode / float-vs-exact decisions of the stopping rule
                    else:
                        u0, w0 = dr
                if feasible:
                    Dpost = post["max_hye_size"] if isinstance(post["max_hye_size"], int) else Dtrue
                    sqrtC = math.sqrt(sum(2.0 / (d * (d - 1)) for d in range(2, Dpost + 1)))
                    ru = prior_matrix(pre["u_prior"] if isinstance(pre["u_prior"], float) else pre["u_prior"].tolist(),
                                      live["N"] if pre["u"] is None else pre["u"].shape[0], K)
                    rw = prior_matrix(pre["w_prior"] if isinstance(pre["w_prior"], float) else pre["w_prior"].tolist(), K, K)
                    lines = ["data " + hgxv.enc_lists(live["cols"]) + " " + hgxv.enc_list([F(x) for x in live["hw"]]),
                             "ofit %s %s %s %s %s %d %s %d" % ("-" if pre["u"] is not None else enc_mat(u0.tolist()),
                                                              "-" if pre["w"] is not None else enc_mat(w0.tolist()),
                                                              enc_mat(ru), enc_mat(rw), hgxv.enc_num(float(sqrtC)), n,
                                                              "none" if tol_eff is None else hgxv.enc_num(float(tol_eff)), ev_eff)]
                    compare(ctx, drv, {**case, "at": where}, lines, [("ok", None), ("ofit", (st == "ok", post))])
                    ctx.count("session_fits_replayed_by_model")
                else:
                    compare(ctx, drv, {**case, "at": where},
                            ["onew %s %s %d" % (enc_opt(post["u"]), enc_opt(post["w"]), -1 if post["max_hye_size"] is None else post["max_hye_size"])],
                            [("ok", None)])
                    ctx.count("session_fits_adopted_by_model_not_replayed")
            continue
        # ================================================================================ writes by the caller
        applied = False
        if op == "write":            # in place, into the array the caller handed in (or into the attribute when the object made it)
            _, name, i, a, val = step
            arr = getattr(m, name, None)
            tgt = hand[name] if hand.get(name) is not None else arr
            if isinstance(tgt, np.ndarray) and tgt.ndim == 2 and i < tgt.shape[0] and a < tgt.shape[1]:
                v = float(F(val))
                cells = [(i, a)] + ([(a, i)] if name in ("w", "w_prior") else [])
                for c in cells:
                    tgt[c] = v
                    if name in supplied and supplied[name] is not None:
                        supplied[name][c] = v
                applied = True
        elif op == "rebind":         # obj.u = new array / obj.w = new array
            _, name, M = step
            new = mk(M)
            cur = getattr(m, name, None)
            if cur is not None and np.shape(cur) == new.shape:
                setattr(m, name, new)
                hand[name] = new
                supplied[name] = new.copy()
                applied = True
        elif op == "edit":           # replace one hyperedge of a pool hypergraph in place (same number of hyperedges)
            _, j, k, new_edge, new_weight = step
            live = pool[j]
            new_edge = tuple(new_edge)
            if k < len(live["edges"]) and new_edge not in live["edges"]:
                L = live["labels"]
                old = live["edges"][k]

                def edit():
                    live["h"].remove_edge(tuple(L[i] for i in old))
                    if live["weights"] is None:
                        live["h"].add_edge(tuple(L[i] for i in new_edge))
                    else:
                        live["h"].add_edge(tuple(L[i] for i in new_edge), weight=new_weight)
                st, r = guarded(edit)
                if st != "ok":
                    bad.append(f"{where}: editing pool hypergraph {j} raised {r}")
                    break
                live["edges"][k] = new_edge
                if live["weights"] is not None:
                    live["weights"][k] = new_weight
                complaint = refresh_entry(live)
                if complaint:
                    bad.append(f"{where}: pool hypergraph {j}: {complaint}")
                applied = True
        else:
            raise ValueError("unknown session step")
        if not applied:
            ctx.count("session_steps_skipped")
            continue
        ctx.count("session_%s_steps" % op)
        if use_model and op in ("write", "rebind") and step[1] in ("u", "w"):
            now = snapshot(m)
            compare(ctx, drv, {**case, "at": where}, ["oset %s %s" % (enc_opt(now["u"]), enc_opt(now["w"]))], [("ok", None)])
    # ---- at the end: the model's object against the implementation's
    if use_model and not (bad or differ):
        fin = snapshot(m)
        compare(ctx, drv, {**case, "at": "end of the session"}, ["ostate"], [("ostate", fin)])
    ctx.count("sessions")
    done(inferred_something and foreign_query_after_fit)


def gen_pool_edges(rng, N, E, D, forbid=()):
    """exactly E distinct hyperedges of size 2..D on N nodes (E is small enough), not the edge set `forbid`"""
    for _ in range(50):
        seen, edges = set(), []
        while len(edges) < E:
            d = max(2, min(rng.choice([2, 2, 3, 3, 4, 5, 6]), D, N))
            e = tuple(sorted(rng.sample(range(N), d)))
            if e not in seen:
                seen.add(e)
                edges.append(e)
        if set(edges) != set(forbid):
            return edges
    return edges


def gen_weights(rng, E):
    mode = rng.choice(["unweighted", "int", "quarter"])
    if mode == "unweighted":
        return None
    return [rng.randint(1, 5) if mode == "int" else rng.randint(1, 12) / 4 for _ in range(E)]


def gen_session(rng):
    N = rng.choice([3, 4, 4, 5, 5, 6])
    K = rng.randint(1, 3)
    assort = rng.random() < 0.5
    small = rng.random() < 0.45           # sessions whose first fit the exact model can replay
    if small:
        N = rng.choice([3, 4, 4])
    which = rng.choice(["u", "u", "u", "w", "none", "both"])
    u = w = None
    if which in ("u", "both"):
        u = [[Fraction(rng.randint(1, 16), 8) for _ in range(K)] for _ in range(N)]
        if K >= 2 and rng.random() < 0.1:
            u = single_holder(rng, u, N, K)
    if which in ("w", "both"):
        w = gen_w(rng, K, assort)
        for a in range(K):
            for b in range(K):
                if (a == b or not assort) and w[a][b] == 0:
                    w[a][b] = w[b][a] = Fraction(1, 2)
    w_prior = rng.choice([0.0, 1.0, 5.0])
    u_prior = rng.choice([0.0, 0.0, 1.0])
    if rng.random() < 0.2:
        w_prior = [[Fraction(rng.randint(1, 8), 4) for _ in range(K)] for _ in range(K)]
        for a in range(K):
            for b in range(a):
                w_prior[a][b] = w_prior[b][a]
    if rng.random() < 0.2:
        u_prior = [[Fraction(rng.randint(1, 8), 4) for _ in range(K)] for _ in range(N)]
    # ---- the pool
    n_possible = sum(math.comb(N, d) for d in range(2, N + 1))
    E0 = rng.randint(2, min(3 if small else 6, n_possible - 1))
    E2 = rng.choice([e for e in range(1, min(7, n_possible)) if e != E0])
    Dcap = rng.randint(2, N)
    ed0 = gen_pool_edges(rng, N, E0, Dcap)
    ed1 = gen_pool_edges(rng, N, E0, N, forbid=ed0)
    ed2 = gen_pool_edges(rng, N, E2, N)
    pool = [{"N": N, "edges": ed0, "weights": gen_weights(rng, E0)},
            {"N": N, "edges": ed1, "weights": gen_weights(rng, E0)},
            {"N": N, "edges": ed2, "weights": gen_weights(rng, E2)}]
    if rng.random() < 0.5:      # the content of H0 in another object, other weights, another history
        pool.append({"N": N, "edges": list(ed0), "weights": gen_weights(rng, E0)})
    other_N = None
    if rng.random() < 0.6:      # the same number of hyperedges on another number of nodes
        N2 = N + 1 if (N == 3 or rng.random() < 0.5) else N - 1
        other_N = len(pool)
        pool.append({"N": N2, "edges": gen_pool_edges(rng, N2, min(E0, sum(math.comb(N2, d) for d in range(2, N2 + 1)) - 1), N2),
                     "weights": gen_weights(rng, E0)})
        pool[-1]["weights"] = None if pool[-1]["weights"] is None else pool[-1]["weights"][:len(pool[-1]["edges"])]
    for ent in pool:
        ent["hist"] = gen_history(rng, ent["N"], ent["edges"])
    same_N = [j for j in range(len(pool)) if pool[j]["N"] == N]
    sizes = [max(len(e) for e in pool[j]["edges"]) for j in same_N]
    r = rng.random()
    if r < 0.45:
        mhs = None
    elif r < 0.8 or min(sizes) == max(sizes):
        mhs = rng.randint(max(sizes), N)
    else:
        mhs = rng.randint(min(sizes), max(sizes) - 1)      # covers some pool entries only
    # ---- the steps
    cur_edges = [list(ent["edges"]) for ent in pool]
    steps = []
    state = {"u": u is not None, "w": w is not None, "last_q": None}

    def q(j=None):
        steps.append(["q", rng.randrange(len(pool)) if j is None else j])
        state["last_q"] = steps[-1][1]

    def fit_step(first):
        if first:
            j = rng.choice([0, 0, 1, 2] if mhs is None else same_N)
            n = rng.choice([1, 1, 2, 2, 3, 3] if small else [1, 2, 3, 4, 5, 8, 12])
            tol = rng.choice(["default", "default", None, 0.0] if (small and rng.random() < 0.8) else ["default", None, 0.0, 0.5, 100.0, 1e-3, 1e-6])
        else:
            j = rng.randrange(len(pool))
            n = rng.choice([1, 2, 3, 5, 8])
            tol = rng.choice(["default", None, 0.0, 0.5, 100.0, 1e-3])
        every = rng.choice(["default", 1, 1, 2, 3, 5]) if rng.random() < 0.94 else 0
        steps.append(["fit", j, n, tol, every])
        state["u"] = state["w"] = True
        return j

    def write_step():
        cands = [nm for nm in ("u", "w") if state[nm]]
        if isinstance(u_prior, list):
            cands.append("u_prior")
        if isinstance(w_prior, list):
            cands.append("w_prior")
        if not cands:
            return False
        nm = rng.choice(cands)
        if nm in ("u", "u_prior"):
            steps.append(["write", nm, rng.randrange(N), rng.randrange(K), Fraction(rng.randint(1, 16), 8)])
        else:
            a = rng.randrange(K)
            b = a if (assort and nm == "w") else rng.randrange(K)
            steps.append(["write", nm, a, b, Fraction(rng.randint(1, 12), 8 if nm == "w" else 4)])
        return True

    def rebind_step():
        cands = [nm for nm in ("u", "w") if state[nm]]
        if not cands:
            return False
        nm = rng.choice(cands)
        if nm == "u":
            M = [[Fraction(rng.randint(1, 16), 8) for _ in range(K)] for _ in range(N)]
        else:
            M = gen_w(rng, K, assort)
        steps.append(["rebind", nm, M])
        return True

    def fit_pair():
        """a fit that is left through `break` (nothing moves any more: every distance is 0 < tolerance), queries, then a fit that
        cannot reach a tolerance: what the first one set (`tolerance_reached`, `training_iter`, `tolerance`) must not survive"""
        steps.append(["fit", rng.randrange(len(pool)), rng.choice([3, 5, 8]), rng.choice([0.5, 100.0, 1e-3]), rng.choice([1, 1, 2])])
        q()
        steps.append(["fit", rng.randrange(len(pool)), rng.choice([1, 2, 3]), rng.choice(["default", None, 0.0]), rng.choice(["default", 1, 3])])
        state["u"] = state["w"] = True

    def edit_step():
        # mostly the hypergraph that was the argument of the last query block (whatever a query kept about it is stale now)
        j = state["last_q"] if (state.get("last_q") is not None and rng.random() < 0.6) else rng.randrange(len(pool))
        state["edited"] = j
        Nj = pool[j]["N"]
        k = rng.randrange(len(cur_edges[j]))
        for _ in range(20):
            e = tuple(sorted(rng.sample(range(Nj), rng.randint(2, Nj))))
            if e not in [tuple(x) for x in cur_edges[j]]:
                cur_edges[j][k] = e
                steps.append(["edit", j, k, list(e), rng.randint(1, 5)])
                return True
        return False

    # before the first fit: queries (closed forms / "not initialized"), writes into the arrays that were handed in
    if rng.random() < 0.7:
        q()
    if rng.random() < 0.35 and write_step():
        q()
    if rng.random() < 0.15 and rebind_step():
        q()
    j0 = fit_step(True)
    q(j0)
    twin = {0: 1, 1: 0}.get(j0, 0)
    for j in [twin, 2 if j0 != 2 else 1] + ([other_N] if other_N is not None else []):
        q(j)
    if len(pool) > 3 and pool[3]["N"] == N and rng.random() < 0.5:
        q(3)
    for _ in range(rng.randint(2, 5)):
        kind = rng.choice(["fit", "fit", "fitpair", "write", "write", "rebind", "edit", "edit"])
        ok = True
        if kind == "fit":
            fit_step(False)
        elif kind == "fitpair":
            fit_pair()
        elif kind == "write":
            ok = write_step()
        elif kind == "rebind":
            ok = rebind_step()
        else:
            ok = edit_step()
        if ok:
            q(state["edited"] if (kind == "edit" and rng.random() < 0.7) else None)
            if rng.random() < 0.4:
                q()
    sub = rng.sample(range(2, N + 1), rng.randint(1, N - 1))
    return {"kind": "session", "N": N, "K": K, "assortative": assort, "u": u, "w": w, "u_prior": u_prior, "w_prior": w_prior,
            "max_hye_size": mhs, "seed": rng.randint(0, 10 ** 6), "pass_K": rng.random() < 0.7, "pass_assortative": rng.random() < 0.7,
            "pool": pool, "steps": steps, "d_single": rng.randint(2, N), "d_subset": sub}


# -------------------------------------------------------------------------------------------------
# D28: a fixed configuration on which the UNPENALISED likelihood decreases although the code is a correct MAP step

# found by search; the same numbers are the Lean witness `C15_plain_likelihood_can_decrease`:
# w after 1 pass = diag(7/16, 3/8), after 2 passes = diag(4/9, 1/3); the exact log-likelihood goes
# 3 log(21/8) + 3 log(27/16) - 83/16 = -0.7225  ->  3 log(8/3) + 3 log(5/3) - 47/9 = -0.7473
D28_CASE = {"kind": "fit", "N": 3, "K": 2, "assortative": True, "edges": [(0, 1), (0, 2)], "weights": [3, 3],
            "u": [[3, 1], [2, 0], [1, 1]], "w": None, "w_prior": 1.0, "u_prior": 0.0, "max_hye_size": None,
            "seed": 0, "w_init": [[1, 0], [0, 1]], "model_fit_upto": 3, "nmax": 3, "n_list": [1, 2, 3]}


# -------------------------------------------------------------------------------------------------
# D46 (repaired): an entry of a multiplicative update whose denominator vanishes was 0/0 and `fit` returned all-NaN
# parameters.  Regression cases replayed on every run as ORDINARY cases (finite, non-negative, supplied inputs
# untouched, ascent, correspondence): on the unrepaired code each of them is a violation.
#   underflow  : the original witness - u and w inferred, a membership column shrinks doubly exponentially, its products
#                underflow to exactly 0 in binary64 around iteration 8 and the w-update is 0/0 (NaN from n_iter = 9/10 on)
#   single-u   : exact arithmetic, no rounding involved - memberships supplied in which community 1 is held by node 0 alone:
#                the (1, 1) denominator of `_w_update` is 0 (model: `safeDiv`, Lean example in Props/C15.lean)
#   zero-w     : affinity supplied with w_11 = 0, memberships inferred without prior: the denominator of column 1 of
#                `_u_update` is 0
#   single-u-tiny : see below
#   found-*    : three more cases of the class found by search on the unrepaired code (first non-finite value at
#                iteration 8 / 10 by underflow, at iteration 45 by a denominator that cancels to exactly 0)
D46_CASES = [
    ("underflow", {"kind": "fit", "N": 3, "K": 3, "assortative": True, "edges": [(0, 1, 2)], "weights": [2.25], "u": None, "w": None,
                   "w_prior": 0.0, "u_prior": [[0.5, 0.5, 0.5], [1, 1.75, 0.5], [1, 1.75, 1.75]], "max_hye_size": None,
                   "seed": 819478, "model_fit_upto": 0, "n_list": [1, 2, 4, 8, 9, 10, 11, 12, 16, 24]}),
    ("single-u-assortative", {"kind": "fit", "N": 3, "K": 2, "assortative": True, "edges": [(0, 1, 2), (0, 1)], "weights": None,
                              "u": [[1, 1], [1, 0], [Fraction(1, 2), 0]], "w": None, "w_prior": 0.0, "u_prior": 0.0,
                              "max_hye_size": None, "seed": 3, "model_fit_upto": 3, "n_list": [1, 2, 3, 4, 6]}),
    ("single-u-full", {"kind": "fit", "N": 3, "K": 2, "assortative": False, "edges": [(0, 1, 2), (0, 1)], "weights": [2, 1],
                       "u": [[1, 1], [1, 0], [Fraction(1, 2), 0]], "w": None, "w_prior": 0.0, "u_prior": 0.0,
                       "max_hye_size": None, "seed": 4, "model_fit_upto": 3, "n_list": [1, 2, 3, 4, 6]}),
    # the same memberships scaled by 2^-30: the positive denominators are about 1e-18 and must still be divided by (a guard
    # with a threshold instead of `> 0` zeroes the whole affinity)
    ("single-u-tiny", {"kind": "fit", "N": 3, "K": 2, "assortative": True, "edges": [(0, 1, 2), (0, 1)], "weights": None,
                       "u": [[Fraction(1, 2 ** 30), Fraction(1, 2 ** 30)], [Fraction(1, 2 ** 30), 0], [Fraction(1, 2 ** 31), 0]], "w": None,
                       "w_prior": 0.0, "u_prior": 0.0, "max_hye_size": None, "seed": 3, "model_fit_upto": 3, "n_list": [1, 2, 3, 4, 6]}),
    ("zero-w", {"kind": "fit", "N": 3, "K": 2, "assortative": True, "edges": [(0, 1, 2), (0, 1)], "weights": None,
                "u": None, "w": [[Fraction(1, 2), 0], [0, 0]], "w_prior": 1.0, "u_prior": 0.0,
                "max_hye_size": None, "seed": 5, "model_fit_upto": 2, "n_list": [1, 2, 3, 4]}),
    ("found-503069", {"kind": "fit", "N": 6, "K": 2, "assortative": True, "edges": [(0, 1, 2, 3, 4, 5), (0, 1, 3, 5)], "weights": None,
                      "u": None, "w": None, "w_prior": 0.0, "u_prior": 1.0, "max_hye_size": None, "seed": 503069,
                      "model_fit_upto": 0, "n_list": [1, 8, 9, 10, 12, 24]}),
    ("found-734471", {"kind": "fit", "N": 3, "K": 2, "assortative": True, "edges": [(0, 1, 2), (0, 2)], "weights": [3, 4],
                      "u": None, "w": None, "w_prior": 0.0, "u_prior": [[1.25, 0.5], [0.75, 1.5], [1.5, 0.5]], "max_hye_size": None,
                      "seed": 734471, "model_fit_upto": 0, "n_list": [1, 8, 10, 11, 12, 24]}),
    ("found-310103", {"kind": "fit", "N": 5, "K": 3, "assortative": False, "edges": [(0, 2), (0, 1, 2, 3, 4), (3, 4)], "weights": None,
                      "u": None, "w": None, "w_prior": 1.0, "u_prior": 0.0, "max_hye_size": 5, "seed": 310103,
                      "model_fit_upto": 0, "n_list": [1, 8, 40, 46, 47, 48, 56]}),
]


# fixed fit cases at the ends of the binary64 range (powers of two: the runs are the ordinary ones up to an exact scaling, so every
# clause - supplied parameters stay, finite, non-negative, symmetric, ascent, update steps and whole short fits replayed by the
# model - is demanded as usual; a threshold, an absolute tolerance or a float32 detour anywhere in the updates shows here)
def _sc(M, s):
    return [[Fraction(x) * Fraction(2) ** s for x in row] for row in M]


SCALE_CASES = [
    ("u-2^-300", {"kind": "fit", "N": 3, "K": 2, "assortative": False, "edges": [(0, 1, 2), (0, 1)], "weights": [2, 1],
                  "u": _sc([[1, 1], [1, 0], [Fraction(1, 2), 0]], -300), "w": None, "w_prior": 0.0, "u_prior": 0.0,
                  "max_hye_size": None, "seed": 4, "model_fit_upto": 2, "n_list": [1, 2, 3, 4, 6]}),
    ("u-2^300", {"kind": "fit", "N": 4, "K": 2, "assortative": False, "edges": [(0, 1, 2), (0, 3), (1, 2, 3)], "weights": None,
                 "u": _sc([[3, 1], [2, 1], [1, 2], [1, 1]], 300), "w": None, "w_prior": 1.0, "u_prior": 0.0,
                 "max_hye_size": 4, "seed": 11, "model_fit_upto": 2, "n_list": [1, 2, 3, 5, 8]}),
    ("u-2^-200-prior", {"kind": "fit", "N": 4, "K": 2, "assortative": True, "edges": [(0, 1, 2), (0, 3), (1, 2, 3)], "weights": [1, 2, 3],
                        "u": _sc([[3, 1], [2, 1], [1, 2], [1, 1]], -200), "w": None, "w_prior": 5.0, "u_prior": 0.0,
                        "max_hye_size": None, "seed": 12, "model_fit_upto": 2, "n_list": [1, 2, 3, 5, 8]}),
    ("w-2^-200", {"kind": "fit", "N": 4, "K": 2, "assortative": False, "edges": [(0, 1, 2), (0, 3), (1, 2, 3)], "weights": None,
                  "u": None, "w": _sc([[Fraction(1, 2), Fraction(1, 4)], [Fraction(1, 4), 1]], -200), "w_prior": 1.0, "u_prior": 0.0,
                  "max_hye_size": None, "seed": 13, "model_fit_upto": 1, "n_list": [1, 2, 3, 5, 8]}),
    ("w-2^200", {"kind": "fit", "N": 4, "K": 2, "assortative": True, "edges": [(0, 1, 2), (0, 3), (1, 2, 3)], "weights": [2, 1, 1],
                 "u": None, "w": _sc([[Fraction(1, 2), 0], [0, 1]], 200), "w_prior": 1.0, "u_prior": 1.0,
                 "max_hye_size": None, "seed": 14, "model_fit_upto": 1, "n_list": [1, 2, 3, 5, 8]}),
]


def replay_scale(ctx, drv):
    for name, case in SCALE_CASES:
        safely(ctx, check_fit, drv, dict(case))
        ctx.count("fit_cases_at_the_ends_of_the_float_range_replayed")


def replay_d46(ctx, drv):
    import numpy as np
    for name, case in D46_CASES:
        safely(ctx, check_fit, drv, dict(case))
        ctx.count("D46_regression_cases_replayed")
        # does the case still reach the repaired branch?  (an inferred entry that is exactly 0 after the longest run;
        # informative only)
        st, b = guarded(lambda: run_fit(case, max(case["n_list"]), record=False, no_stop=True)[0])
        if st == "ok":
            bu, bw = np.asarray(b.u, dtype=float), np.asarray(b.w, dtype=float)
            free_w = np.eye(bw.shape[0], dtype=bool) if case["assortative"] else np.ones(bw.shape, dtype=bool)
            if (case["u"] is None and np.any(bu == 0)) or (case["w"] is None and np.any((bw == 0) & free_w)):
                ctx.count("D46_regression_cases_reaching_the_repaired_branch")


def replay_known(ctx, drv):
    replay_d46(ctx, drv)
    replay_scale(ctx, drv)
    if D28_CASE is None:
        return
    d28, liks = check_fit(ctx, drv, dict(D28_CASE), nmax=D28_CASE.get("nmax", 3), model_replay=True)
    if d28 is not None:
        n0, n1, p0, p1 = d28
        ctx.known("D28", f"call-site class 'w_prior > 0, metric = unpenalised likelihood': with w_prior={D28_CASE['w_prior']} the exact "
                         f"Poisson log-likelihood goes {p0:.6f} -> {p1:.6f} from n_iter={n0} to {n1} (MAP step; the penalised "
                         "objective increases, C15_ascent)")
    else:
        ctx.violation(dict(D28_CASE), "the recorded D28 witness no longer shows a decrease of the unpenalised likelihood "
                                      "(the w-update is no longer the MAP step that was modelled)")


# -------------------------------------------------------------------------------------------------
# stream 5: magnitudes - many nodes, large maximum size, tiny and huge parameters (float path only)

MAG_RTOL = 1e-9        # pure relative tolerance of this stream (no absolute floor: entries of size 1e-200 are entries)
MAG_CANCEL = 1e-12     # rounding of the code's own subtractions, relative to the minuend ("up to rounding")
MAG_NDEF = 6500        # up to here every size's reference is the definition itself in exact integers (binom(N-2,d-2)/kappa_d ...)
MAG_NMODEL = 400       # Poisson parameters / pair sums / average degree also through the Lean model up to here
FLOAT_MAX_LOG = 709.78


def mag_arrays(case):
    """u (N x K), w (K x K) float64 and the hyperedges of a magnitude case, from its recipe (numpy generator seeded by it)"""
    import numpy as np
    g = np.random.default_rng(case["aseed"])
    N, K = case["N"], case["K"]
    base = 0.05 + 0.95 * g.random((N, K))
    if case["dyadic"]:
        base = np.ceil(base * 16) / 16
    base[g.random((N, K)) < case["pzero"]] = 0.0
    base[:2, 0] = [0.5, 0.75]                       # two nodes share community 0: the pair sum is positive
    rowf = np.ones(N)
    if case["rows"] == "spread":
        rowf = 10.0 ** g.uniform(0, 3, N)
    elif case["rows"] == "one":
        rowf[int(g.integers(N))] = 1e3
    u = base * rowf[:, None] * (10.0 ** np.array(case["colexp"], dtype=float))[None, :] * 10.0 ** case["uexp"]
    wb = g.integers(1, 13, (K, K)) / 8.0
    wb = np.triu(wb) + np.triu(wb, 1).T
    off = ~np.eye(K, dtype=bool)
    kind = case["wkind"]
    if kind == "diag":
        wb[off] = 0.0
    elif kind == "sparse":                          # some off-diagonal pairs without affinity
        z = np.triu(g.random((K, K)) < 0.4, 1)
        wb[z | z.T] = 0.0
    elif kind == "offtiny":                         # off-diagonal affinities 9..16 orders below the diagonal
        t = 10.0 ** -g.uniform(9, 16, (K, K))
        t = np.triu(t, 1) + np.triu(t, 1).T
        wb[off] = (wb * t)[off]
    elif kind == "offonly":                         # no affinity inside a community: everything comes from the off-diagonal
        wb[~off] = 0.0
        if K == 1:
            wb[0, 0] = 0.625
    if kind in ("offtiny", "full") and K >= 2 and case.get("zero_diag"):
        k0 = int(g.integers(1, K))
        wb[k0, k0] = 0.0
    w = wb * 10.0 ** case["wexp"]
    edges, seen = [], set()
    sizes = list(case["esizes"])
    for d in sizes:
        d = max(2, min(int(d), N))
        e = tuple(sorted(int(i) for i in g.choice(N, size=d, replace=False)))
        if e not in seen:
            seen.add(e)
            edges.append(e)
    if case.get("emany"):                           # many small hyperedges: exactly `emany` columns of the incidence matrix
        for _ in range(8 * case["emany"]):
            if len(edges) >= case["emany"]:
                break
            d = int(g.integers(2, min(N, 6) + 1))
            e = tuple(sorted(int(i) for i in g.choice(N, size=d, replace=False)))
            if e not in seen:
                seen.add(e)
                edges.append(e)
    if case.get("emany"):                           # the few large hyperedges anywhere among the many small ones
        edges = [edges[int(i)] for i in g.permutation(len(edges))]
    wts = None if case["weights"] is None else [float(x) for x in case["weights"]][:len(edges)]
    if wts is not None and len(wts) < len(edges):
        wts = wts + [1.0] * (len(edges) - len(wts))
    return u, w, edges, wts


def pair_sums(U, w):
    """reference pair sums over the rows of U by running sums - additions of non-negative terms only, no subtraction (the code
    subtracts the diagonal from a square): S = sum_(i<j) u_i^T w u_j, A_i = sum_(j != i) u_i^T w u_j,
    R_i = sum_(j<k, both != i) u_j^T w u_k.  w symmetric."""
    import numpy as np
    n, K = U.shape
    P = np.zeros((n + 1, K))
    P[1:] = np.cumsum(U, axis=0)                      # P[i] = sum_(j<i) u_j
    Sf = np.zeros((n + 1, K))
    Sf[:n] = np.cumsum(U[::-1], axis=0)[::-1]         # Sf[i] = sum_(j>=i) u_j
    Uw = U @ w
    below = np.einsum("ik,ik->i", Uw, P[:n])          # sum_(j<i) u_i^T w u_j
    above = np.einsum("ik,ik->i", Uw, Sf[1:])         # sum_(j>i)
    A = below + above
    S = math.fsum(below.tolist())
    Cb = np.concatenate([[0.0], np.cumsum(below)])[:n]                 # pairs j<k<i
    Ca = np.concatenate([np.cumsum(above[::-1])[::-1], [0.0]])[1:]     # pairs i<j<k
    cross = np.einsum("ik,kl,il->i", P[:n], w, Sf[1:])                 # pairs j<i<k
    return S, A, Cb + Ca + cross


def pair_sums_brute(U, w):
    n = len(U)
    B = [[float(U[i] @ w @ U[j]) for j in range(n)] for i in range(n)]
    S = math.fsum(B[i][j] for i in range(n) for j in range(i + 1, n))
    A = [math.fsum(B[i][j] for j in range(n) if j != i) for i in range(n)]
    R = [math.fsum(B[j][k] for j in range(n) for k in range(j + 1, n) if i not in (j, k)) for i in range(n)]
    return S, A, R


def relok(got, ref, slack=0.0, rtol=MAG_RTOL):
    got, ref = float(got), float(ref)
    if not (math.isfinite(got) and math.isfinite(ref)):
        return False
    return abs(got - ref) <= rtol * max(abs(got), abs(ref)) + slack


def binom_row(n, kmax):
    """[binom(n, k) for k = 0..kmax] in exact integers (n < 0 or k > n: 0)"""
    if n < 0:
        return [0] * (kmax + 1)
    row, c = [1], 1
    for k in range(kmax):
        c = c * (n - k) // (k + 1) if k < n else 0
        row.append(c)
    return row


class SizeTable:
    """per-size constants of the definitions for one N, in exact integers:
    kappa_d = binom(N-2,d-2) d (d-1) / 2;  C summand = binom(N-2,d-2)/kappa_d;  C' summand = binom(N-3,d-3)/kappa_d;
    C'' summand = binom(N-2,d-2) d / (N kappa_d).  For N > MAG_NDEF the quotients are taken in the reduced form
    2/(d(d-1)), 2(d-2)/((N-2) d (d-1)), 2/(N (d-1)) (theorems C15_C_term, C15_exp_degree_*) and the reduction is spot-checked
    with exact binomials on sampled sizes."""

    def __init__(self, N, dmax):
        self.N = N
        self.exact = N <= MAG_NDEF
        if self.exact:
            self.r2 = binom_row(N - 2, max(dmax - 2, 0))
            self.r3 = binom_row(N - 3, max(dmax - 3, 0))

    def c2(self, d):
        return self.r2[d - 2] if self.exact else math.comb(self.N - 2, d - 2)

    def c3(self, d):
        if d < 3:
            return 0
        return self.r3[d - 3] if self.exact else math.comb(self.N - 3, d - 3)

    def terms(self, d, definition=None):
        """(C summand, C' summand, C'' summand) as correctly rounded floats of exact integer quotients"""
        N = self.N
        if self.exact if definition is None else definition:
            c2, c3 = self.c2(d), self.c3(d)
            k2 = c2 * d * (d - 1)               # 2 kappa_d
            return (2 * c2) / k2, (2 * c3) / k2, (2 * c2 * d) / (N * k2)
        return 2 / (d * (d - 1)), (2 * (d - 2)) / ((N - 2) * d * (d - 1)) if N > 2 else float("nan"), 2 / (N * (d - 1))

    def log_kappa(self, d):
        N = self.N
        if self.exact or min(d - 2, N - d) <= 20000:
            return math.log(self.c2(d) * d * (d - 1) // 2), "exact integer"
        lb = math.lgamma(N - 1) - math.lgamma(d - 1) - math.lgamma(N - d + 1)
        return lb + math.log(d) + math.log(d - 1) - math.log(2), "lgamma"


def logk_ok(got, ref):
    got = float(got)
    return math.isfinite(got) and abs(got - ref) <= 1e-9 * max(1.0, abs(ref))


def chat_of(U):
    """c_ab = 1/2 sum_(i != j) u_ia u_jb over the rows of U by running sums (additions of non-negative terms only)"""
    import numpy as np
    P = np.zeros_like(U)
    P[1:] = np.cumsum(U, axis=0)[:-1]
    return 0.5 * (U.T @ P + P.T @ U)


def others_of(U):
    """row i: sum of the other rows (prefix + suffix, no subtraction)"""
    import numpy as np
    n, K = U.shape
    P = np.zeros((n + 1, K))
    P[1:] = np.cumsum(U, axis=0)
    Sf = np.zeros((n + 1, K))
    Sf[:n] = np.cumsum(U[::-1], axis=0)[::-1]
    return P[:n] + Sf[1:]


def edge_groups(edges):
    """hyperedges grouped by size: (size, positions in the list, node index array)"""
    import numpy as np
    by = {}
    for k, e in enumerate(edges):
        by.setdefault(len(e), []).append(k)
    return [(d, np.array(ks), np.array([edges[k] for k in ks])) for d, ks in sorted(by.items())]


def edge_stats(u, w, groups, E):
    """per hyperedge: lambda_e = sum over its node pairs of u_i^T w u_j, s_e = sum of its rows, c_e = 1/2 sum_(i != j) u_ia u_jb.
    Sizes up to 8 are done for all hyperedges of the size at once over the explicit position pairs i < j, larger ones one by one
    with running sums - additions of non-negative terms only, either way."""
    import numpy as np
    K = w.shape[0]
    lam, S, chat = np.zeros(E), np.zeros((E, K)), np.zeros((E, K, K))
    for d, ks, idx in groups:
        if d <= 8:
            U = u[idx]
            i0, i1 = np.triu_indices(d, 1)
            Ui, Uj = U[:, i0], U[:, i1]
            lam[ks] = np.einsum("epa,epa->e", Ui @ w, Uj)
            S[ks] = U.sum(axis=1)
            chat[ks] = 0.5 * (np.einsum("epa,epb->eab", Ui, Uj) + np.einsum("epa,epb->eab", Uj, Ui))
        else:
            for k, e in zip(ks, idx):
                Ue = u[e]
                lam[k], S[k], chat[k] = pair_sums(Ue, w)[0], Ue.sum(axis=0), chat_of(Ue)
    return lam, S, chat


def ref_w_step(u, w, edges, A, r):
    """one `_w_update` by its description: w_ab * sum_e (A_e/lambda_e) c_(e,ab) / (c_(V,ab) + r_ab), 0 where the denominator is
    not positive.  Also returns the size of the minuend of the code's numerator (for the cancellation slack)."""
    import numpy as np
    K = w.shape[0]
    lam, S, chat = edge_stats(u, w, edge_groups(edges), len(edges))
    mult = np.asarray(A, dtype=float) / lam
    num = np.einsum("e,eab->ab", mult, chat)
    big = np.einsum("e,ea,eb->ab", mult, S, S)
    den = chat_of(u) + r
    out = np.zeros((K, K))
    np.divide(w * num, den, out=out, where=den > 0)
    slack = np.zeros((K, K))
    np.divide(0.5 * w * big, den, out=slack, where=den > 0)
    return out, slack


def ref_u_step(u, w, edges, A, r):
    """one `_u_update` by its description: u_ia * sum_b w_ab sum_(e through i) (A_e/lambda_e) sum_(j in e, j != i) u_jb /
    (sum_b w_ab sum_(j != i) u_jb + r_ia), 0 where the denominator is not positive"""
    import numpy as np
    acc, big = np.zeros_like(u), np.zeros_like(u)
    groups = edge_groups(edges)
    lam, S, _ = edge_stats(u, w, groups, len(edges))
    mult = np.asarray(A, dtype=float) / lam
    for d, ks, idx in groups:
        if d <= 8:
            oth = np.einsum("ij,ejk->eik", 1.0 - np.eye(d), u[idx])         # row i: the other nodes of the hyperedge
            np.add.at(acc, idx, mult[ks][:, None, None] * oth)
            np.add.at(big, idx, (mult[ks][:, None] * S[ks])[:, None, :] * np.ones((1, d, 1)))
        else:
            for k, e in zip(ks, idx):
                acc[e] += mult[k] * others_of(u[e])
                big[e] += mult[k] * S[k][None, :]
    den = others_of(u) @ w + r
    out = np.zeros_like(u)
    np.divide(u * (acc @ w), den, out=out, where=den > 0)
    slack = np.zeros_like(u)
    np.divide(u * (big @ w), den, out=slack, where=den > 0)
    return out, slack


def check_magfit(ctx, case, u, w, edges, wts, viol):
    """`fit` at scale: hundreds to thousands of nodes and hyperedges, tiny / huge supplied parameters.  The property's clauses
    (supplied parameters stay, finite, non-negative, symmetric / diagonal, max_hye_size covers the data, ascent of the penalised
    likelihood with supplied memberships - here through the closed form sum_e A_e log lambda_e - C(D) (S(u, w) + sum r w), which
    C15_normaliser / C15_exact_likelihood identify with the sum over all hyperedges) and, as correspondence with the description of
    the updates, the returned parameters against n reference steps from the same initial draw."""
    import numpy as np
    from hypergraphx.communities.hy_mmsbm.model import HyMMSBM
    f = case["fit"]
    N, K = case["N"], case["K"]
    which, assort, prior, seed = f["which"], f["assortative"], float(f["prior"]), f["seed"]
    A = [1.0] * len(edges) if wts is None else list(wts)
    Dtrue = max(len(e) for e in edges)
    mhs = f["max_hye_size"]
    if mhs is not None and mhs < Dtrue:
        mhs = Dtrue
    if which == "w" and assort:
        w = np.diag(np.diag(w))
        if not np.any(w > 0):
            w = w + np.eye(K) * 10.0 ** case["wexp"]
    tag = f"fit at scale (N={N}, {len(edges)} hyperedges up to size {Dtrue}, {'memberships' if which == 'u' else 'affinity'} supplied with " \
          f"entries up to {(u if which == 'u' else w).max():.3g}, assortative={assort}, prior={prior})"

    def make():
        kw = {"u": u.copy(), "w_prior": prior, "u_prior": 0.0} if which == "u" else {"w": w.copy(), "u_prior": prior, "w_prior": 1.0}
        return HyMMSBM(K=K, assortative=assort, max_hye_size=mhs, seed=seed, **kw)

    def initial():
        m = make()
        if which == "u":
            m._init_w()
            return np.array(m.w, dtype=float)
        m._init_u(N)
        return np.array(m.u, dtype=float)
    st, h = guarded(lambda: build_hypergraph(N, edges, wts, None), 60)
    st0, x0 = guarded(initial, 30)
    if st != "ok" or st0 != "ok":
        viol(f"{tag}: Hypergraph / initial draw raised {h if st != 'ok' else x0}")
        return
    Dm = Dtrue if mhs is None else mhs
    Cd = math.fsum(2 / (d * (d - 1)) for d in range(2, Dm + 1))
    ref, liks = x0, []
    supplied = u if which == "u" else w
    for n in f["n_list"]:
        def run():
            m = make()
            held = m.u if which == "u" else m.w
            m.fit(h, n_iter=n)
            return m, held
        st, r = guarded(run, 120)
        if st != "ok":
            viol(f"{tag}: fit(n_iter={n}) raised {r}")
            return
        m, held = r
        uu, ww = np.asarray(m.u, dtype=float), np.asarray(m.w, dtype=float)
        got_sup = uu if which == "u" else ww
        if got_sup.shape != supplied.shape or not np.array_equal(got_sup, supplied) or not np.array_equal(held, supplied):
            viol(f"{tag}: fit(n_iter={n}) changed the supplied {'u' if which == 'u' else 'w'}")
            return
        if uu.shape != (N, K) or ww.shape != (K, K) or not (np.all(np.isfinite(uu)) and np.all(np.isfinite(ww))):
            viol(f"{tag}: fit(n_iter={n}) returned non-finite parameters or shapes {uu.shape}, {ww.shape}")
            return
        free = ww if which == "u" else uu
        top = float(np.max(np.abs(free)))
        if np.min(free) < -1e-9 * top:
            viol(f"{tag}: fit(n_iter={n}) returned a negative entry {np.min(free)!r}")
        if np.max(np.abs(ww - ww.T)) > 1e-9 * float(np.max(np.abs(ww))):
            viol(f"{tag}: fit(n_iter={n}) returned a non-symmetric w")
        if assort and np.any(ww[~np.eye(K, dtype=bool)] != 0):
            viol(f"{tag}: fit(n_iter={n}) with assortative=True returned a w that is not diagonal")
        if m.max_hye_size != Dm or m.K != K or bool(m.assortative) != assort:
            viol(f"{tag}: after fit(n_iter={n}) max_hye_size / K / assortative = {m.max_hye_size} / {m.K} / {m.assortative}, "
                 f"expected {Dm} / {K} / {assort}")
            return
        # reference: n steps from the same initial draw, then the division by C() resp. sqrt(C())
        while len(liks) < n:
            if which == "u":
                ref, slack = ref_w_step(u, ref, edges, A, prior)
            else:
                ref, slack = ref_u_step(ref, w, edges, A, prior)
            liks.append(None)
        want = ref / Cd if which == "u" else ref / math.sqrt(Cd)
        sl = MAG_CANCEL * 100 * (slack / Cd if which == "u" else slack / math.sqrt(Cd))
        okm = np.abs(free - want) <= 1e-8 * np.maximum(np.abs(free), np.abs(want)) * n + sl
        if not okm.all():
            k = tuple(int(x) for x in np.argwhere(~okm)[0])
            viol(f"{tag}: fit(n_iter={n}) returned {'w' if which == 'u' else 'u'}{list(k)} = {free[k]!r} but {n} update step(s) by their "
                 f"description from the same initial draw, divided by {'C()' if which == 'u' else 'sqrt(C())'} = {Cd:.6g}, give {want[k]!r} "
                 f"({int((~okm).sum())} of {okm.size} entries differ)")
            return
        if which == "u":
            lams = edge_stats(u, ww, edge_groups(edges), len(edges))[0].tolist()
            if min(lams) <= 0:
                viol(f"{tag}: a data hyperedge has Poisson parameter <= 0 under the w of fit(n_iter={n})")
                return
            L = math.fsum(a * math.log(l) for a, l in zip(A, lams)) - Cd * (pair_sums(u, ww)[0] + prior * float(ww.sum()))
            liks[n - 1] = L
    ctx.count("mag_fits_at_scale")
    seq = [(n, liks[n - 1]) for n in f["n_list"] if which == "u"]
    for (n0, l0), (n1, l1) in zip(seq, seq[1:]):
        if l1 < l0 - 1e-9 * (1 + abs(l0)):
            viol(f"{tag}: the penalised exact log-likelihood decreased from n_iter={n0} to {n1}: {l0!r} -> {l1!r}")
            break


def check_mag(ctx, drv, case):
    import numpy as np
    from scipy import sparse
    from hypergraphx.communities.hy_mmsbm.model import HyMMSBM
    from hypergraphx.communities.hy_mmsbm import _linear_ops as lo
    N, K, D = case["N"], case["K"], case["D"]
    u, w, edges, wts = mag_arrays(case)
    bad = []

    def viol(what):
        if len(bad) < 6:
            bad.append(what)

    tag = f"N={N}, K={K}, max_hye_size={D}, u entries up to {u.max():.3g}, w entries up to {w.max():.3g}"
    u0, w0 = u.copy(), w.copy()
    st, model = guarded(lambda: HyMMSBM(u=u, w=w, max_hye_size=D, u_prior=0.0, w_prior=1.0), 30)
    if st != "ok":
        ctx.case(repr(("mag", sorted(case.items()))), True, sample=case)
        ctx.violation(case, f"HyMMSBM(u, w, max_hye_size={D}) raised {model} ({tag})")
        return
    tab = SizeTable(N, N)
    ctx.count("mag_cases")
    if N > MAG_NDEF:
        ctx.count("mag_cases_beyond_%d_nodes" % MAG_NDEF)
    if float(w.max()) <= 1e-8 and np.any(w[~np.eye(K, dtype=bool)] > 0):
        ctx.count("mag_cases_all_affinities_below_1e-8_and_not_diagonal")

    # ---- reference pair sums (self-checked against the explicit double sum on small cases)
    S, A, R = pair_sums(u, w)
    if N <= 40:
        S2, A2, R2 = pair_sums_brute(u, w)
        if not (relok(S, S2, rtol=1e-12) and all(relok(x, y, rtol=1e-12) for x, y in zip(A, A2))
                and all(relok(x, y, rtol=1e-11) for x, y in zip(R, R2))):
            raise AssertionError("internal: running-sum reference differs from the explicit pair sums")
    usum = u.sum(axis=0)
    UwU = float(usum @ w @ usum)          # the square the code subtracts the diagonal from
    uwU = (u @ w) @ usum                  # per node

    # ---- log_kappa: scalars (int, numpy integer), arrays (unsorted sample, the ranges dimension_sequence uses)
    lk_single = [d for d in case["lk_single"] if 2 <= d <= N]
    lk_arrays = [[d for d in case["lk_array"] if 2 <= d <= N]]
    if D * D <= 3_000_000:
        lk_arrays.append(list(range(2, D + 1)))
        if D >= 3:
            lk_arrays.append(list(range(3, D + 1)))
    lk_arrays = [a for a in lk_arrays if a]

    def lk_calls():
        out = [model.log_kappa(d) for d in lk_single]
        out2 = [model.log_kappa(np.int64(d)) for d in lk_single[:4]]
        out3 = [model.log_kappa(np.array(a)) for a in lk_arrays]
        return out, out2, out3
    st, r = guarded(lk_calls, 60)
    lk_impl = {}
    if st != "ok":
        viol(f"log_kappa raised {r} ({tag}, sizes {lk_single[:6]}..)")
    else:
        o1, o2, o3 = r
        pairs = list(zip(lk_single, o1, ["int"] * len(o1))) + list(zip(lk_single[:4], o2, ["numpy.int64"] * len(o2)))
        for a, vals in zip(lk_arrays, o3):
            vals = np.atleast_1d(np.asarray(vals, dtype=float))
            if vals.shape != (len(a),):
                viol(f"log_kappa(array of {len(a)} sizes) has shape {vals.shape}")
                continue
            pairs += list(zip(a, vals.tolist(), ["array"] * len(a)))
        worst = None
        for d, got, how in pairs:
            ref, by = tab.log_kappa(d)
            if ref + math.log(2) - math.log(d) - math.log(d - 1) > FLOAT_MAX_LOG:
                ctx.count("mag_log_kappa_sizes_with_a_binomial_beyond_the_float_range")
            lk_impl.setdefault(d, float(got))
            if not logk_ok(got, ref) and worst is None:
                worst = (d, got, ref, by, how)
        ctx.count("mag_log_kappa_values_compared", len(pairs))
        if worst:
            d, got, ref, by, how = worst
            viol(f"log_kappa({d}) [{how} argument] = {float(got)!r} but log(binom(N-2,d-2) d (d-1)/2) = {ref!r} ({by}); N={N}")

    # ---- the constants and the expected degrees, per set of sizes
    dsets = [("all", list(range(2, D + 1)))]
    for d1 in case["d_single"]:
        if 2 <= d1 <= D:
            dsets.append((int(d1), [int(d1)]))
    if D >= 3:
        dsets.append((np.arange(3, D + 1), list(range(3, D + 1))))
    sub = [d for d in case["d_subset"] if 2 <= d <= D]
    if sub:
        dsets.append((np.array(sub), sub))
    model_lines, model_expect = [], []
    for darg, ds in dsets:
        defn = [tab.terms(d) for d in ds]
        refC, refC1, refC2 = (math.fsum(t[i] for t in defn) for i in range(3))
        dshow = f"{len(ds)} sizes {ds[:3]}..{ds[-1]}" if len(ds) > 4 else str(ds)

        def consts():
            return (model.C(darg), model.C(darg, return_summands=True), model._C_prime(darg) if N >= 3 else None,
                    model._C_second(darg))
        st, r = guarded(consts, 30)
        if st != "ok":
            viol(f"C / _C_prime / _C_second raised {r} for d = {dshow} ({tag})")
            continue
        Cv, Cs, C1, C2 = r
        Cs = np.atleast_1d(np.asarray(Cs, dtype=float))
        if not relok(Cv, refC):
            viol(f"C({dshow}) = {float(Cv)!r} but sum_d binom(N-2,d-2)/kappa_d = {refC!r} (N={N})")
        if Cs.shape != (len(ds),) or not all(relok(x, t[0]) for x, t in zip(Cs.tolist(), defn)):
            k = next((i for i, (x, t) in enumerate(zip(Cs.tolist(), defn)) if not relok(x, t[0])), 0)
            viol(f"C({dshow}, return_summands=True): summand of size {ds[k]} = {Cs.tolist()[k] if k < len(Cs) else None!r} but "
                 f"binom(N-2,d-2)/kappa_d = {defn[k][0]!r} (N={N})")
        if not relok(C2, refC2):
            viol(f"_C_second({dshow}) = {float(C2)!r} but sum_d binom(N-2,d-2) d/(N kappa_d) = {refC2!r} (N={N})")
        if N >= 3 and not relok(C1, refC1):
            viol(f"_C_prime({dshow}) = {float(C1)!r} but sum_d binom(N-3,d-3)/kappa_d = {refC1!r} (N={N})")
        if N >= 3 and len(ds) <= 2500 and len(model_lines) < 3:
            model_lines.append(f"cbig {N} {hgxv.enc_list(ds)}")
            model_expect.append(("cbig", (float(Cv), float(C1), float(C2))))
        ctx.count("mag_size_sets_compared")

        st, r = guarded(lambda: (model.expected_degree(per_node=False, d=darg),
                                 model.expected_degree(per_node=True, d=darg) if N >= 3 else None), 30)
        if st != "ok":
            viol(f"expected_degree raised {r} for d = {dshow} ({tag})")
            continue
        avg, per = r
        # average over the nodes of sum_(e through i) lambda_e/kappa_e = (1/N) sum_d d binom(N-2,d-2) S / kappa_d
        if not relok(avg, refC2 * S, slack=MAG_CANCEL * refC2 * 0.5 * UwU):
            viol(f"expected_degree(d = {dshow}) = {float(avg)!r} but the average over the nodes of the summed lambda_e/kappa_e is "
                 f"{refC2 * S!r} ({tag})")
        if per is not None:
            per = np.asarray(per, dtype=float)
            want = refC * A + refC1 * R       # sum_d [binom(N-2,d-2) A_i + binom(N-3,d-3) R_i]/kappa_d  (C15_count_node)
            slack = MAG_CANCEL * (refC * uwU + refC1 * 0.5 * UwU)
            if per.shape != (N,):
                viol(f"expected_degree(per_node=True) has shape {per.shape} for {N} nodes")
            else:
                okv = np.isfinite(per) & (np.abs(per - want) <= MAG_RTOL * np.maximum(np.abs(per), np.abs(want)) + slack)
                if not okv.all():
                    i = int(np.argmin(okv))
                    viol(f"expected_degree(per_node=True, d = {dshow})[{i}] = {per[i]!r} but the sum over all hyperedges through node "
                         f"{i} of lambda_e/kappa_e is {want[i]!r} ({int((~okv).sum())} of {N} nodes differ; {tag})")

    # ---- expected number of hyperedges per size, expected degree sequence
    for dyadic in (True, False):
        ds = list(range(2 if dyadic else 3, D + 1))
        st, r = guarded(lambda: (model.dimension_sequence(include_dyadic=dyadic, expected=True),
                                 model.degree_sequence(include_dyadic=dyadic, expected=True) if N >= 3 and ds else None), 30)
        if st != "ok":
            viol(f"dimension_sequence / degree_sequence(expected=True, include_dyadic={dyadic}) raised {r} ({tag})")
            continue
        dim, deg = r
        got = {int(k): float(v) for k, v in dim.items()}
        want = {d: tab.terms(d)[0] * S for d in ds}       # sum over all hyperedges of size d of lambda_e/kappa_d (C15_count)
        slack = MAG_CANCEL * 0.5 * UwU
        wrong = [d for d in ds if not relok(got.get(d, 0.0), want[d], slack=slack * tab.terms(d)[0])] + [k for k in got if k not in want]
        if wrong:
            d = wrong[0]
            viol(f"dimension_sequence(expected=True, include_dyadic={dyadic})[{d}] = {got.get(d)!r} but the expected number of hyperedges "
                 f"of size {d}, sum_e lambda_e/kappa_{d}, is {want.get(d)!r} ({len(wrong)} of {len(ds)} sizes differ; {tag})")
        if deg is not None:
            deg = np.asarray(deg, dtype=float)
            defn = [tab.terms(d) for d in ds]
            rC, rC1 = math.fsum(t[0] for t in defn), math.fsum(t[1] for t in defn)
            wantd = rC * A + rC1 * R
            slackd = MAG_CANCEL * (rC * uwU + rC1 * 0.5 * UwU)
            if deg.shape != (N,) or not (np.isfinite(deg) & (np.abs(deg - wantd) <= MAG_RTOL * np.maximum(np.abs(deg), np.abs(wantd)) + slackd)).all():
                viol(f"degree_sequence(expected=True, include_dyadic={dyadic}) differs from the summed lambda_e/kappa_e ({tag})")
    ctx.count("mag_dimension_sequence_sizes_compared", max(0, 2 * D - 3))

    # ---- spot check of the reduced quotients used beyond MAG_NDEF nodes (exact binomials)
    if not tab.exact:
        for d in [d for d in lk_single if min(d - 2, N - d) <= 4000][:6]:
            a, b = tab.terms(d, definition=True), tab.terms(d, definition=False)
            if not all(relok(x, y, rtol=1e-14) for x, y in zip(a, b)):
                raise AssertionError("internal: reduced quotient differs from the exact binomial quotient")

    # ---- Poisson parameters of large and small hyperedges (CSR of the real binary_incidence_matrix, dense, hand-built CSR)
    rows = [i for e in edges for i in e]
    cols = [k for k, e in enumerate(edges) for _ in e]
    B_hand = sparse.csr_array((np.ones(len(rows)), (rows, cols)), shape=(N, len(edges)))
    variants = [("csr", B_hand)]
    if N * len(edges) <= 4_000_000:
        variants.append(("dense", B_hand.toarray()))
    if case.get("via_hypergraph") and N <= 3000:
        def through_hypergraph():
            from hypergraphx.linalg.linalg import binary_incidence_matrix
            h = build_hypergraph(N, edges, wts, None)
            return binary_incidence_matrix(h), list(h.get_weights())
        st, r = guarded(through_hypergraph, 60)
        if st != "ok":
            viol(f"Hypergraph / binary_incidence_matrix raised {r} for {N} nodes and hyperedges of sizes {[len(e) for e in edges]}")
        else:
            Bh, hw = r
            Bd = Bh
            Bc = sparse.csc_array(Bh)
            got_cols = [tuple(int(i) for i in sorted(Bc.indices[Bc.indptr[k]:Bc.indptr[k + 1]])) for k in range(Bc.shape[1])]
            if Bd.shape != (N, len(edges)) or sorted(got_cols) != sorted(edges) or Bc.nnz != len(rows) or not np.all(Bc.data == 1):
                viol(f"binary_incidence_matrix: shape {Bd.shape}, columns do not hold the {len(edges)} hyperedges of sizes "
                     f"{[len(e) for e in edges][:8]} on {N} nodes")
            else:
                variants.append(("binary_incidence_matrix", (Bh, got_cols)))
    if len(edges) > 100:
        ctx.count("mag_cases_with_more_than_100_hyperedges")
    lam_all, S_all, _ = edge_stats(u, w, edge_groups(edges), len(edges))
    lam_ref = {e: float(lam_all[k]) for k, e in enumerate(edges)}
    es_ref = {e: S_all[k] for k, e in enumerate(edges)}
    sq_ref = {e: float(S_all[k] @ w @ S_all[k]) for k, e in enumerate(edges)}
    for name, Bv in variants:
        order = edges
        if name == "binary_incidence_matrix":
            Bv, order = Bv
        st, r = guarded(lambda: model.poisson_params(Bv, return_edge_sum=True), 30)
        if st != "ok":
            viol(f"poisson_params({name}) raised {r} ({tag}, hyperedge sizes {[len(e) for e in order]})")
            continue
        pp, es = r
        pp, es = np.asarray(pp, dtype=float), np.asarray(es, dtype=float)
        if pp.shape != (len(order),) or es.shape != (len(order), K):
            viol(f"poisson_params({name}) returns shapes {pp.shape}, {es.shape} for {len(order)} hyperedges")
            continue
        for k, e in enumerate(order):
            if not relok(pp[k], lam_ref[e], slack=MAG_CANCEL * sq_ref[e]):
                viol(f"poisson_params({name}) of a hyperedge of size {len(e)} = {pp[k]!r} but the sum over its node pairs of "
                     f"u_i^T w u_j is {lam_ref[e]!r} ({tag})")
                break
            if not all(relok(x, y, rtol=1e-11) for x, y in zip(es[k], es_ref[e])):
                viol(f"hyperedge sums of a hyperedge of size {len(e)} = {es[k].tolist()} but sum_(i in e) u_i = {es_ref[e].tolist()}")
                break
        ctx.count("mag_poisson_parameters_compared", len(order))
    # ---- the linear operations themselves on the large arrays
    st, r = guarded(lambda: (lo.bf_and_sum(u, w), lo.qf_and_sum(u, w), lo.qf(u, w), lo.bf(u, usum, w)), 30)
    if st != "ok":
        viol(f"_linear_ops raised {r} ({tag})")
    else:
        bfs, qfs, qfv, bfv = r
        qf_ref = np.einsum("ik,kl,il->i", u, w, u)
        if not relok(bfs, S, slack=MAG_CANCEL * 0.5 * UwU):
            viol(f"bf_and_sum(u, w) = {float(bfs)!r} but sum_(i<j) u_i^T w u_j = {S!r} ({tag})")
        if not relok(qfs, math.fsum(qf_ref.tolist())) or np.shape(qfv) != (N,) or \
                not all(relok(x, y) for x, y in zip(np.asarray(qfv, dtype=float).tolist(), qf_ref.tolist())):
            viol(f"qf / qf_and_sum differ from u_i^T w u_i ({tag})")
        if np.shape(bfv) != (N,) or not all(relok(x, y + z) for x, y, z in zip(np.asarray(bfv, dtype=float).tolist(), A.tolist(), qf_ref.tolist())):
            viol(f"bf(u, u.sum(axis=0), w) differs from sum_j u_i^T w u_j ({tag})")
    # ---- queries leave the parameters alone
    if not (np.array_equal(u, u0) and np.array_equal(w, w0) and model.u is u and model.w is w and model.max_hye_size == D):
        viol(f"the queries changed u, w or max_hye_size ({tag})")

    if case.get("fit") and N <= 6000:
        check_magfit(ctx, case, u, w, edges, wts, viol)

    nontrivial = N >= 70 or abs(case["uexp"]) >= 8 or abs(case["wexp"]) >= 8
    ctx.case(repr(("mag", sorted((k, repr(v)) for k, v in case.items()))), nontrivial, sample=case)
    for what in bad:
        ctx.violation(case, what)

    # ---- the Lean model on the same input: constants for thousands of sizes, kappa through the products of log_binomial
    #      (exact integers of any size), Poisson parameters / pair sum / average degree on the exact rationals of the floats
    if drv is None:
        return
    kd = [d for d in lk_single if d in lk_impl and d <= 12000][:6]
    if kd:
        model_lines.append(f"kap {N} {hgxv.enc_list(kd)}")
        model_expect.append(("kap", kd))
    if N <= MAG_NMODEL:
        small = edges[:12]
        model_lines += ["setu " + enc_mat(u.tolist()), "setw " + enc_mat(w.tolist()),
                        "data " + hgxv.enc_lists(small) + " " + hgxv.enc_list([F(1)] * len(small)), "pois", "bfsum",
                        "expavg " + hgxv.enc_list(range(2, D + 1))]
        st2, r2 = guarded(lambda: (model.poisson_params(B_hand)[:12], lo.bf_and_sum(u, w), model.expected_degree()), 30)
        model_expect += [("ok", None), ("ok", None), ("ok", None)]
        if st2 == "ok":
            model_expect += [("rel", (list(np.asarray(r2[0], dtype=float)), [MAG_CANCEL * sq_ref[e] for e in small])),
                             ("rel", ([float(r2[1])], [MAG_CANCEL * 0.5 * UwU])), ("rel", ([float(r2[2])], [MAG_CANCEL * UwU]))]
        else:
            model_expect += [("skip", None)] * 3
        if N <= 40 and N >= 3:
            model_lines.append("expdeg " + hgxv.enc_list(range(2, D + 1)))
            st3, r3 = guarded(lambda: model.expected_degree(per_node=True), 30)
            model_expect.append(("rel", (list(np.asarray(r3, dtype=float)), (MAG_CANCEL * (uwU + UwU)).tolist())) if st3 == "ok" else ("skip", None))
    ans = drv.batch(model_lines)
    for ln, a, (kind, val) in zip(model_lines, ans, model_expect):
        ok, shown = True, val
        try:
            if kind == "ok":
                ok = a == "ok"
            elif kind == "cbig":
                p = a.split(";")
                ok = len(p) == 3 and all(relok(float(hgxv.dec_num(x)), y) for x, y in zip(p, val))
            elif kind == "kap":
                got = hgxv.dec_list(a)
                ok = len(got) == len(val)
                for d, kq in zip(val, got):
                    # the model's kappa (products of log_binomial) is the integer of the definition, and its logarithm is what
                    # the implementation returns
                    ok = ok and kq == tab.c2(d) * d * (d - 1) // 2 and logk_ok(lk_impl[d], math.log(kq))
                shown = "log_kappa = " + str([lk_impl[d] for d in val])
                a = "kappa with logarithms " + str([math.log(k) if k > 0 else None for k in got])
            elif kind == "rel":
                vals, slacks = val
                got = hgxv.dec_list(a)
                ok = len(got) == len(vals) and all(relok(float(x), y, slack=s) for x, y, s in zip(got, vals, slacks))
                shown = vals
                a = str([float(x) for x in got])
        except Exception as e:  # noqa: BLE001
            ok = False
            a = f"{a[:80]} ({type(e).__name__})"
        if not ok:
            ctx.disagree({**case, "line": ln[:200]}, f"model answers {a[:160]!r} to {ln[:50]!r}, implementation gives {str(shown)[:200]}")


# the first magnitude cases of every run are pinned to the regimes a random draw reaches only now and then
MAG_FORCED = [
    {"cls": "huge", "N": 65537, "D": 65537, "K": 1},                   # size sets / dimension sequences beyond 46341 (d (d-1) > 2^31)
    {"cls": "edge308", "D": "N"},                                      # binom(N-2, d-2) crosses the float range inside one array
    {"cls": "mid", "D": "N", "full_edge": True, "emany": 4097, "via_hypergraph": False, "fit": True, "which": "u", "n_list": [1, 2],
     "max_hye_size": None},
    # ^ thousands of hyperedges, one past a power of two, the few large ones anywhere among them: queries and a fit (memberships supplied)
    {"cls": "small", "K": 3, "wkind": "full", "wexp": -10, "uexp": 0, "colexp": 0},   # every affinity below 1e-8, not diagonal
    {"cls": "large", "uexp": -90, "wexp": -45},                        # products of size 1e-230
    {"cls": "larger", "D": "N", "uexp": 90, "wexp": 45},               # .. and 1e+230, all sizes up to N in the thousands
    {"cls": "large", "Nrange": (1100, 1700), "D": "N", "full_edge": True, "fit": True, "which": "u"},   # fit with sizes beyond 1000
    {"cls": "large", "Nrange": (450, 1700), "fit": True, "which": "w", "wexp": 30},   # memberships inferred under a huge affinity
]


def gen_mag(rng, force=None):
    force = force or {}
    cls = rng.choice(["small", "mid", "mid", "large", "large", "larger", "larger", "edge63", "edge308", "huge"])
    cls = force.get("cls", cls)
    if cls == "small":
        N = rng.randint(8, 70)
    elif cls == "mid":
        N = rng.randint(70, 450)
    elif cls == "large":
        N = rng.randint(450, 1700)
    elif cls == "larger":
        N = rng.randint(1700, 6000)
    elif cls == "edge63":
        N = rng.randint(62, 74)          # binom(N-2, .) crosses 2^63 here
    elif cls == "edge308":
        N = rng.randint(1015, 1045)      # .. and the float range here
    else:
        N = rng.choice([20000, 46400, 65537, 100003, rng.randint(7000, 120000)])
    if N >= 16 and not cls.startswith("edge"):
        N = rng.choice([N, N, N, 1 << (N.bit_length() - 1), (1 << (N.bit_length() - 1)) + 1])
    N = force.get("N", N)
    if "Nrange" in force:
        N = rng.randint(*force["Nrange"])
    r = rng.random()
    if cls == "huge":
        D = rng.choice([rng.randint(2, 40), rng.randint(40, 700), rng.randint(700, 2500), rng.choice([N, rng.randint(46400, max(46400, N))])])
        D = min(D, N)
    elif r < 0.4:
        D = N
    elif r < 0.6:
        D = rng.randint(max(2, N // 2), N)
    elif r < 0.8:
        D = rng.randint(2, max(2, min(N, 40)))
    else:
        D = rng.randint(2, N)
    if "D" in force:
        D = N if force["D"] == "N" else force["D"]
    K = rng.choice([1, 2, 2, 3, 3, 4]) if cls != "huge" else rng.choice([1, 2, 3])
    K = force.get("K", K)
    mid = (N + 2) // 2                   # where binom(N-2, d-2) is largest
    pool = [2, 3, 4, D, max(2, D - 1), max(2, D // 2), mid, max(2, mid - 1), N, N - 1, max(2, N // 3), max(2, N // 10 + 2),
            rng.randint(2, N), rng.randint(2, N), rng.randint(2, D)]
    lk_single = sorted({d for d in pool if 2 <= d <= N})
    rng.shuffle(lk_single)
    lk_single = lk_single[:rng.randint(5, 10)]
    lk_array = rng.sample(range(2, N + 1), min(N - 1, rng.randint(1, 24)))
    if rng.random() < 0.5:
        lk_array += [mid, N]
    d_single = [rng.choice([2, 3, D, max(2, D // 2), rng.randint(2, D)])]
    d_subset = rng.sample(range(2, D + 1), min(D - 1, rng.randint(1, 30)))
    uexp = rng.choice([0, 0, 0, rng.randint(-8, 8), rng.randint(-90, 90), rng.choice([-90, -60, -30, -9, 9, 30, 60, 90])])
    wexp = rng.choice([0, 0, rng.randint(-8, 8), rng.randint(-45, 45), rng.choice([-45, -20, -12, -10, -9, -8, 8, 20, 45])])
    colexp = [0] * K
    if rng.random() < 0.3 and "colexp" not in force:
        colexp = [rng.randint(-12, 12) for _ in range(K)]
    uexp, wexp = force.get("uexp", uexp), force.get("wexp", wexp)
    esizes = [rng.choice([2, 2, 3, D, max(2, D - 1), max(2, D // 2), rng.randint(2, D), min(N, rng.randint(2, max(2, 2 * D)))])
              for _ in range(rng.randint(1, 5))]
    esizes = [min(d, D) for d in esizes]
    if force.get("full_edge"):
        esizes[0] = D
    weights = rng.choice([None, None, [rng.randint(1, 12) / 4 for _ in esizes]])
    emany = 0
    if rng.random() < 0.07 and N <= 6000:
        emany = rng.choice([300, 1000, rng.randint(100, 1500), rng.choice([4095, 4096, 4097]), rng.randint(1500, 6000)])
    emany = force.get("emany", emany)
    fit, pzero = None, rng.choice([0.0, 0.1, 0.3])
    if (rng.random() < 0.15 and N <= 2500) or force.get("fit"):
        # fit at scale on the same data; the updates divide by the Poisson parameters of the data, so every membership is positive
        pzero = 0.0
        fit = {"which": force.get("which", rng.choice(["u", "u", "u", "w"])), "assortative": rng.random() < 0.5,
               "prior": rng.choice([0.0, 0.0, 1.0, 5.0]),
               "seed": rng.randrange(10 ** 6), "n_list": force.get("n_list", rng.choice([[1, 2, 3], [1, 2], [1, 3], [2, 4]])),
               "max_hye_size": force.get("max_hye_size", rng.choice([None, None, D]))}
        if emany == 0 and rng.random() < 0.5:
            emany = rng.choice([50, 200, 600, rng.randint(20, 1500)])
    return {"kind": "mag", "N": N, "K": K, "D": D, "aseed": rng.randrange(1 << 30), "dyadic": rng.random() < 0.3,
            "pzero": pzero, "fit": fit, "rows": rng.choice(["flat", "flat", "spread", "one"]),
            "colexp": colexp, "uexp": uexp, "wexp": wexp,
            "wkind": force.get("wkind", rng.choice(["diag", "full", "full", "sparse", "offtiny", "offtiny", "offonly"])),
            "zero_diag": rng.random() < 0.3, "esizes": esizes, "weights": weights, "emany": emany,
            "lk_single": lk_single, "lk_array": lk_array, "d_single": d_single, "d_subset": d_subset,
            "via_hypergraph": force.get("via_hypergraph", rng.random() < 0.6)}



# -------------------------------------------------------------------------------------------------
# stream 6 (extension round): constructor -> initial draws -> guarded fit, from the RAW draws of the generator

CTOR_ERRS = [("cannot be inferred since self.w is None", "noAssortative"), ("Number of communities K cannot be inferred", "noK"),
             ("contains negative entries", None), ("is not symmetric", "wNotSymmetric"), ("is not diagonal", "wNotDiagonal"),
             ("number of communities of u and w are different", "kMismatch")]


class StubRng:
    """stands in for the seeded numpy Generator of ONE model object: hands out recorded raw draws (multiples of 1/16 in
    (0, 2]) - `random(shape)` as they are, `exponential(scale, size)` as `scale * g` (NumPy's definition of the scaled
    exponential variate) - and keeps them in the order of the calls"""

    def __init__(self, gseed):
        import random as _r
        self.r = _r.Random(gseed)
        self.calls = []

    def _raw(self, shape):
        import numpy as np
        shape = tuple(int(x) for x in (shape if isinstance(shape, (tuple, list)) else (shape,)))
        n = 1
        for x in shape:
            n *= x
        g = np.array([self.r.randint(1, 32) / 16 for _ in range(n)], dtype=float).reshape(shape)
        return g

    def random(self, size=None):
        g = self._raw(size)
        self.calls.append(("random", g.copy()))
        return g

    def exponential(self, scale=1.0, size=None):
        import numpy as np
        sc = np.asarray(scale, dtype=float)
        g = self._raw(sc.shape if size is None else size)
        self.calls.append(("exponential", g.copy()))
        return sc * g


def enc_prior(p):
    if isinstance(p, (int, float)):
        return "s" + hgxv.enc_num(Fraction(p))
    return "a" + enc_mat(p)


def enc_raw(g):
    """raw draws on the wire: a matrix as it is, a vector as one row, nothing as the empty array"""
    if g is None:
        return "-"
    rows = g.tolist() if g.ndim == 2 else [g.tolist()]
    return enc_mat(rows)


def seed_model(case, gseed=None):
    """the real constructor on fresh float arrays; ('ok', model, (u, u_copy, w, w_copy)) or ('err', kind)"""
    import numpy as np
    from hypergraphx.communities.hy_mmsbm.model import HyMMSBM
    u = None if case["u"] is None else np.array(case["u"], dtype=float)
    w = None if case["w"] is None else np.array(case["w"], dtype=float)
    kw = {}
    if case["K_arg"] is not None:
        kw["K"] = case["K_arg"]
    if case["ass_arg"] is not None:
        kw["assortative"] = case["ass_arg"]
    try:
        with warnings.catch_warnings():
            warnings.simplefilter("ignore")
            m = HyMMSBM(u=u, w=w, max_hye_size=case["max_hye_size"], u_prior=conv_prior(case["u_prior"]),
                        w_prior=conv_prior(case["w_prior"]), seed=7, **kw)
    except ValueError as e:
        msg = str(e)
        for key, kind in CTOR_ERRS:
            if key in msg:
                if kind is None:
                    kind = "wNegative" if "adjacency" in msg else "uNegative"
                return ("err", kind)
        return ("err", "other: " + msg[:60])
    if gseed is not None:
        m._rng = StubRng(gseed)
    return ("ok", m, (u, None if u is None else u.copy(), w, None if w is None else w.copy()))


def compare_seed(ctx, drv, case, lines, expect):
    """model comparison of the seed stream; after two differences of this stream the model is no longer consulted in it (its
    oracles keep running), so that a change which shows here only as a correspondence difference does not use up the run's five
    reports before another stream finds the input on which the property fails"""
    if ctx.extra.get("seed_model_differences", 0) >= 2:
        ctx.count("seed_model_comparisons_skipped_after_two_differences")
        return
    before = len(ctx.disagreements)
    compare(ctx, drv, case, lines, expect)
    if len(ctx.disagreements) > before:
        ctx.extra["seed_model_differences"] = ctx.extra.get("seed_model_differences", 0) + 1


def check_seed(ctx, drv, case):
    import numpy as np
    N, edges, weights = case["N"], [tuple(e) for e in case["edges"]], case["weights"]
    key = repr(sorted((k, repr(v)) for k, v in case.items()))
    lines, expect = [], []
    got = guarded(lambda: seed_model(case, case["gseed"]))
    if got[0] == "exc":
        ctx.case(key, False, sample=case)
        ctx.violation(case, f"the constructor failed with {got[1]}")
        return
    res = got[1]
    ctor_line = "ctor %d %s %s %s" % (-1 if case["K_arg"] is None else case["K_arg"],
                                      "none" if case["u"] is None else enc_mat(case["u"]),
                                      "none" if case["w"] is None else enc_mat(case["w"]),
                                      "none" if case["ass_arg"] is None else str(int(case["ass_arg"])))
    lines.append(ctor_line)
    if res[0] == "err":
        ctx.count("seed_constructor_rejects_" + res[1].split(":")[0])
        expect.append(("raw", "err|" + res[1]))
        ctx.case(key, True, sample=case)
        # the property's hypotheses: a rejected input must really break one of the documented conditions
        w, u = case["w"], case["u"]
        Kw = 0 if w is None else len(w)
        bad = ((case["ass_arg"] is None and w is None) or (case["K_arg"] is None and w is None and u is None)
               or (w is not None and any(x < 0 for r in w for x in r))
               or (w is not None and any(w[a][b] != w[b][a] for a in range(Kw) for b in range(Kw)))
               or (w is not None and case["ass_arg"] is True and any(w[a][b] != 0 for a in range(Kw) for b in range(Kw) if a != b))
               or (u is not None and any(x < 0 for r in u for x in r))
               or (u is not None and w is not None and len(u[0]) != Kw))
        if not bad:
            ctx.violation(case, f"the constructor rejects ({res[1]}) non-negative memberships / a symmetric non-negative affinity "
                                "that satisfy every documented condition")
        compare_seed(ctx, drv, case, lines, expect)
        return
    m, (u_sup, u_copy, w_sup, w_copy) = res[1], res[2]
    K, ass = int(m.K), bool(m.assortative)
    expect.append(("raw", "ok|%d|%d" % (K, int(ass))))
    ctx.count("seed_constructed")
    # --- the initial draws, on a twin object with the same raw draws --------------------------------
    twin = seed_model(case, case["gseed"])[1]
    gw = gu = None
    init_ok = True
    if w_sup is None:
        r = guarded(lambda: twin._init_w())
        if r[0] == "exc":
            init_ok = False
            ctx.violation(case, f"_init_w failed with {r[1]}")
        else:
            gw = twin._rng.calls[-1][1]
            w0 = np.asarray(twin.w, dtype=float)
            ctx.count("seed_init_w_" + ("uniform" if prior_is_zero(case["w_prior"]) else "exponential") + ("_assortative" if ass else "_full"))
            lines.append("initw %d %d %s %s" % (K, int(ass), enc_prior(case["w_prior"]), enc_raw(gw)))
            expect.append(("toll12", w0.tolist()))
            if w0.shape != (K, K) or not np.all(np.isfinite(w0)) or np.any(w0 < 0) or not np.array_equal(w0, w0.T) \
                    or (ass and np.any(w0 - np.diag(np.diag(w0)) != 0)):
                ctx.violation(case, f"the initial affinity drawn by _init_w is not a finite non-negative symmetric"
                                    f"{' diagonal' if ass else ''} {K}x{K} array: {w0.tolist()}")
    if u_sup is None and init_ok:
        ncalls = len(twin._rng.calls)
        r = guarded(lambda: twin._init_u(N))
        if r[0] == "exc":
            init_ok = False
            ctx.violation(case, f"_init_u failed with {r[1]}")
        else:
            gu = twin._rng.calls[ncalls][1]
            u0 = np.asarray(twin.u, dtype=float)
            ctx.count("seed_init_u_" + ("uniform" if prior_is_zero(case["u_prior"]) else "exponential"))
            lines.append("initu %d %d %s %s" % (N, K, enc_prior(case["u_prior"]), enc_raw(gu)))
            expect.append(("toll12", u0.tolist()))
            if u0.shape != (N, K) or not np.all(np.isfinite(u0)) or np.any(u0 < 0):
                ctx.violation(case, f"the initial memberships drawn by _init_u are not a finite non-negative {N}x{K} array")
    if not init_ok:
        ctx.case(key, True, sample=case)
        compare_seed(ctx, drv, case, lines, expect)
        return
    # --- the whole fit from the same raw draws --------------------------------------------------------
    h = build_hypergraph(N, edges, weights, None)
    fkw = {}
    if case["tolerance"] != "default":
        fkw["tolerance"] = case["tolerance"]
    if case["every"] != "default":
        fkw["check_convergence_every"] = case["every"]
    r = guarded(lambda: m.fit(h, n_iter=case["n"], **fkw))
    Dmax = max(len(e) for e in edges)
    tol, ev = (None if case["tolerance"] == "default" else case["tolerance"]), (10 if case["every"] == "default" else case["every"])
    too_small = case["max_hye_size"] is not None and case["max_hye_size"] < Dmax
    must_raise = too_small or (tol is not None and ev == 0)
    Dm = case["max_hye_size"] if case["max_hye_size"] is not None else Dmax
    sqrtC = Fraction(math.sqrt(float(sum(Fraction(2, d * (d - 1)) for d in range(2, Dm + 1))))) if Dm >= 2 else Fraction(1)
    fit_line = "fitseed %d %d %s %s %s %d %s %s %s %s %s %d %s %d" % (
        N, -1 if case["K_arg"] is None else case["K_arg"], "none" if case["u"] is None else enc_mat(case["u"]),
        "none" if case["w"] is None else enc_mat(case["w"]), "none" if case["ass_arg"] is None else str(int(case["ass_arg"])),
        -1 if case["max_hye_size"] is None else case["max_hye_size"], enc_prior(case["u_prior"]), enc_prior(case["w_prior"]),
        enc_raw(gw), enc_raw(gu), hgxv.enc_num(sqrtC), case["n"], "none" if tol is None else hgxv.enc_num(Fraction(tol)), ev)
    lines.append("data %s %s" % (hgxv.enc_lists(edges), hgxv.enc_list([Fraction(1 if weights is None else x) for x in (weights or [1] * len(edges))])))
    expect.append(("ok", None))
    nontrivial = K >= 2 and (u_sup is None or w_sup is None)
    if r[0] == "exc":
        if must_raise and r[1].split(":")[0] in ("ValueError", "ZeroDivisionError"):
            ctx.count("seed_fit_raises_as_documented")
            lines.append(fit_line)
            expect.append(("raw", "rej"))
        else:
            ctx.violation(case, f"fit failed with {r[1]}")
        ctx.case(key, nontrivial, sample=case)
        compare_seed(ctx, drv, case, lines, expect)
        return
    if must_raise:
        ctx.violation(case, "fit returned although " + ("max_hye_size is smaller than the largest hyperedge" if too_small
                                                        else "check_convergence_every = 0 with a tolerance"))
        ctx.case(key, nontrivial, sample=case)
        return
    uu, ww = np.asarray(m.u, dtype=float), np.asarray(m.w, dtype=float)
    finite = bool(np.all(np.isfinite(uu)) and np.all(np.isfinite(ww)))
    # the clauses of the property on the returned object
    scale = max(1.0, float(np.max(np.abs(uu))) if finite else 1.0, float(np.max(np.abs(ww))) if finite else 1.0)
    if u_sup is not None and not (np.array_equal(np.asarray(m.u), u_copy) and np.array_equal(u_sup, u_copy)):
        ctx.violation(case, "fit changed the supplied memberships")
    if w_sup is not None and not (np.array_equal(np.asarray(m.w), w_copy) and np.array_equal(w_sup, w_copy)):
        ctx.violation(case, "fit changed the supplied affinity")
    if finite:
        if np.any(uu < -1e-9 * scale) or np.any(ww < -1e-9 * scale):
            ctx.violation(case, "a parameter returned by fit is negative")
        if not np.allclose(ww, ww.T, rtol=1e-9, atol=1e-12 * scale):
            ctx.violation(case, f"w returned by fit is not symmetric: {ww.tolist()}")
        if ass and np.any(ww - np.diag(np.diag(ww)) != 0):
            ctx.violation(case, f"assortative model, but w returned by fit is not diagonal: {ww.tolist()}")
        if m.max_hye_size != Dm:
            ctx.violation(case, f"max_hye_size after fit is {m.max_hye_size}, expected {Dm}")
    exact_ok = case["n"] <= (2 if (u_sup is None and w_sup is None) else 3) and (tol is None or tol == 0.0 or tol >= 1e5)
    if exact_ok:
        lines.append(fit_line)
        if finite:
            ctx.count("seed_whole_fits_replayed_by_the_model")
            expect.append(("fitseed", (Dm, uu.tolist(), ww.tolist(), m.training_iter, bool(m.tolerance_reached))))
        else:
            ctx.count("seed_nonfinite_fits")
            expect.append(("raw", "nonfinite"))
    elif not finite:
        ctx.count("seed_nonfinite_fits")
    # log_likelihood of the fitted object = - bf_and_sum + sum_e A_e log(lambda_e), ingredients from the model
    if finite:
        ll = guarded(lambda: float(m.log_likelihood(h)))
        lines += ["setu " + enc_mat(uu.tolist()), "setw " + enc_mat(ww.tolist()), "llparts"]
        expect += [("ok", None), ("ok", None), ("llparts", (ll, [float(1 if weights is None else x) for x in (weights or [1] * len(edges))]))]
    ctx.case(key, nontrivial, sample=case)
    compare_seed(ctx, drv, case, lines, expect)


def gen_seed(rng):
    # every third case is malformed / raising, the classes taken in turn (a rare class must not depend on the seed)
    gen_seed.count = getattr(gen_seed, "count", 0) + 1
    kinds = ["wneg", "wasym", "wnotdiag", "uneg", "kmismatch", "noass", "noK", "small", "every0", "wasym_low"]
    kind = kinds[(gen_seed.count // 3 - 1) % len(kinds)] if gen_seed.count % 3 == 0 else None
    N = rng.choice([3, 3, 4, 4, 5])
    K = rng.randint(2, 3) if kind in ("wasym", "wnotdiag", "wasym_low") else rng.randint(1, 3)
    D = rng.randint(2, N)
    edges, weights = gen_edges(rng, N, D, nmax=5)
    which = rng.choice(["none", "none", "u", "u", "w", "both"])
    ass = rng.random() < 0.5
    u = [[float(x) for x in r] for r in gen_u(rng, N, K)] if which in ("u", "both") else None
    if u is not None:
        for r in u:
            r[0] = r[0] or 0.125
    w = [[float(x) for x in r] for r in gen_w(rng, K, ass)] if which in ("w", "both") else None
    K_arg = K if (rng.random() < 0.6 or which == "none") else None
    ass_arg = ass if (rng.random() < 0.6 or w is None) else None
    pw = [0.25, 0.5, 1.0, 2.0, 4.0]

    def prior(rows, cols, sym):
        r = rng.random()
        if r < 0.4:
            return 0.0
        if r < 0.7:
            return rng.choice(pw)
        M = [[rng.choice(pw) for _ in range(cols)] for _ in range(rows)]
        if sym:
            for a in range(rows):
                for b in range(a):
                    M[a][b] = M[b][a]
        return M
    case = {"kind": "seed", "N": N, "edges": edges, "weights": weights, "u": u, "w": w, "K_arg": K_arg, "ass_arg": ass_arg,
            "u_prior": prior(N, K, False), "w_prior": prior(K, K, True), "gseed": rng.randrange(10 ** 9),
            "max_hye_size": rng.choice([None, None, N, max(len(e) for e in edges)]),
            "n": rng.choice([1, 2, 2, 3]), "tolerance": rng.choice(["default", "default", None, 0.0, 1e6]),
            "every": rng.choice(["default", 1, 1, 2])}
    if kind is not None:
        if kind in ("wneg", "wasym", "wnotdiag", "wasym_low"):
            w2 = [[float(x) for x in r] for r in gen_w(rng, K, False)]
            a, b = (0, 0) if K == 1 else sorted(rng.sample(range(K), 2))
            if kind == "wneg" and K == 1:
                w2[0][0] = -0.5
            elif kind == "wneg":
                w2[a][b] = w2[b][a] = -0.125
                if rng.random() < 0.5:
                    w2[a][a] = -0.5
            elif kind == "wasym":
                w2[a][b] = w2[b][a] + 0.125
            elif kind == "wasym_low":
                w2[a][b] = 0.0
                w2[b][a] = 0.25              # upper triangle zero, lower not: "diagonal" by np.triu, not symmetric
                for x in range(K):
                    for y in range(x + 1, K):
                        w2[x][y] = 0.0
                case["ass_arg"] = rng.choice([None, True])
            else:
                w2[a][b] = w2[b][a] = 0.375
                case["ass_arg"] = True
            case["w"] = w2
        elif kind == "uneg":
            u2 = [[float(x) for x in r] for r in gen_u(rng, N, K)]
            u2[rng.randrange(N)][rng.randrange(K)] = -0.25
            case["u"] = u2
        elif kind == "kmismatch":
            case["u"] = [[float(x) for x in r] for r in gen_u(rng, N, K + 1)]
            case["w"] = [[float(x) for x in r] for r in gen_w(rng, K, ass)]
            case["ass_arg"] = ass if rng.random() < 0.5 else None
        elif kind == "noass":
            case["w"], case["ass_arg"] = None, None
        elif kind == "noK":
            case["u"], case["w"], case["K_arg"], case["ass_arg"] = None, None, None, ass
        elif kind == "small":
            case["max_hye_size"] = max(len(e) for e in edges) - 1
        elif kind == "every0":
            case["every"], case["tolerance"] = 0, rng.choice([0.0, 0.5, None])
    return case

# -------------------------------------------------------------------------------------------------

def safely(ctx, check, drv, case):
    """an exception while evaluating the implementation's outputs (wrong shape / type from a broken routine) is a finding,
    not a crash of the tool; a dead Lean driver stays a tool failure"""
    try:
        check(ctx, drv, case)
    except RuntimeError:
        raise
    except Exception as e:  # noqa: BLE001
        ctx.case(repr(("unevaluable", sorted(case.items(), key=lambda kv: kv[0]).__repr__())), False)
        ctx.violation(case, f"the implementation's output could not be evaluated ({type(e).__name__}: {str(e)[:160]})")


def run(ctx):
    drv = ctx.driver() if ctx.model_available else None
    replay_known(ctx, drv)
    n_closed, n_update, n_fit, n_session = ctx.scale(60, 2600), ctx.scale(80, 4200), ctx.scale(45, 1600), ctx.scale(32, 700)
    n_mag = ctx.scale(36, 600)
    n_seed = ctx.scale(60, 900)
    gen_seed.count = 0
    # the seed stream draws from a generator of its own (derived from VERIF_SEED), so that the cases of the older streams - and with
    # them what a given seed finds first - are the same as before the stream was added
    import random as _random
    seed_rng = _random.Random(ctx.seed * 7919 + 15)
    streams = [(gen_closed, check_closed, n_closed), (gen_update, check_update, n_update), (gen_fit, check_fit, n_fit),
               (gen_session, check_session, n_session), (gen_mag, check_mag, n_mag), (gen_seed, check_seed, n_seed)]
    # interleave so that a short time budget still covers the three streams
    todo = []
    for g, c, n in streams:
        todo += [(i / n, g, c) for i in range(n)]
    todo.sort(key=lambda t: t[0])
    forced = list(MAG_FORCED)
    for _, g, c in todo:
        case = g(ctx.rng, force=forced.pop(0)) if g is gen_mag and forced else g(seed_rng if g is gen_seed else ctx.rng)
        t_case = time.time()
        safely(ctx, c, drv, case)
        spent = ctx.extra.setdefault("seconds_per_stream", {})
        spent[case["kind"]] = round(spent.get(case["kind"], 0.0) + time.time() - t_case, 2)
        if ctx.too_many() or (ctx.time_left() is not None and ctx.time_left() < 8):
            ctx.count("stopped_early_time_or_findings")
            break


def replay(ctx, case):
    drv = ctx.driver() if ctx.model_available else None
    case = dict(case)
    case.pop("line", None)
    case.pop("n_iter", None)
    case.pop("at", None)
    kind = case.get("kind")
    if kind == "closed":
        safely(ctx, check_closed, drv, case)
    elif kind == "update":
        safely(ctx, check_update, drv, case)
    elif kind == "fit":
        safely(ctx, check_fit, drv, case)
    elif kind == "session":
        safely(ctx, check_session, drv, case)
    elif kind == "mag":
        safely(ctx, check_mag, drv, case)
    elif kind == "seed":
        safely(ctx, check_seed, drv, case)
    else:
        raise ValueError("unknown case kind")
